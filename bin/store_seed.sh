#!/bin/sh
# usage: store_seed.sh <worktree dir> <seed name>   copies patch.diff / demo.sh / meta.json into /verif/seeded/<name>, removes the worktree
wt=$1; name=$2
[ -f $wt/patch.diff ] && [ -f $wt/meta.json ] || { echo "incomplete: $wt"; exit 1; }
mkdir -p /verif/seeded/$name
cp $wt/patch.diff $wt/meta.json /verif/seeded/$name/
[ -f $wt/demo.sh ] && cp $wt/demo.sh /verif/seeded/$name/
for f in $wt/demo*.py $wt/*.py; do [ -f "$f" ] && cp $f /verif/seeded/$name/; done
rm -rf $wt/target
git -C /repo worktree remove --force $wt
echo stored $name
