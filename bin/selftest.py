#!/usr/bin/env python3
"""Demonstrates that the specifications are bound to the code (DESIGN.md 4.4): for every trace specification a trace
recorded from the real binary is first accepted, then ONE recorded field is corrupted / ONE event is removed and the same
trace must be rejected; for the conformance checks one expected value is falsified and must be noticed.
usage: bin/selftest.py        exit 0 = every corruption was rejected, 1 = a corrupted trace was accepted (binding is vacuous)"""
import copy
import json
import os
import random
import sys

sys.path.insert(0, os.path.join(os.path.dirname(os.path.dirname(os.path.abspath(__file__))), "drivers"))
import common  # noqa
import tracecheck  # noqa

results = []


def record(name, accepted_orig, rejected_corrupt, detail=""):
    ok = accepted_orig and rejected_corrupt
    results.append((name, ok, accepted_orig, rejected_corrupt, detail))
    print("%-46s original %-8s corrupted %-8s %s %s" % (name, "accepted" if accepted_orig else "REJECTED", "rejected" if rejected_corrupt else "ACCEPTED",
                                                        "ok" if ok else "BINDING PROBLEM", detail), flush=True)


def t_cmdlist():
    import c03
    prog = {"sts": ["nz", "z", "z"], "ops": ["&&", ";"], "ran": [{"idx": 1, "prev": 0}, {"idx": 3, "prev": 1}]}
    line, exp, status, conc = c03.render(prog, "c", random.Random(5))
    res = common.run_cases([{"entry": "c", "text": line, "want_files": False, "env": {"CICADA_VERIF_TRACE": "@SCRATCH@/vh/trace.ndjson"}}])[0]
    hdr = {"e": "reset", "sts": prog["sts"], "ops": prog["ops"], "conc": conc}
    evs = [e for e in res["trace"] if e.get("d") == 1 and e.get("e", "").startswith("list_")]
    ok, _, _, _ = tracecheck.validate("TraceCmdList", "TraceCmdList", [hdr] + evs)
    bad1 = copy.deepcopy(evs)
    for e in bad1:
        if e["e"] == "list_run":
            e["status"] = 0 if e["status"] else 7          # a corrupted status
            break
    r1, _, _, _ = tracecheck.validate("TraceCmdList", "TraceCmdList", [hdr] + bad1)
    bad2 = [e for e in evs if e["e"] != "list_skip"]       # the hook event of the skipped pipeline removed
    r2, _, _, _ = tracecheck.validate("TraceCmdList", "TraceCmdList", [hdr] + bad2)
    record("TraceCmdList (C03): status field corrupted", ok, not r1, "`%s`" % line)
    record("TraceCmdList (C03): list_skip event removed", ok, not r2)


def t_fds():
    import c08
    run = c08.run_traced("vmk 0 0\nvio a | vio b r > f9\nvmk 1 0\nvpa $(vout 1)\nvmk 2 0\n", "selftest")
    recs = run["records"]
    ok, _, _, _ = tracecheck.validate("TraceFds", "TraceFds", [{"e": "reset"}] + recs)
    # remove one close() of the shell (p = 1) after the first marker: the descriptor stays open in the model
    bad = list(recs)
    seen_marker = False
    for i, r in enumerate(bad):
        if r["e"] == "marker":
            seen_marker = True
        if seen_marker and r["e"] == "close" and r["p"] == 1:
            del bad[i]
            break
    r1, _, _, _ = tracecheck.validate("TraceFds", "TraceFds", [{"e": "reset"}] + bad)
    record("TraceFds (C08/C02): one close() of the shell removed", ok, not r1, "%d system-call records" % len(recs))


def t_history():
    import c18
    hist = [{"op": "add", "text": "t2", "dir": "d2"}, {"op": "add", "text": "t7", "dir": "d1"}, {"op": "list"}, {"op": "delete", "ids": [1]}, {"op": "list"}]
    recs, err = c18.run_history((hist, 1))
    if err:
        raise common.ToolError(err)
    ok, _, _, _ = tracecheck.validate("TraceHistory", "TraceHistory", [{"op": "reset"}] + recs)
    bad = copy.deepcopy(recs)
    bad[1]["rows"][0]["text"] = bad[1]["rows"][0]["text"] + "X"        # an earlier row changed by a later add
    r1, _, _, _ = tracecheck.validate("TraceHistory", "TraceHistory", [{"op": "reset"}] + bad)
    record("TraceHistory (C18): an earlier row altered", ok, not r1)


def t_session():
    import c07
    recs = None
    for seed in range(11, 30):
        r, err, defs = c07.run_session((seed, 8))
        if not err and len(r) > 5:
            ok, ln, pf, res = c07.validate_one(r)
            if ok and not pf:
                recs = r
                break
    if recs is None:
        record("TraceSession (C07): terminal owner flipped", False, False, "no accepted session recorded")
        return
    bad = copy.deepcopy(recs)
    for rec in bad[1:]:
        if "obs" in rec and rec["obs"].get("prompt"):
            rec["obs"]["tty"] = 11 if rec["obs"]["tty"] != 11 else 21       # the terminal belongs to a job while the prompt is shown
            break
    ok2, ln, pf, res = c07.validate_one(bad)
    record("TraceSession (C07): terminal owner flipped", True, (not ok2) or bool(pf), "%d actions" % (len(recs) - 1))


def t_robust():
    ev = [{"e": "reset"}] + [{"e": "submit"}, {"e": "return", "o": "ran"}] * 20 + [{"e": "sentinel", "ok": True}]
    ok, _, _, _ = tracecheck.validate("TraceRobust", "TraceRobust", ev)
    bad = list(ev)
    bad[9] = {"e": "crash"}
    r1, _, _, _ = tracecheck.validate("TraceRobust", "TraceRobust", bad)
    record("TraceRobust (C05): one answer replaced by a crash", ok, not r1)


def t_conformance():
    got = common.inproc_map("tokens", [{"id": 0, "line": "a 'b c' \\>d"}], timeout=20)[0]
    want = [["", "a"], ["'", "b c"], ["'", ">d"]]
    record("Tokenizer conformance: expected tokens falsified", got.get("tokens") == want, got.get("tokens") != [["", "a"], ["'", "b c"], ["", ">d"]])
    got = common.inproc_map("cmds", [{"id": 0, "line": "a && b ; 'c;d'"}], timeout=20)[0]
    record("Splitter conformance: expected commands falsified", got.get("cmds") == ["a", "&&", "b", ";", "'c;d'"], got.get("cmds") != ["a", "&&", "b", ";", "'c", ";", "d'"])


def t_extras():
    got = common.inproc_map("prompt", [{"id": 0, "line": "$a-${zz}$$ ", "shv": {"a": "V"}}], timeout=20)[0]
    record("Prompt conformance: expected rendering falsified", got.get("prompt") == "V-$$ ", got.get("prompt") != "V-${zz}$$ ")
    got = common.inproc_map("plan", [{"id": 0, "line": "a=1 b < f | c > g &"}], timeout=20)[0]
    pl = (got.get("plans") or [{}])[0]
    ok = pl.get("background") is True and pl.get("envs") == [["a", "1"]] and [c["tokens"] for c in pl.get("commands", [])] == [[["", "b"]], [["", "c"]]]
    record("Plan conformance: expected plan falsified", ok, pl.get("background") is not False)
    got = common.inproc_map("multiline", [{"id": 0, "line": "vpa a\\\n>> b"}], timeout=20)[0]
    record("Multiline conformance: expected trimming falsified", got.get("trimmed") == "vpa ab", got.get("trimmed") != "vpa a\\\nb")


def main():
    common.build_all()
    for t in (t_cmdlist, t_fds, t_history, t_session, t_robust, t_conformance, t_extras):
        try:
            t()
        except common.ToolError as e:
            print("TOOL ERROR in %s: %s" % (t.__name__, e))
            results.append((t.__name__, False, False, False, str(e)))
    common.cleanup_scratch()
    bad = [r for r in results if not r[1]]
    print("selftest: %d checks, %d binding problems" % (len(results), len(bad)))
    sys.exit(1 if bad else 0)


if __name__ == "__main__":
    main()
