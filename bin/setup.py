#!/usr/bin/env python3
"""MANIFEST.setup_cmd: build the harness and the cicada binary offline, parse every spec with SANY."""
import glob
import os
import subprocess
import sys

sys.path.insert(0, os.path.join(os.path.dirname(os.path.dirname(os.path.abspath(__file__))), "drivers"))
import common  # noqa

try:
    common.build_all()
except common.ToolError as e:
    print(e, file=sys.stderr)
    sys.exit(2)
bad = 0
for f in sorted(glob.glob(os.path.join(common.SPEC, "*.tla"))):
    p = subprocess.run(["java", "-cp", common.TLA_CP, "tla2sany.SANY", os.path.basename(f)], cwd=common.SPEC,
                       stdout=subprocess.PIPE, stderr=subprocess.STDOUT)
    out = p.stdout.decode()
    if p.returncode != 0 or "error" in out.lower() and "Semantic errors" in out:
        print("SANY failed on", f, "\n", out[-2000:], file=sys.stderr)
        bad += 1
print("setup ok" if not bad else "setup: %d specs failed to parse" % bad)
sys.exit(2 if bad else 0)
