#!/usr/bin/env python3
"""Replaces the table between the MATRIX markers of DESIGN.md by the output of bin/matrix2md.py seeded/MATRIX-quick.txt"""
import os, re, subprocess
V = os.path.dirname(os.path.dirname(os.path.abspath(__file__)))
tab = subprocess.check_output(["python3", os.path.join(V, "bin", "matrix2md.py"), os.path.join(V, "seeded", "MATRIX-quick.txt")]).decode()
p = os.path.join(V, "DESIGN.md")
s = open(p).read()
block = "<!-- MATRIX BEGIN -->\n" + tab + "<!-- MATRIX END -->"
if "SEED_MATRIX_PLACEHOLDER" in s:
    s = s.replace("SEED_MATRIX_PLACEHOLDER", block)
else:
    s = re.sub(r"<!-- MATRIX BEGIN -->.*?<!-- MATRIX END -->", lambda m: block, s, flags=re.S)
open(p, "w").write(s)
print("matrix rows:", tab.count("\n") - 2)
