#!/usr/bin/env python3
"""Builds the table of DESIGN.md 12.5 from the outputs of bin/seedmatrix.sh (given as arguments, later files win)
and seeded/*/meta.json + confirm.log."""
import json, os, re, sys, glob
V = os.path.dirname(os.path.dirname(os.path.abspath(__file__)))
res = {}
for f in sys.argv[1:]:
    for ln in open(f, errors="replace"):
        m = re.match(r"^(C\d\d-\w+) (C\d\d) rc=(\S+) (.*)$", ln.rstrip("\n"))
        if m:
            name, pid, rc, rest = m.groups()
            cl = re.search(r"violation cluster \[([^\]]*)\]", rest)
            res[name] = (pid, rc, cl.group(1) if cl else "")
print("| seed | prop. | the change (author's summary, shortened) | needs | confirmed | quick check of the property |")
print("|---|---|---|---|---|---|")
for d in sorted(glob.glob(os.path.join(V, "seeded", "C*"))):
    name = os.path.basename(d)
    try:
        meta = json.load(open(os.path.join(d, "meta.json")))
    except Exception:
        continue
    conf = ""
    try:
        t = open(os.path.join(d, "confirm.log")).read()
        ok = "build_rc=0" in t and "demo_without_change_rc=0" in t and re.search(r"demo_with_change_rc=[1-9]", t) and "FAILED" not in t
        conf = "yes" if ok else "NO"
    except OSError:
        v = meta.get("verified", {})
        conf = "by its author" if v and all(v.get(k) for k in ("compiles", "tests_pass", "demo_fails_with_change", "demo_passes_without")) else "-"
    pid, rc, cl = res.get(name, (meta.get("property"), "?", ""))
    det = {"1": "VIOLATION (%s)" % cl, "0": "missed", "2": "tool error", "?": "not run"}.get(rc, rc)
    if rc == "0" and str(meta.get("status", "")).startswith("neutralised"):
        det = "not reported: neutralised by a later fix (the change no longer breaks the property, see meta.json)"
    s = re.sub(r"\s+", " ", meta.get("summary", ""))[:170].replace("|", "\\|")
    n = re.sub(r"\s+", " ", meta.get("needs", ""))[:150].replace("|", "\\|")
    print("| %s | %s | %s | %s | %s | %s |" % (name, pid, s, n, conf, det.replace("|", "\\|")))
