#!/bin/sh
# usage: seedmatrix.sh [seed names...]   (default: all of /verif/seeded/*)
# Runs each seeded change against the quick check of its property in an isolated copy
# (scratch worktree of /repo + copy of /verif under /tmp/mx), so /repo and /verif stay usable meanwhile.
# Result lines: <seed> <property> rc=<exit code> <first VIOLATION / KNOWN-FINDING / TOOL ERROR line>
MX=${MX:-/tmp/mx}
V=/verif
if [ ! -d $MX/repo ]; then
  mkdir -p $MX
  git -C /repo worktree add -q --detach $MX/repo HEAD || exit 3
fi
git -C $MX/repo checkout -q --detach $(git -C /repo rev-parse HEAD) || exit 3
git -C $MX/repo checkout -q -- .
mkdir -p $MX/verif
rsync -a --delete --exclude .build --exclude .work --exclude replays --exclude .git --exclude seeded $V/ $MX/verif/
sed -i "s|path = \"/repo\"|path = \"$MX/repo\"|" $MX/verif/harness/Cargo.toml
seeds="$@"; [ -z "$seeds" ] && seeds=$(ls $V/seeded | grep -v MATRIX)
for n in $seeds; do
  d=$V/seeded/$n
  [ -f $d/patch.diff ] || continue
  pid=$(python3 -c "import json,sys;print(json.load(open('$d/meta.json'))['property'])")
  [ -n "$PROP" ] && pid=$PROP
  tier=${TIER:-quick}
  if ! git -C $MX/repo apply $d/patch.diff 2>/dev/null; then echo "$n $pid rc=NA patch does not apply"; continue; fi
  (cd $MX/verif && VERIF_REPO=$MX/repo timeout 3600 ./bin/check $pid --tier $tier > $MX/out-$n.txt 2>&1); rc=$?
  git -C $MX/repo checkout -q -- .
  line=$(grep -E "^VIOLATION|TOOL ERROR" $MX/out-$n.txt | head -1)
  what=$(grep "violation cluster" $MX/out-$n.txt | head -1 | cut -c1-200)
  echo "$n $pid rc=$rc $line | $what"
done
