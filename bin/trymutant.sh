#!/bin/sh
# usage: trymutant.sh <patch> <ID> [tier]  -- apply a seeded change to /repo, run a check, undo it
set -u
patch=$(readlink -f "$1"); id=$2; tier=${3:-quick}
git -C /repo apply "$patch" || { echo "patch does not apply"; exit 3; }
cd /verif && ./bin/check "$id" --tier "$tier" > /tmp/mut-$id.out 2>&1; rc=$?
git -C /repo checkout -- .
echo "rc=$rc"; grep -E "^VIOLATION|KNOWN-FINDING|TOOL ERROR" /tmp/mut-$id.out | head -8; grep "violation cluster" /tmp/mut-$id.out | head -5
exit 0
