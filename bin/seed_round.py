#!/usr/bin/env python3
"""Prepares one round of seeding: for each property id given, a scratch worktree /tmp/wt-<ID><v> of /repo and a prompt file
/tmp/exp/p-<ID><v>.txt for a fresh sub-agent.  The prompt holds only the property text (bin/agent_prompt.py) plus, so that
rounds do not repeat themselves, one-line summaries of the changes already stored under /verif/seeded for that property
(descriptions of source changes, nothing about the checks).
usage: bin/seed_round.py <variant-letter> <ID>..."""
import glob
import json
import os
import subprocess
import sys

v = sys.argv[1]
os.makedirs("/tmp/exp", exist_ok=True)
for pid in sys.argv[2:]:
    wt = "/tmp/wt-%s%s" % (pid, v)
    if not os.path.isdir(wt):
        subprocess.check_call(["git", "-C", "/repo", "worktree", "add", "-q", "--detach", wt, "HEAD"])
    known = []
    for m in sorted(glob.glob("/verif/seeded/%s-*/meta.json" % pid)):
        try:
            known.append(json.load(open(m))["summary"][:170].replace("\n", " "))
        except Exception:
            pass
    hint = ""
    if known:
        hint = "Please choose something DIFFERENT (a different function and a different trigger) from these already-known examples: " + " || ".join(known) + ". "
    hint += ("Prefer a change whose effect depends on two cooperating code sites, a multi-step sequence, two features used together in one "
             "command, or a particular order of events. IMPORTANT: do not use 'git stash' (the stash is shared between worktrees and other "
             "people work in sibling worktrees): to test the unchanged code save your change with 'git diff > %s/my.diff', run "
             "'git checkout -- src', rebuild and test, then restore it with 'git apply %s/my.diff'." % (wt, wt))
    text = subprocess.check_output([sys.executable, "/verif/bin/agent_prompt.py", pid, v, hint]).decode()
    text = text.replace("then `git stash` your change, rebuild, run demo.sh again (must pass), then `git stash pop`",
                        "then set your change aside (see the note on git stash above), rebuild, run demo.sh again (must pass), then restore your change")
    open("/tmp/exp/p-%s%s.txt" % (pid, v), "w").write(text)
    print("/tmp/exp/p-%s%s.txt" % (pid, v), wt)
