#!/bin/sh
# usage: confirm_seed.sh <seeded dir>: confirms in a scratch worktree that the patch compiles, passes the
# baseline tests, and that demo.sh fails with it and passes without it.  Writes <dir>/confirm.log
d=$(cd "$1" && pwd); n=$(basename "$d"); wt=/tmp/cs-$n
exec > "$d/confirm.log" 2>&1
git -C /repo worktree remove --force $wt 2>/dev/null; rm -rf $wt
git -C /repo worktree add -q --detach $wt HEAD || exit 3
cd $wt && git apply "$d/patch.diff" || { echo "APPLY FAILED"; git -C /repo worktree remove --force $wt; exit 3; }
export CARGO_TARGET_DIR=$wt/target
cargo build --offline 2>&1 | tail -2; echo "build_rc=$?"
timeout 600 cargo test --workspace --no-fail-fast --offline 2>&1 | grep -E "test result|FAILED|failed" ; 
sh "$d/demo.sh" $wt/target/debug/cicada > /dev/null 2>&1; echo "demo_with_change_rc=$?"
git checkout -q -- . && cargo build --offline 2>&1 | tail -1
sh "$d/demo.sh" $wt/target/debug/cicada > /dev/null 2>&1; echo "demo_without_change_rc=$?"
cd /; git -C /repo worktree remove --force $wt; rm -rf $wt
