#!/usr/bin/env python3
"""Regenerates /verif/MANIFEST.json from the table below (kept valid against the schema)."""
import json
import os

V = os.path.dirname(os.path.dirname(os.path.abspath(__file__)))
HOOK_COMMITS = ["9b615ed", "0f2a307"]

CHECKS = {
 "C03": dict(
  category="model_checking",
  text="TLC exhaustively checks the token loop of run_command_line (spec/CmdList.tla, one action per loop iteration) against "
       "the left-to-right rule of the property for every program of up to 4 (thorough 6) pipelines x 3 operators x 2 status "
       "classes, plus liveness; every program is then replayed through the real binary (-c and script entry) with marker "
       "helpers and judged by which pipelines ran, the $? each saw and the exit status; the loop's hook events of every run are "
       "validated by TLC against the same specification (TraceCmdList.tla).",
  design_ref="DESIGN.md 3.4, 6 (C03)",
  note="Trusted: TLC, the vmk helper (logs atomically, exits with the programmed status), non-zero statuses drawn from {1,3,255}; "
       "bounded: exhaustive to 6 pipelines, TLC-simulated programs up to 12.",
  technique="TLA+ model of the list loop checked by TLC; TLC-generated programs replayed into the binary; hook traces validated by TLC"),
}

NOT_YET = {}
for i in range(1, 21):
    pid = "C%02d" % i
    if pid not in CHECKS:
        NOT_YET[pid] = "check not built yet in this revision of /verif (planned per DESIGN.md section 6); nothing is claimed for it"

m = {
 "version": 1,
 "setup_cmd": "cd /verif && python3 bin/setup.py",
 "hooks": {
  "guard": "cicada_verif",
  "enable": "RUSTFLAGS=\"--cfg cicada_verif\" (set by /verif/harness/.cargo/config.toml for the harness + hooked library and by drivers/common.py for the cicada binary)",
  "baseline_off_cmd": "cd /repo && cargo test --workspace --no-fail-fast --offline",
  "source_commits": HOOK_COMMITS,
  "add_only": True,
 },
 "engines": [
  {"name": "tlc", "path": "/opt/veriftools/tla/tla2tools.jar", "serves_properties": sorted(CHECKS), "kind_free_text": "TLC 1.8.0 explicit-state model checker (model checking, behaviour generation, trace validation) over /verif/spec/*.tla"},
  {"name": "vreplay/vh", "path": "/verif/harness", "serves_properties": sorted(CHECKS), "kind_free_text": "Rust harness: in-process replayer linked against the hooked cicada library, helper programs used as commands of generated lines"},
 ],
 "checks": [],
 "notes": "All checks: ./bin/check <ID> --tier quick|thorough; exit 0 held, 1 VIOLATION, 2 tool error. Known findings: /verif/known_findings.json. Design: /verif/DESIGN.md.",
 "not_applicable": [{"property_id": k, "reason": v} for k, v in sorted(NOT_YET.items())],
}
for pid in sorted(CHECKS):
    c = CHECKS[pid]
    m["checks"].append({
     "property_id": pid,
     "quick_cmd": "./bin/check %s --tier quick" % pid,
     "thorough_cmd": "./bin/check %s --tier thorough" % pid,
     "evidence_file": "/verif/evidence/%s.json" % pid,
     "replay_cmd_template": "./bin/check %s --replay {path}" % pid,
     "engine": "tlc",
     "level_claimed": {"category": c["category"], "text": c["text"], "design_ref": c["design_ref"]},
     "level_note": c["note"],
     "technique": c["technique"],
    })
with open(os.path.join(V, "MANIFEST.json"), "w") as f:
    json.dump(m, f, indent=1)
print("MANIFEST.json: %d checks, %d not_applicable" % (len(m["checks"]), len(m["not_applicable"])))
