#!/usr/bin/env python3
"""Regenerates /verif/MANIFEST.json from the table below (kept valid against the schema)."""
import json
import os

V = os.path.dirname(os.path.dirname(os.path.abspath(__file__)))
HOOK_COMMITS = ["9b615ed", "0f2a307", "ccdb599", "d17c727", "e6d9d10", "d6d5c38"]

CHECKS = {
 "C01": dict(
  category="model_checking",
  text="TLC checks on the reference reader (spec/ShellLex.tla) that every argument text up to length 2 (thorough 3) over the "
       "30-symbol metacharacter alphabet, in every admissible quoting style, position and operator context, is read back as "
       "exactly that argument with no operator recognised inside it; every behaviour is a replay case: the real line_to_cmds + "
       "CommandLine::from_line must plan exactly those argv in-process, every kind of mismatch and a sample of matches is run "
       "through the real binary with an argv-dumping helper, and only process-level mismatches are violations. TLC-simulated "
       "argument lists (0..6 arguments up to length 8) extend the bound. In addition parse_line itself is transcribed statement by statement (spec/Tokenizer.tla): every string over a 14-symbol alphabet up to length 4 (thorough 5) must be tokenized by the real code exactly as by the transcription (conformance drift is reported), and TLC lists where the transcription and the reference reader disagree.",
  design_ref="DESIGN.md 3.1, 6 (C01)",
  note="Trusted: TLC, the reference reader as the meaning of the three quoting styles, helper vpa; in-process plan = what the binary "
       "executes (sampled at process level). Known findings (backslash style only) are listed in known_findings.json.",
  technique="TLA+ reference reader + TLC enumeration of quoted lines; exhaustive in-process replay, process-level confirmation"),
 "C07": dict(
  category="model_checking",
  text="TLC checks the terminal invariants (shell owns the terminal at the prompt, the foreground job while it is waited for) on "
       "the JobControl model for every interleaving; random interactive sessions of the real binary on a pseudo-terminal (launch "
       "fg/bg pipelines of 1..3 stages, Ctrl-Z, Ctrl-C, fg/bg id, external stop/cont/kill/exit of members, jobs, empty lines) are "
       "recorded with state-based observations (tcgetpgrp, /proc state and process group of every helper, the shell's blocking "
       "system call, the parsed jobs listing and notifications) and validated by TLC against spec/TraceSession.tla: every logged "
       "action is a JobControl action, unseen shell steps are bounded silent steps, and the statements of C07 are evaluated on "
       "every observation. spec/Launch.tla models how a pipeline gets its process group and the terminal (fork, setpgid in parent and child, tcsetpgrp) in every interleaving; the pinned child-only variant is the negative control, and the sessions draw a schedule-point profile (hook delay points around fork / setpgid) so the race windows are explored on the real binary.",
  design_ref="DESIGN.md 3.8, 6 (C07)",
  note="Trusted: TLC, the pty driver's quiescence detection (/proc/<pid>/syscall + stat, several consecutive looks), helper vjob. "
       "A session that does not settle is dropped (tool level), a session the model cannot explain without any C07 statement "
       "failing is counted as spec_drift, not as a violation.",
  technique="TLA+ session model; recorded pty sessions validated by TLC with silent steps, C07 statements asserted on observations"),
 "C08": dict(
  category="model_checking",
  text="TLC checks the design-level model of run_pipeline's descriptor discipline (spec/Pipeline.tla: every interleaving of shell "
       "steps, child set-up steps and stage I/O for 3..4 stages, capture pipes, pipe() failing at each position) for ExecFds, "
       "ShellFdsRestored, NoForeignEnds, FaultClean and termination. Generated command sessions (pipelines of 1..6 stages, every "
       "redirection form, builtins with redirection, substitutions of externals/builtins/functions, here-strings, failing and "
       "not-found commands, background jobs) run hook-free under strace -ff; every descriptor-affecting system call is replayed "
       "on the Kernel descriptor model (spec/TraceFds.tla) and ExecFds (only 0,1,2 survive each execve) and ShellFdsRestored (the "
       "shell's set at every marker equals its set at the first) are evaluated in every state; helpers independently report what "
       "they inherited. Fault enumeration: RLIMIT_NOFILE values 4..40 before pipeline shapes.",
  design_ref="DESIGN.md 3.5, 3.6, 6 (C08)",
  note="Trusted: TLC, strace's decoding (unknown fd-producing calls stop the check), per-process call order + clone return values; "
       "sessions are scripts (interactive path: C07).",
  technique="TLA+ kernel fd model; strace traces of generated sessions validated by TLC (invariants at every execve and marker); RLIMIT fault enumeration"),
 "C02": dict(
  category="model_checking",
  text="TLC explores every interleaving of the shell's steps (pipe creation, fork, parent closes, capture read, wait), the "
       "children's set-up steps in the order of core.rs and the stages' reads / writes / exits over capacity-1 pipes for 3..4 "
       "stages (spec/Pipeline.tla) and checks delivery, termination (liveness under fairness), no foreign pipe ends, exec with "
       "only 0-2, shell descriptors restored. TLC enumerates scenarios with their reference outcome (spec/MCPipeScen.tla: stage "
       "kinds incl. builtin / not-found / early exit, payload 0 B..200 kB, last-stage exit code or signal, every finishing-order "
       "permutation); each runs on the real binary with the vst stage helper under a watchdog and is judged by bytes + checksum "
       "received by the last stage, start counts, exit status and live processes when the shell returns; a sample runs under "
       "strace and is validated against the kernel descriptor model. The model also covers a stage that writes to standard error, the capture pipes read sequentially (core.rs as pinned: TLC finds the deadlock, negative control) or together, and the here-string pipe with SIGPIPE at its default disposition (pinned: the shell dies, negative control) or ignored; here-string scenarios (reader consumes / exits without reading, text below / above one pipe buffer) run on the binary.",
  design_ref="DESIGN.md 3.6, 6 (C02)",
  note="Trusted: TLC, the vst helper, finishing order forced by per-stage linger; hangs are judged by a 60 s watchdog.",
  technique="TLA+ pipeline model checked by TLC (safety + liveness); TLC-enumerated scenarios replayed on the binary; strace traces validated by TLC"),
 "C04": dict(
  category="model_checking",
  text="The descriptor-table semantics of redirections is written as a left-to-right fold (spec/Redirect.tla); TLC checks theorems "
       "of that reference (every written token lands in exactly one place, a command without redirections touches no file, "
       "2>&1 >f sends stderr where stdout was) for every command with up to 2 (thorough 3) redirections from {>, >>, 2>, 2>>, 2>&1, "
       "1>&2, <, <<<} over present / absent / unopenable targets x {external program, builtin writing stdout, builtin writing "
       "stderr} x {only, first, last pipeline stage}, and emits each with the prescribed outcome; every case is rendered with "
       "random spelling (attached / spaced, 1> / >, >&2 / 1>&2), run by the real binary and judged by file contents, captured "
       "stdout / stderr of the whole line, what the next stage read, whether the command ran and $?, followed by a command that "
       "checks nothing leaked. Commands with 4 redirections come from TLC simulation. tokens_to_redirections is transcribed statement by statement (spec/RedirParse.tla): every list of up to 2 (thorough 3) tokens with words of up to 3 characters over {a, 1, 3, >, &} must be parsed by the real function exactly as by the transcription; TLC checks three sanity theorems on the transcription.",
  design_ref="DESIGN.md 3.3, 6 (C04)",
  note="Trusted: TLC, helper vio (single write(2) per stream), builtin reference text taken from an unredirected run; a file is "
       "opened at most once per generated command; diagnostics of the shell may appear on whatever stderr currently is.",
  technique="TLA+ reference semantics of redirections; TLC-enumerated commands replayed on the binary, outcomes compared with the fold"),
 "C10": dict(
  category="model_checking",
  text="The reference is a single left-to-right pass over the characters of a word (spec/Expand.tla: ParamRef); the loop of "
       "shell.rs::expand_env is modelled round by round in two modes (the pinned re-scanning loop and the repaired single pass). "
       "TLC checks for every word of up to 2 (thorough 3) segments from {literal, $A, ${A}, $B, ${B}, $AB, ${AB}, $?, $$, ${?}, "
       "{-}, $} under 40 environments (values with $B, $A, ${B}, self and mutual references, regex-special text, blanks, $1) that "
       "the loop ends with exactly the reference result, makes progress in every round and terminates (liveness); every (word, "
       "environment) is replayed on the real binary unquoted, double-quoted and single-quoted under a watchdog (hangs re-run with "
       "a 10x budget) and judged by the argv the helper received. A sample of the cases is also run with the environment rebuilt inside the line (stale shell-local value, then export of the current value).",
  design_ref="DESIGN.md 3.2, 6 (C10)",
  note="Trusted: TLC, helper vpa; variables are exported through the process environment; unquoted values with blanks may arrive "
       "split or unsplit.",
  technique="TLA+ reference expansion + model of the expansion loop checked by TLC (safety + liveness); TLC-enumerated words replayed on the binary"),
 "C11": dict(
  category="model_checking",
  text="The reference value of a word with command substitutions (spec/MCSubst.tla: each substitution replaced by its output "
       "with trailing newlines removed, everything else literal, each inner command run once) is enumerated by TLC over spelling "
       "{$(), ``} x position {whole, start, mid, end} x context {unquoted, double-quoted, assignment, here-string} x inner kind "
       "{simple, pipeline, failing, not found, syntactically invalid, builtin} x output text (incl. $1, ${x}, $name, a\\b, *, {a,b}, "
       "blanks, newlines; thorough: more) and two substitutions per word; TLC checks the trimming theorems; each case runs on the "
       "real binary with a helper that prints the programmed bytes and logs each run, under a watchdog (hangs re-run with a 10x "
       "budget); oracle: argv / stdin received by the outer command, run counters, diagnostic for inner commands that cannot "
       "run, and that the following command still runs. Volume variants (inner command writes more than one pipe buffer to stdout, to stderr, to both) bind the capture branch of spec/Pipeline.tla to the binary.",
  design_ref="DESIGN.md 3.2, 6 (C11)",
  note="Trusted: TLC, helpers vout / vpa / vio; unquoted results with blanks may arrive split or unsplit.",
  technique="TLA+ reference of substitution values enumerated by TLC; every case replayed on the binary with run counters"),
 "C14": dict(
  category="model_checking",
  text="spec/Script.tla holds a writer of every well-formed script as a line sequence (commands, break, continue, if / else if / "
       "else / fi, while, for with 0..2 words, done), a recursive-descent Parse, the structured big-step semantics of the property "
       "(programmed condition answers, loop-variable binding, innermost-loop break / continue) and a one-to-one transcription of "
       "scripting.rs's recursive run functions with their (continue, break) flags. TLC checks that both produce the same event "
       "sequence for every script of up to 5 (thorough 6, and 7..8 with one answer per condition) lines and every answer "
       "assignment; every (script, answers) pair is rendered in both spellings (newline and `; then` / `; do`) with marker and "
       "condition helpers and run by the real binary; oracle: the helper log (which commands ran in which order with which loop "
       "variable value, which conditions were evaluated) equals the expected event sequence. Unbalanced variants must be "
       "diagnosed.",
  design_ref="DESIGN.md 3.10, 6 (C14)",
  note="Trusted: TLC, helpers vmk / vcond; answer sequences always end in failure so every while terminates.",
  technique="TLA+ big-step semantics vs transcription of the interpreter checked by TLC; every bounded script replayed on the binary"),
 "C15": dict(
  category="model_checking",
  text="spec/ScriptStatus.tla gives the reference semantics of statuses across top level, functions, sourced files and if-bodies "
       "(status = last command executed; exit N ends everything; after set -e the first failing command anywhere ends the script "
       "with its status) and an implementation-shaped variant whose Legacy switches reproduce the pinned code's deviations "
       "(function status always 0, set -e only leaving the innermost construct). TLC checks that the repaired design agrees with "
       "the reference for every program of up to 3 (thorough 4) statements and that the legacy switches still disagree; every "
       "program is rendered to a script (three functions with both header spellings and names with - and _, two sourced files, "
       "markers logging $0 $1 \"${2}\" $@ ${7}) and run by the real binary with arguments; oracle: marker order, the arguments "
       "each frame saw, process exit status. Fixed persistence scenarios (source defines function / variable / alias / cd, source "
       "chain of depth 3, missing arguments) and arguments with special characters complete it.",
  design_ref="DESIGN.md 3.10, 6 (C15)",
  note="Trusted: TLC, helper vmk; non-zero status is 3; $@ may arrive joined or split.",
  technique="TLA+ reference of script statuses vs implementation-shaped variant checked by TLC; every bounded program replayed on the binary"),
 "C12": dict(
  category="model_checking",
  text="spec/WordExpand.tla is the reference on character sequences: BraceExpand (leftmost group with a top-level comma, "
       "alternative-major product, empty alternatives, literal braces otherwise), NumRange (inclusive, toward n, step max(|s|,1)), "
       "Matches / GlobNames (`*` only, not across `/`, hidden names only for dot patterns). TLC enumerates every string over "
       "{a, b, {, }, ,} up to length 5 (thorough 7) with its reference expansion, ranges over negative / descending / stepped / "
       "degenerate bounds with surrounding text, and 9 patterns against every population of up to 3 (thorough 5) names incl. hidden "
       "files, names with blanks and subdirectories, checking theorems of the reference; each case is placed at varying argument "
       "positions next to quoted arguments and run by the real binary in a prepared directory; oracle: argv. Unbalanced brace "
       "strings are negatives (crash / hang freedom). A fixed tilde table is compared against $HOME.",
  design_ref="DESIGN.md 3.2, 6 (C12)",
  note="Trusted: TLC, helper vpa; glob results compared in byte order; ~user outside the statement.",
  technique="TLA+ reference of brace / range / glob expansion enumerated by TLC; every case replayed on the binary"),
 "C13": dict(
  category="model_checking",
  text="On the tagged characters of spec/ShellLex.tla an expansion replaces its reference by the produced text tagged `exp` and "
       "operators are recognised only on `bare` characters; TLC checks NoRescan on this reference composition and enumerates 17 "
       "payloads (each operator character alone and embedded, hidden commands and redirections) x delivery {$N, ${N}, $(..), "
       "backquotes, a `*` match on a file of that name} x {unquoted, double-quoted} x {first, middle, last argument}; every case "
       "runs on the real binary in a scratch directory; oracle: the program ran exactly once, in the foreground (its record is "
       "there when the shell exits), with the payload as argument text (one argument inside double quotes), no hidden command "
       "ran, no file was created.",
  design_ref="DESIGN.md 3.2, 6 (C13)",
  note="Trusted: TLC, helpers; unquoted produced text with blanks may arrive split.",
  technique="TLA+ tagged-character reference (NoRescan) checked by TLC; enumerated payload deliveries replayed on the binary"),
 "C09": dict(
  category="model_checking",
  text="spec/EnvDir.tla holds the implementation-shaped state (Shell.envs, the process environment, cwd, previous directory, $PWD) "
       "with the lookup orders as coded and, next to it, the reference table name -> [value, exported] and reference directory "
       "state; TLC checks that the coded lookups equal the reference after every history of up to 5 operations (573 k states) "
       "over assignment, prefixed command, export, unset, read and cd (absolute, relative, .., via a symlink, no argument, -, a "
       "file, a missing name, .). TLC simulation generates histories of 30 operations with the reference observation after each; "
       "every history is rendered to a script with an observation command after every operation and run by the real binary; "
       "oracle: what expansions show, what the child's environment holds, the child's working directory, $PWD, where a relative "
       "redirection lands, the prefixed command's own environment, cd's status.",
  design_ref="DESIGN.md 3.9, 6 (C09)",
  note="Trusted: TLC, helper vpa (logs selected environment and cwd); values in one quoting style; read is given a fixed line.",
  technique="TLA+ model of variable / directory state vs reference scoping checked by TLC; TLC-simulated histories replayed on the binary"),
 "C17": dict(
  category="model_checking",
  text="spec/Alias.tla: the alias table with define / redefine / unalias / list / show and use at five positions (line start, "
       "after |, after ;, after &&, non-first word) and which value the reference substitutes; TLC checks the reference theorems "
       "(unalias removes exactly one entry, a non-first word is never replaced) on every history of 4 operations (954 k states) and "
       "simulates histories of 20 operations over names from [A-Za-z0-9_.-]+ (two of them also real programs, which makes "
       "self-mention and mention of another alias observable) and 7 values (options, quotes of the other kind, a pipe, another "
       "alias name, key=value); each history is rendered to a script and run by the real binary; oracle: the helper records of "
       "every use; every listing and single show is fed to a fresh shell that must behave as the table says.",
  design_ref="DESIGN.md 3.11, 6 (C17)",
  note="Trusted: TLC, helpers; the meaning of the 7 values is tabulated in the driver.",
  technique="TLA+ alias table model; TLC-simulated histories replayed on the binary incl. listing round trip through a fresh shell"),
 "C18": dict(
  category="model_checking",
  text="spec/History.tla models the shared table as a sequence of rows with Add / Typed (skip rules: leading blank, repeat of the "
       "line recorded last) / List / Search / Delete over opaque texts, patterns and directory names; TLC checks append-only-"
       "except-delete, unique ids and order on every history of 5 operations and simulates histories of 14 operations. Each "
       "history is executed against real shell processes sharing one database (fresh `cicada -c` processes running history add / "
       "list / search / delete in directories named plain, d'q, d%p; typed lines through a pty session), an independent SQLite "
       "client records the rows after every operation, and TLC validates every recorded history against spec/TraceHistory.tla: "
       "each operation must transform the table as the model prescribes (exactly one appended row with the text unchanged, no "
       "change on list / search, exactly the named rows removed), listings of a fresh process must show every row in order, "
       "searches must succeed and contain every literal match. Every sequence of 4 typed lines over {line, line with a leading blank, another line} is run exhaustively (skip rules).",
  design_ref="DESIGN.md 3.11, 6 (C18)",
  note="Trusted: TLC, Python's sqlite3 as independent reader, the pty driver; HISTORY_DELETE_DUPS=0 (documented start-up "
       "de-duplication switched off); % and _ are wildcards in searches.",
  technique="TLA+ table model; recorded multi-process histories (row snapshots by an independent SQLite client) validated by TLC"),
 "C19": dict(
  category="model_checking",
  text="spec/Calc.tla is a recursive-descent reference with the precedence of the property (^ right-associative and tightest, then "
       "* /, then + -, parentheses) and integer evaluation with division truncating toward zero inside an exactness window of "
       "+-2^30 (TLC's integers are 32-bit). TLC checks precedence / associativity / truncation theorems and enumerates every "
       "expression of up to 2 (thorough 3) operators over {0,1,2,3,7} with an optional parenthesised sub-range; each is rendered "
       "with random spacing and redundant parentheses (plus float-mode variants) and evaluated in-process by the real "
       "run_calculator; a sample also through `cicada -c` and `$( )`. Every string up to length 4 (thorough 5) over the 14-symbol "
       "arithmetic alphabet and 43 boundary expressions (2^31, 2^63-1, exponents to 70 and beyond, division by zero, huge "
       "literals, malformed input) are run for classification facts and crash freedom: a value or a diagnostic, never a crash.",
  design_ref="DESIGN.md 3.11, 6 (C19)",
  note="Honest limit: outside the exactness window, for division by zero, negative exponents, huge literals and non-integral float "
       "results only crash freedom is decided; IEEE accuracy and exact wrap-around values are outside TLC's arithmetic. Harness "
       "and binary are built with overflow checks on.",
  technique="TLA+ reference parser / evaluator; TLC-enumerated expressions and strings replayed in-process and through the binary"),
 "C16": dict(
  category="model_checking",
  text="The five entry points are modelled as pre-processing pipelines in front of the reference reader (spec/Entry.tla); the "
       "script path's positional-parameter pass is modelled twice: 'rerender' (the pinned tokenize / re-render round trip, kept as "
       "a negative control that TLC must refute) and 'splice' (the repaired in-place substitution). TLC checks for every argument "
       "text up to length 2 (thorough 3) in every quoting style, position and operator context that each entry point reads the "
       "line as -c does (spec/MCEntry.tla), and for every positional reference x quote context x neighbour word with escapes x "
       "argument values that the pass yields exactly the directly written expectation (spec/MCEntryArgs.tla, 18 942 cases). "
       "Binding: the lines of the C01 / C03 / C04 / C10 / C11 / C12 generators (their TLC models) go through the real expand_args "
       "and the real tokenizer in-process (every line), and a stratified sample (quick 1 800, thorough 60 000 lines) runs through -c, a script "
       "file, a function body and a sourced file, plus a sample typed at a pseudo-terminal prompt; helper logs (argv, stdin), "
       "output, files and status are compared pairwise with the -c run. The MCEntryArgs cases run as scripts with arguments.",
  design_ref="DESIGN.md 3.11, 6 (C16)",
  note="Trusted: TLC, helper programs; at the prompt the output streams are the terminal and are not compared (argv, files, status "
       "are); lines with control characters, !! or a trailing backslash are not typed at the prompt; $$ is normalised.",
  technique="TLA+ model of the entry pipelines checked by TLC (incl. negative control); TLC-generated lines replayed through the five entry points of the binary and compared with -c"),
 "C05": dict(
  category="exploration",
  text="The submission / answer / sentinel protocol with the failure actions Crash, Hang, DeadProbe is a TLA+ specification "
       "(spec/Robust.tla; TLC checks NeverDead and Responsive under fairness). TLC enumerates every string up to length 4 "
       "(thorough 5; 6 for the tokenizer-level stages) over four 14-symbol alphabets (quoting / substitution, redirection / brace, multi-byte, "
       "arithmetic), classifies each with the reference reader (totality checked) and simulates strings up to length 12 "
       "(spec/MCRobust.tla). Every string goes through every pure stage of the real code in-process (line_to_cmds, parse_line, "
       "tokens_to_line, tokens_to_redirections, Command::from_tokens, CommandLine::from_line with all expansions, is_arithmetic / "
       "run_calculator, the script grammar, escaped_word_start, complete_path, trim_multiline_prompts, extend_bangbang), each stage "
       "under catch_unwind, each case under a watchdog; seeded grammar- and mutation-based lines up to 200 characters (multi-byte "
       "text included) run through -c / script + sentinel / stdin of the real binary; random key sequences (printable Unicode, TAB, "
       "Enter, Ctrl-C, arrows, editing keys) are typed at a pseudo-terminal prompt and followed by a sentinel command. The "
       "recorded answers are validated by TLC against the protocol (spec/TraceRobust.tla).",
  design_ref="DESIGN.md 6 (C05), 9",
  note="For this property the detection power is the harness's panic / abort / time-out capture; TLC is the enumerator and the "
       "referee of the recorded traces (stated in DESIGN.md 9). A time-out is re-run with a 10x budget; a shell blocked in wait4 on "
       "a program the input started is not a hang of the shell; strings that glob the whole file system from / skip the planner "
       "stage; ranges of more than 200 000 elements are not generated.",
  technique="TLA+ protocol spec + TLC enumeration of the input space; exhaustive in-process stage sweep, process / pty fuzz, recorded answers validated by TLC"),
 "C20": dict(
  category="model_checking",
  text="Candidates and the inserted text are specified in spec/Complete.tla in two models: 'pinned' (completers/path.rs as written: "
       "tools::escape_path unquoted, tools::wrap_sep_string inside quotes) and 'inverse' (the inverse of the reference reader). TLC "
       "checks RoundTrip - the completed line is read back as the entry's name with no character left subject to a later expansion - "
       "for the inverse escaping on every name up to length 2 (thorough 3) over a 22-symbol special-character alphabet x {unquoted, "
       "open ', open \"}, and lists per (name, context) whether the pinned escaping satisfies it (it does not: negative control). "
       "Every (name, context) is a replay case as a file, a directory, one of several candidates and after cd: a directory is "
       "populated, the real escaped_word_start + complete_path produce the candidates and the insertion, the harness splices it the "
       "way lineread 0.7.2 does and the real CommandLine::from_line plans the completed line (argv must be the entry's name, "
       "candidates the entries with the prefix). Every cluster of in-process mismatches and a sample of matches is typed into a live "
       "pseudo-terminal session (prefix, TAB, Enter); the argv the helper program received decides. escaped_word_start (which part of the line TAB replaces) is transcribed statement by statement (spec/WordStart.tla): every string over 6 symbols up to length 6 (thorough 7) must get the same word start from the real function, and TLC checks the transcription against the reference reader's word boundary up to two named deviations.",
  design_ref="DESIGN.md 6 (C20)",
  note="Only pty-level failures are violations. The pinned tree has genuine defects here (11 known findings in known_findings.json, "
       "most sharing their root cause with the C01 backslash findings or with the reader's handling of \\$ \\` \\\\ inside double quotes); "
       "the editor-splice emulation is trusted for selecting cases only and is cross-checked by the pty layer.",
  technique="TLA+ model of completion escaping vs the reference reader checked by TLC; TLC-enumerated names replayed through the real completer + planner in-process and typed at a pty"),
 "C06": dict(
  category="model_checking",
  text="TLC explores every interleaving of child status changes (with Linux's report coalescing), foreground-wait iterations, "
       "prompt-time polls and fg/bg builtins for several job configurations with non-monotonic pids (spec/JobControl.tla, one "
       "action per critical section of jobc.rs/shell.rs/signals.rs) and checks table = live processes, Stopped iff all live "
       "members stopped, smallest-free ids, the return point and status of the foreground wait, and no stuck parked event, all "
       "against kernel truth. TLC-generated behaviours are replayed on a real Shell through an injectable wait-status source; "
       "after every real call (insert_job, wait_fg_job, try_wait_bg_jobs, fg, bg) the real table is judged against kernel truth "
       "and compared with the model's table (spec drift is reported, currently 0). The wait's final non-blocking poll is an action of its own (FgPollEmpty); a wait that returns on a stale stop report while the member's Continued report is already queued is a violation (the model's 'nodrain' switch = the pinned code, refuted by ReturnedWhenDue, negative control).",
  design_ref="DESIGN.md 3.7, 6 (C06)",
  note="Trusted: TLC; the kernel model (measured against Linux); the cfg(cicada_verif) injection point in waitpidx/handle_sigchld; "
       "the harness mirrors run_pipeline's insert_job calls (the real launch path is C07's). Bounded: <= 3 jobs, <= 3 processes, "
       "<= 11 events.",
  technique="TLA+ model of job control checked by TLC; TLC-generated behaviours replayed in-process through a fake kernel, table compared with kernel truth after each call"),
 "C03": dict(
  category="model_checking",
  text="TLC exhaustively checks the token loop of run_command_line (spec/CmdList.tla, one action per loop iteration) against "
       "the left-to-right rule of the property for every program of up to 4 (thorough 6) pipelines x 3 operators x 2 status "
       "classes, plus liveness; every program is then replayed through the real binary (-c and script entry) with marker "
       "helpers and judged by which pipelines ran, the $? each saw and the exit status; the loop's hook events of every run are "
       "validated by TLC against the same specification (TraceCmdList.tla). line_to_cmds itself is transcribed statement by statement (spec/Splitter.tla): every string over an 11-symbol alphabet up to length 4 (thorough 5) must be split by the real code exactly as by the transcription, and TLC checks that on plain lines the transcription finds the reference reader's operators.",
  design_ref="DESIGN.md 3.4, 6 (C03)",
  note="Trusted: TLC, the vmk helper (logs atomically, exits with the programmed status), non-zero statuses drawn from {1,3,255}; "
       "bounded: exhaustive to 6 pipelines, TLC-simulated programs up to 12.",
  technique="TLA+ model of the list loop checked by TLC; TLC-generated programs replayed into the binary; hook traces validated by TLC"),
}

NOT_YET = {}
for i in range(1, 21):
    pid = "C%02d" % i
    if pid not in CHECKS:
        NOT_YET[pid] = "check not built yet in this revision of /verif (planned per DESIGN.md section 6); nothing is claimed for it"

m = {
 "version": 1,
 "setup_cmd": "cd /verif && python3 bin/setup.py",
 "hooks": {
  "guard": "cicada_verif",
  "enable": "RUSTFLAGS=\"--cfg cicada_verif\" (set by /verif/harness/.cargo/config.toml for the harness + hooked library and by drivers/common.py for the cicada binary)",
  "baseline_off_cmd": "cd /repo && cargo test --workspace --no-fail-fast --offline",
  "source_commits": HOOK_COMMITS,
  "add_only": True,
 },
 "engines": [
  {"name": "tlc", "path": "/opt/veriftools/tla/tla2tools.jar", "serves_properties": sorted(CHECKS), "kind_free_text": "TLC 1.8.0 explicit-state model checker (model checking, behaviour generation, trace validation) over /verif/spec/*.tla"},
  {"name": "vreplay/vh", "path": "/verif/harness", "serves_properties": sorted(CHECKS), "kind_free_text": "Rust harness: in-process replayer linked against the hooked cicada library, helper programs used as commands of generated lines"},
 ],
 "checks": [],
 "notes": "All checks: ./bin/check <ID> --tier quick|thorough; exit 0 held, 1 VIOLATION, 2 tool error. Known findings: /verif/known_findings.json. Design: /verif/DESIGN.md. Specification modules outside the listed properties (Prompt, Plan, Highlight, Multiline) are checked and bound by ./bin/extras [--tier quick|thorough] (exit 0 conforms, 1 DRIFT lines, 2 tool error); binding self-test: ./bin/selftest.py.",
 "not_applicable": [{"property_id": k, "reason": v} for k, v in sorted(NOT_YET.items())],
}
# families added in the later strengthening rounds (DESIGN.md 12.5)
HEADS = (" A sample of the judged lines is replayed as the head of `if` / `else if` / `while` in a script (drivers/structure.py) and must have "
         "the same effect as the plain line, the body running exactly when the plain line's status is 0.")
EXTRA = {
 "C01": HEADS + " An alias name after a quoted operator character stays an argument.", "C03": HEADS + " List members that start no program (assignment-only, rejected command) and pipelines that cannot start a stage (descriptor limit) have the status the operators act on.", "C13": HEADS + " Produced text also stands behind a literal prefix (`k=$V`, `--o=$V`), is the value of an assignment word, an alternative of a typed brace list, the output of a nested substitution or of a reference inside an embedded substitution; payloads include text that looks like another expansion ($(cmd), backquotes, brace lists, ranges): spec/Passes.tla (passes over the same tokens; rescan = negative control).",
 "C04": HEADS + " The redirected command also is the middle stage and the third / fourth stage of its pipeline.",
 "C10": HEADS + " TLC-simulated histories of assignment / export / unset / read / prefixed commands (spec/EnvDir.tla) with every name expanded "
        "after every operation decide 'the current value'.",
 "C11": HEADS + " Builtins as inner commands are judged against their own stand-alone output.",
 "C12": HEADS + " Words are also placed in `for` word lists; a brace group and `*` in one word (the group first, each produced word a pattern "
        "of its own), ranges whose bounds are next to the 32-bit limits, quoted braces in assignment values, patterns under a value with , { } and a HOME that changes during the session are covered.",
 "C02": " Stages that are stopped and continued from outside while the pipeline runs have not terminated (controller-stage scenarios, run as scheduled and with the shell held at a cfg(cicada_verif) schedule point right after it has read the stop report, so that the exits of the other stages and the Continued report are pending together); a pipeline that cannot start a stage under a descriptor limit still terminates; a foreground pipeline ended by Ctrl-C reports 130 with the shell polling and with its SIGCHLD handler enabled.",
 "C05": " Seed lines hold numeric bounds next to the machine limits and unterminated references.",
 "C07": " spec/Launch.tla also models who hands the terminal over (only the shell = pinned: negative control) and the shell taking it back; "
        "foreground jobs that read the terminal at once are run under widened fork windows; directed sessions cover an older job ending while "
        "a younger one lives.",
 "C09": " `read` is modelled for 1..3 names and 0..4 fields, and two assignment / prefix / export words on one line.",
 "C14": " Conditions are also lists whose deciding (last executed) command is the programmed one.",
 "C15": " Positional parameters in `for` word lists (script, function, sourced file) and the status of functions / sourced files ending in an "
        "untaken `if` or a finished `while` are directed scenarios.",
 "C16": " Two further entries place the line between other, indented lines of a script / function body; edge lines (escaped blank / backslash at the end, a single `!`, a first word that only begins with a keyword) are always replayed, prompt lines are typed after a first line.",
 "C17": " Every value is shown by name, listed and used under three kinds of name; aliases are used as the whole command (also names of digits "
        "and dots) at every position.",
 "C18": " One history stores every text and searches every pattern (also patterns with leading / trailing backslashes). Apalache discharges an inductive invariant of the table core for arbitrary integer ids (spec/apalache/HistoryInd.tla).",
 "C19": " Float powers of a negative base with whole exponents beyond 2^31 are checked for the parity of the exponent; integer lines with literals beyond 2^53 must give the exact integer.",
 "C20": " A file inside a completed directory (two completions on one word) is part of the pty layer.",
}
for pid, extra in EXTRA.items():
    CHECKS[pid]["text"] += extra
for pid in sorted(CHECKS):
    c = CHECKS[pid]
    m["checks"].append({
     "property_id": pid,
     "quick_cmd": "./bin/check %s --tier quick" % pid,
     "thorough_cmd": "./bin/check %s --tier thorough" % pid,
     "evidence_file": "/verif/evidence/%s.json" % pid,
     "replay_cmd_template": "./bin/check %s --replay {path}" % pid,
     "engine": "tlc",
     "level_claimed": {"category": c["category"], "text": c["text"], "design_ref": c["design_ref"]},
     "level_note": c["note"],
     "technique": c["technique"],
    })
with open(os.path.join(V, "MANIFEST.json"), "w") as f:
    json.dump(m, f, indent=1)
print("MANIFEST.json: %d checks, %d not_applicable" % (len(m["checks"]), len(m["not_applicable"])))
