#!/usr/bin/env python3
"""Prints the prompt given to a fresh sub-agent that seeds a property-breaking change (nothing from /verif is shown to it)."""
import json, sys
pid = sys.argv[1]; variant = sys.argv[2] if len(sys.argv) > 2 else ""
props = {json.loads(l)["id"]: json.loads(l) for l in open("/verif/properties.jsonl")}
p = props[pid]
wt = "/tmp/wt-%s%s" % (pid, variant)
print(f"""You are helping test a verification framework by seeding a realistic regression into a Rust project.

The project is mitnk/cicada, a bash-like Unix shell written in Rust. A scratch git worktree of it is at {wt} (work ONLY there; never touch /repo; the directory /verif is strictly off limits - do not list, read, grep or otherwise look at anything under /verif, under /root/.claude, /root/.vp, or under other /tmp/wt-* and /tmp/mx* directories: the exercise is only meaningful if you know nothing about how the property is checked; the sandbox has no network: always pass --offline to cargo, and use CARGO_TARGET_DIR={wt}/target).

Here is a semantic property the shell is supposed to satisfy:

  Title: {p['title']}
  Statement: {p['statement']}
  Quantified over: {p['quantifier']['text']}

Your task: make ONE small, realistic source change in {wt}/src (the kind of slip a maintainer could make in a refactoring or a "harmless" cleanup - not sabotage, no dead code, no special-casing of magic strings) that BREAKS this property, while
  (1) the project still compiles: cd {wt} && CARGO_TARGET_DIR={wt}/target cargo build --offline
  (2) the existing test suite still passes: cd {wt} && CARGO_TARGET_DIR={wt}/target cargo test --workspace --no-fail-fast --offline   (the test `test_run_itself` is known to be flaky; ignore it)
  (3) the breakage needs something SPECIFIC to manifest - a particular interleaving or order of child events, a fault at a particular point, a multi-step sequence of operations, an unusual input, or two cooperating code sites that each look fine alone - NOT something any ordinary use would expose at once (e.g. do not break every `a | b` or every quoted argument).
Do not touch code guarded by #[cfg(cicada_verif)] or src/verif_hooks.rs, and do not edit tests.
{("Variant hint: " + sys.argv[3]) if len(sys.argv) > 3 else ""}
Then write a demonstration: a shell script {wt}/demo.sh that takes the path of a built cicada binary as $1, exercises the specific situation, and exits 0 when the property holds and non-zero when it is violated. It must FAIL (non-zero) with your change and PASS (zero) on the unchanged code. Verify both yourself: build the changed tree, run demo.sh against {wt}/target/debug/cicada; then `git stash` your change, rebuild, run demo.sh again (must pass), then `git stash pop`. (For interactive/job-control situations you may drive the shell through a pseudo-terminal with python3's pty module from demo.sh; keep it deterministic, with generous waits based on polling, not fixed sleeps where possible.)

Finally write:
  {wt}/patch.diff      (output of `git diff` for your source change only, not demo.sh)
  {wt}/meta.json       {{"property": "{pid}", "summary": "<what the change does>", "needs": "<what specific situation is needed for it to manifest>", "files": [...], "demo": "demo.sh", "verified": {{"compiles": true/false, "tests_pass": true/false, "demo_fails_with_change": true/false, "demo_passes_without": true/false}}}}
Leave the change applied in the worktree. When done, remove the build output to save disk: rm -rf {wt}/target. Reply with a 5-line summary (what you changed, what it needs to manifest, verification results).""")
