----------------------------- MODULE MCComplete -----------------------------
(* C20: every entry name up to MaxLen over the special-character alphabet x the three quote
   contexts.  Mode "inverse" must satisfy RoundTrip for every name; mode "pinned" is the
   completer as written - TLC lists the (name, context) pairs it gets wrong through the
   invariant PinnedOK, which is expected to fail; the emitted cases carry the model's verdict
   so the driver can compare it with what the real completer + reader do.               *)
EXTENDS Complete, Json
CONSTANTS MaxLen, Mode, Alphabet
NameAlphabet == {"a", " ", "'", "\"", "$", "*", "{", "}", ",", "~", "#", "|", "&", ";", "\\", "(", "U", "`", "!", ">", "=", "?"}
\* for the length-3 enumeration of the thorough tier: the characters whose handling is not already a recorded finding
\* (known_findings.json: $ * ~ | \ ` > } fail in at least one context for names of length <= 2)
ReducedAlphabet == {"a", " ", "'", "\"", "#", "&", ";", "(", "!", "=", "?", ",", "{", "U"}
Ctxs == {"unq", "sq", "dq"}
VARIABLES name, ctx, done
vars == <<name, ctx, done>>
Init == name = <<>> /\ ctx \in Ctxs /\ done = FALSE
Add(c) == ~done /\ Len(name) < MaxLen /\ name' = Append(name, c) /\ UNCHANGED <<ctx, done>>
Finish == ~done /\ Len(name) > 0 /\ done' = TRUE /\ UNCHANGED <<name, ctx>>
Next == (\E c \in Alphabet : Add(c)) \/ Finish
Spec == Init /\ [][Next]_vars
Str(s) == FoldLeft(LAMBDA a, c : a \o c, "", s)
InverseOK == done => RoundTrip(name, ctx, "inverse")
PinnedOK  == done => RoundTrip(name, ctx, "pinned")
Case == [name |-> Str(name), ctx |-> ctx, pinned_ok |-> RoundTrip(name, ctx, "pinned"),
         pinned_insert |-> Str(Insert(name, ctx, "pinned")), inverse_insert |-> Str(Insert(name, ctx, "inverse"))]
Emit == done => PrintT(<<"REPLAY", ToJson(Case)>>)
=============================================================================
