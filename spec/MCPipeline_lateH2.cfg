SPECIFICATION Spec
CONSTANTS
  N = 2
  Kinds <- K2h
  Units = 2
  Cap = 1
  DropParentCloseW = FALSE
  FailAt = 2
  LateFail = "clean"
  HereAt = 2
  HereUnits = 2
  SigpipeMode = "ignored"
  CapRedirect = FALSE
  CapCloseMode = "always"
  CapReadMode = "concurrent"
  Capture = FALSE
INVARIANT ShellAlive
INVARIANT ExecFds
INVARIANT ShellFdsRestored
INVARIANT NoForeignEnds
INVARIANT Delivery
INVARIANT FaultClean
PROPERTY Termination
CHECK_DEADLOCK FALSE
