SPECIFICATION Spec
CONSTANTS Texts = {} TypedTexts = {"vpa k", " vpa lead", "vpa U"} Pats = {} Dirs = {} WalkLen = 4 MaxRows = 6
INVARIANT UniqueIds
INVARIANT OrderKept
INVARIANT Emit
CHECK_DEADLOCK FALSE
