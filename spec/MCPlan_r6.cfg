SPECIFICATION Spec
CONSTANT MaxLen = 6
CONSTANT Alphabet <- AlphaRedir
INVARIANT Emit
INVARIANT T1
INVARIANT T2
INVARIANT T3
CHECK_DEADLOCK FALSE
