------------------------------ MODULE Pipeline ------------------------------
(* run_pipeline / run_single_program (core.rs) as a program over a small kernel model
   (properties C02 and C08, design level): descriptor tables per process, pipes with a bounded
   buffer (writers block), EOF when no write end is open anywhere, SIGPIPE when no read end is.
   Shell side, one action per statement group: MkPipe (n-1 times, with the EMFILE branch that
   closes what was created), MkCapture, per stage Fork, PCloseW, PCloseR, ReadCapture, then Wait.
   Child side in the order of the code: CLeft, CRight, CCapture, CDupIn(2), CDupOut, CExec.
   After exec a stage runs a small program (producer / filter / consumer / early exit), one
   read / write / exit per step, so TLC explores every finishing order and every amount of
   data in flight.                                                                 *)
EXTENDS Naturals, Sequences, FiniteSets, TLC

CONSTANTS N,          \* number of stages
          Kinds,      \* sequence of stage kinds: "prod", "filt", "cons", "early"
          Units,      \* units a producer writes
          Cap,        \* pipe capacity
          DropParentCloseW,  \* mutant switch: parent forgets to close write end
          FailAt,            \* 0 = no fault; k = the k-th pipe() of run_pipeline fails with EMFILE (the N-1 pipes of the pipeline,
                             \* then the two capture pipes, then the here-string pipe)
          LateFail,          \* what happens when a pipe made AFTER the pipeline's own pipes fails: "leak" = core.rs as pinned
                             \* (returns with the pipeline's pipes open), "clean" = repaired (everything is closed, nothing more starts)
          Capture,           \* TRUE = output of the last stage is captured (command substitution)
          HereAt,            \* 0 = no here-string; i = stage i reads a here-string (`cmd <<< word`)
          HereUnits,         \* units the shell writes into the here-string pipe
          SigpipeMode,       \* "default" = the shell writes with SIGPIPE at its default disposition (core.rs as pinned); "ignored"
          CapRedirect,       \* TRUE = the captured (last) stage redirects its stdout to a file itself (`$(cmd > f)`)
          CapCloseMode,      \* "onlyDup" = core.rs as pinned: a capture pipe is closed only where it is also dup2()ed; "always"
          CapReadMode        \* "sequential" = core.rs as pinned: stdout to EOF, then stderr; "concurrent" = both drained together

Shell == 0
Stages == 1..N
Procs == {Shell} \cup Stages
Pipes == 1..(N-1)
CapO == N
CapE == N + 1
HerePipe == N + 2
AllPipes == (IF Capture THEN 1..(N+1) ELSE Pipes) \cup (IF HereAt > 0 THEN {HerePipe} ELSE {})
ToFork(i) == IF i = HereAt THEN <<"mkhere", i>> ELSE <<"fork", i>>
TTY == <<"tty", 0>>
R(k) == <<"r", k>>
W(k) == <<"w", k>>

VARIABLES fdt,     \* proc -> (fd -> ofd)   (function with finite domain)
          alive,   \* proc -> "unborn" | "run" | "zombie" | "reaped"
          spc,     \* shell pc: <<phase, index>>
          cpc,     \* stage -> child pc
          buf,     \* pipe -> units in flight
          left,    \* stage -> units still to write (producers)
          got,     \* stage -> units read
          status,  \* stage -> exit status ("ok", "pipe" for SIGPIPE)
          nextfd,  \* unused
          reaped   \* number reaped by shell

vars == <<fdt, alive, spc, cpc, buf, left, got, status, nextfd, reaped>>

Dom(f) == DOMAIN f
LowestFree(f) == CHOOSE n \in 0..20 : n \notin Dom(f) /\ \A m \in 0..(n-1) : m \in Dom(f)
Without(f, d) == [x \in Dom(f) \ {d} |-> f[x]]
With(f, d, v) == [x \in Dom(f) \cup {d} |-> IF x = d THEN v ELSE f[x]]
FdOf(f, o) == CHOOSE d \in Dom(f) : f[d] = o
Has(f, o) == \E d \in Dom(f) : f[d] = o

DropOfd(f, o) == [d \in {x \in Dom(f) : f[x] # o} |-> f[d]]
Std == [x \in {0, 1, 2} |-> TTY]

Init ==
  /\ fdt = [p \in Procs |-> IF p = Shell THEN Std ELSE [x \in {} |-> TTY]]
  /\ alive = [p \in Procs |-> IF p = Shell THEN "run" ELSE "unborn"]
  /\ spc = IF N > 1 THEN <<"mkpipe", 1>> ELSE IF Capture THEN <<"mkcap", 0>> ELSE ToFork(1)
  /\ cpc = [i \in Stages |-> "none"]
  /\ buf = [k \in AllPipes |-> 0]
  /\ left = [i \in Stages |-> IF Kinds[i] \in {"prod", "eprod"} THEN Units ELSE 0]
  /\ got = [i \in Stages |-> 0]
  /\ status = [i \in Stages |-> "none"]
  /\ nextfd = 0
  /\ reaped = 0

\* ---------------- shell ----------------
MkPipe ==
  /\ spc[1] = "mkpipe"
  /\ IF FailAt = spc[2]
     THEN \* pipe() fails: release what was created, return an error
          /\ fdt' = [fdt EXCEPT ![Shell] = [d \in {x \in Dom(@) : x <= 2} |-> @[d]]]
          /\ spc' = <<"failed", 0>>
     ELSE /\ LET k == spc[2]
                 r == LowestFree(fdt[Shell])
                 f1 == With(fdt[Shell], r, R(k))
                 w == LowestFree(f1)
             IN fdt' = [fdt EXCEPT ![Shell] = With(f1, w, W(k))]
          /\ spc' = IF spc[2] < N - 1 THEN <<"mkpipe", spc[2] + 1>> ELSE IF Capture THEN <<"mkcap", 0>> ELSE ToFork(1)
  /\ UNCHANGED <<alive, cpc, buf, left, got, status, nextfd, reaped>>

CapCall == N                                      \* number of the first capture pipe() call
HereCall == N + (IF Capture THEN 2 ELSE 0)       \* number of the here-string pipe() call
CloseAllPipes(f) == [d \in {x \in Dom(f) : x <= 2} |-> f[d]]
MkCapture ==
  /\ spc[1] = "mkcap"
  /\ IF FailAt \in {CapCall, CapCall + 1}
     THEN \* a capture pipe cannot be made (a first one is closed again by the code in both versions)
          /\ fdt' = IF LateFail = "clean" THEN [fdt EXCEPT ![Shell] = CloseAllPipes(@)] ELSE fdt
          /\ spc' = <<"failed", 0>>
     ELSE /\ LET r1 == LowestFree(fdt[Shell])
                 f1 == With(fdt[Shell], r1, R(CapO))
                 w1 == LowestFree(f1)
                 f2 == With(f1, w1, W(CapO))
                 r2 == LowestFree(f2)
                 f3 == With(f2, r2, R(CapE))
                 w2 == LowestFree(f3)
             IN fdt' = [fdt EXCEPT ![Shell] = With(f3, w2, W(CapE))]
          /\ spc' = ToFork(1)
  /\ UNCHANGED <<alive, cpc, buf, left, got, status, nextfd, reaped>>

Fork ==
  /\ spc[1] = "fork"
  /\ LET i == spc[2] IN
     /\ fdt' = [fdt EXCEPT ![i] = fdt[Shell]]
     /\ alive' = [alive EXCEPT ![i] = "run"]
     /\ cpc' = [cpc EXCEPT ![i] = "left"]
  /\ spc' = IF spc[2] = HereAt THEN <<"hereclose", spc[2]>> ELSE <<"pclosew", spc[2]>>
  /\ UNCHANGED <<buf, left, got, status, nextfd, reaped>>

\* here-string (`cmd <<< word`): a pipe made right before the stage is forked; after the fork the shell closes the read end,
\* writes the text into the pipe (blocking when it is full) and closes the write end; the child makes the read end its stdin
MkHere ==
  /\ spc[1] = "mkhere"
  /\ IF FailAt = HereCall
     THEN \* the stage cannot be started. Pinned: run_single_program returns with every pipe still open in the shell (modelled as
          \* the end of the launch). Repaired: what is left of the pipes is closed, nothing more is started, and the shell waits
          \* for the stages that already run (they see the end of their input / a closed reader)
          IF LateFail = "clean"
          THEN /\ fdt' = [fdt EXCEPT ![Shell] = CloseAllPipes(@)]
               /\ spc' = IF \A i \in Stages : alive[i] \in {"unborn", "reaped"} THEN <<"failed", 0>> ELSE <<"wait", 0>>
          ELSE fdt' = fdt /\ spc' = <<"failed", 0>>
     ELSE /\ LET r == LowestFree(fdt[Shell])
                 f1 == With(fdt[Shell], r, R(HerePipe))
                 w == LowestFree(f1)
             IN fdt' = [fdt EXCEPT ![Shell] = With(f1, w, W(HerePipe))]
          /\ spc' = <<"fork", spc[2]>>
  /\ UNCHANGED <<alive, cpc, buf, left, got, status, nextfd, reaped>>
HereClose ==
  /\ spc[1] = "hereclose"
  /\ fdt' = [fdt EXCEPT ![Shell] = DropOfd(fdt[Shell], R(HerePipe))]
  /\ spc' = IF HereUnits > 0 THEN <<"herewrite", HereUnits>> ELSE <<"hereend", 0>>
  /\ UNCHANGED <<alive, cpc, buf, left, got, status, nextfd, reaped>>
HereWrite ==
  /\ spc[1] = "herewrite"
  /\ IF ~(\E p \in Procs : alive[p] = "run" /\ Has(fdt[p], R(HerePipe)))
     THEN \* nobody can read any more: EPIPE - with the default disposition the signal kills the shell
          /\ spc' = IF SigpipeMode = "default" THEN <<"dead", 0>> ELSE <<"hereend", 0>>
          /\ UNCHANGED buf
     ELSE /\ buf[HerePipe] < Cap
          /\ buf' = [buf EXCEPT ![HerePipe] = @ + 1]
          /\ spc' = IF spc[2] > 1 THEN <<"herewrite", spc[2] - 1>> ELSE <<"hereend", 0>>
  /\ UNCHANGED <<fdt, alive, cpc, left, got, status, nextfd, reaped>>
HereEnd ==
  /\ spc[1] = "hereend"
  /\ fdt' = [fdt EXCEPT ![Shell] = DropOfd(fdt[Shell], W(HerePipe))]
  /\ spc' = <<"pclosew", HereAt>>
  /\ UNCHANGED <<alive, cpc, buf, left, got, status, nextfd, reaped>>

PCloseW ==
  /\ spc[1] = "pclosew"
  /\ LET i == spc[2] IN
     fdt' = IF i < N /\ ~DropParentCloseW /\ Has(fdt[Shell], W(i))
            THEN [fdt EXCEPT ![Shell] = Without(@, FdOf(@, W(i)))] ELSE fdt
  /\ spc' = <<"pcloser", spc[2]>>
  /\ UNCHANGED <<alive, cpc, buf, left, got, status, nextfd, reaped>>

PCloseR ==
  /\ spc[1] = "pcloser"
  /\ LET i == spc[2] IN
     fdt' = IF i > 1 /\ Has(fdt[Shell], R(i - 1))
            THEN [fdt EXCEPT ![Shell] = Without(@, FdOf(@, R(i - 1)))] ELSE fdt
  /\ spc' = IF spc[2] < N THEN ToFork(spc[2] + 1) ELSE IF Capture THEN <<"capclose", 0>> ELSE <<"wait", 0>>
  /\ UNCHANGED <<alive, cpc, buf, left, got, status, nextfd, reaped>>

\* parent, capture: close both write ends, read stdout to EOF, then stderr to EOF (File drops close the read ends)
CapClose ==
  /\ spc[1] = "capclose"
  /\ fdt' = [fdt EXCEPT ![Shell] = [d \in {x \in Dom(@) : @[x] # W(CapO) /\ @[x] # W(CapE)} |-> @[d]]]
  /\ spc' = <<"capread", CapO>>
  /\ UNCHANGED <<alive, cpc, buf, left, got, status, nextfd, reaped>>
CapDrain(k) == /\ Has(fdt[Shell], R(k)) /\ buf[k] > 0
               /\ buf' = [buf EXCEPT ![k] = @ - 1] /\ UNCHANGED <<fdt, spc>>
CapEof(k)   == /\ Has(fdt[Shell], R(k)) /\ buf[k] = 0
               /\ ~(\E p \in Procs : alive[p] = "run" /\ Has(fdt[p], W(k)))
               /\ fdt' = [fdt EXCEPT ![Shell] = DropOfd(fdt[Shell], R(k))]
               /\ UNCHANGED <<buf, spc>>
CapBothClosed == /\ ~Has(fdt[Shell], R(CapO)) /\ ~Has(fdt[Shell], R(CapE))
                 /\ spc' = <<"wait", 0>> /\ UNCHANGED <<buf, fdt>>
CapRead ==
  /\ spc[1] = "capread"
  /\ IF CapReadMode = "sequential"
     THEN LET k == spc[2] IN
          IF buf[k] > 0
          THEN buf' = [buf EXCEPT ![k] = @ - 1] /\ UNCHANGED <<fdt, spc>>
          ELSE /\ ~\E p \in Procs : alive[p] = "run" /\ Has(fdt[p], W(k))      \* EOF, else blocked
               /\ fdt' = [fdt EXCEPT ![Shell] = [d \in {x \in Dom(@) : @[x] # R(k)} |-> @[d]]]
               /\ spc' = IF k = CapO THEN <<"capread", CapE>> ELSE <<"wait", 0>>
               /\ UNCHANGED buf
     ELSE \* concurrent: a unit is taken from whichever capture pipe has one; an end is closed at its EOF
          CapDrain(CapO) \/ CapDrain(CapE) \/ CapEof(CapO) \/ CapEof(CapE) \/ CapBothClosed
  /\ UNCHANGED <<alive, cpc, left, got, status, nextfd, reaped>>

Wait(i) ==
  /\ spc[1] = "wait" /\ alive[i] = "zombie"
  /\ alive' = [alive EXCEPT ![i] = "reaped"]
  /\ reaped' = reaped + 1
  /\ spc' = IF \A j \in Stages \ {i} : alive[j] \in {"unborn", "reaped"} THEN <<"done", 0>> ELSE spc     \* every started stage is reaped
  /\ UNCHANGED <<fdt, cpc, buf, left, got, status, nextfd>>

\* ---------------- child set-up (as in run_single_program) ----------------
RECURSIVE CloseAll(_, _)
CloseAll(f, os) == IF os = {} THEN f
                   ELSE LET o == CHOOSE x \in os : TRUE IN
                        CloseAll(IF Has(f, o) THEN Without(f, FdOf(f, o)) ELSE f, os \ {o})

CLeft(i) ==   \* close pipes 1..i-2 (both ends)
  /\ cpc[i] = "left"
  /\ fdt' = [fdt EXCEPT ![i] = CloseAll(@, {R(k) : k \in {x \in Pipes : x < i - 1}} \cup {W(k) : k \in {x \in Pipes : x < i - 1}})]
  /\ cpc' = [cpc EXCEPT ![i] = "right"]
  /\ UNCHANGED <<alive, spc, buf, left, got, status, nextfd, reaped>>

CRight(i) ==  \* close pipes i+1.. (both ends)
  /\ cpc[i] = "right"
  /\ fdt' = [fdt EXCEPT ![i] = CloseAll(@, {R(k) : k \in {x \in Pipes : x > i}} \cup {W(k) : k \in {x \in Pipes : x > i}})]
  /\ cpc' = [cpc EXCEPT ![i] = IF Capture THEN "ccap" ELSE "dupin"]
  /\ UNCHANGED <<alive, spc, buf, left, got, status, nextfd, reaped>>

CCapture(i) ==   \* stages before the last close the capture pipes
  /\ cpc[i] = "ccap"
  /\ fdt' = IF i < N THEN [fdt EXCEPT ![i] = CloseAll(@, {R(CapO), W(CapO), R(CapE), W(CapE)})] ELSE fdt
  /\ cpc' = [cpc EXCEPT ![i] = "dupin"]
  /\ UNCHANGED <<alive, spc, buf, left, got, status, nextfd, reaped>>

CDupIn(i) ==
  /\ cpc[i] = "dupin"
  /\ fdt' = IF i > 1
            THEN [fdt EXCEPT ![i] = CloseAll(With(@, 0, R(i - 1)), {})  ]
            ELSE fdt
  /\ cpc' = [cpc EXCEPT ![i] = "dupin2"]
  /\ UNCHANGED <<alive, spc, buf, left, got, status, nextfd, reaped>>

\* after dup2(r,0): close(r); close(w) of pipe i-1  -- remove every fd >2 that refers to pipe i-1
CDupIn2(i) ==
  /\ cpc[i] = "dupin2"
  /\ fdt' = IF i > 1
            THEN [fdt EXCEPT ![i] = [d \in {x \in Dom(@) : x <= 2 \/ (@[x] # R(i - 1) /\ @[x] # W(i - 1))} |-> @[d]]]
            ELSE fdt
  /\ cpc' = [cpc EXCEPT ![i] = "dupout"]
  /\ UNCHANGED <<alive, spc, buf, left, got, status, nextfd, reaped>>

CDupOut(i) ==
  /\ cpc[i] = "dupout"
  /\ fdt' = IF i < N
            THEN [fdt EXCEPT ![i] = LET f1 == With(@, 1, W(i)) IN
                                    [d \in {x \in Dom(f1) : x <= 2 \/ (f1[x] # R(i) /\ f1[x] # W(i))} |-> f1[d]]]
            ELSE fdt
  /\ cpc' = [cpc EXCEPT ![i] = IF i = HereAt THEN "here" ELSE IF Capture /\ i = N THEN "capdup" ELSE "exec"]
  /\ UNCHANGED <<alive, spc, buf, left, got, status, nextfd, reaped>>

CHere(i) ==   \* the stage with the here-string: close the write end, the read end becomes stdin
  /\ cpc[i] = "here"
  /\ fdt' = [fdt EXCEPT ![i] = LET f1 == With(@, 0, R(HerePipe)) IN
                               [d \in {x \in Dom(f1) : x <= 2 \/ (f1[x] # R(HerePipe) /\ f1[x] # W(HerePipe))} |-> f1[d]]]
  /\ cpc' = [cpc EXCEPT ![i] = IF Capture /\ i = N THEN "capdup" ELSE "exec"]
  /\ UNCHANGED <<alive, spc, buf, left, got, status, nextfd, reaped>>

CCapDup(i) ==   \* last stage: stdout / stderr become the capture pipes' write ends (a stream the stage redirects itself is left alone)
  /\ cpc[i] = "capdup"
  /\ fdt' = [fdt EXCEPT ![i] =
              LET fout == IF CapRedirect THEN With(@, 1, <<"file", 0>>) ELSE With(@, 1, W(CapO))
                  f1 == With(fout, 2, W(CapE))
                  drop == IF CapRedirect /\ CapCloseMode = "onlyDup" THEN {R(CapE), W(CapE)} ELSE {R(CapO), W(CapO), R(CapE), W(CapE)}
              IN [d \in {x \in Dom(f1) : x <= 2 \/ f1[x] \notin drop} |-> f1[d]]]
  /\ cpc' = [cpc EXCEPT ![i] = "exec"]
  /\ UNCHANGED <<alive, spc, buf, left, got, status, nextfd, reaped>>

CExec(i) ==
  /\ cpc[i] = "exec"
  /\ cpc' = [cpc EXCEPT ![i] = "prog"]
  /\ UNCHANGED <<fdt, alive, spc, buf, left, got, status, nextfd, reaped>>

\* ---------------- stage programs ----------------
AnyHas(o) == \E p \in Procs : alive[p] = "run" /\ Has(fdt[p], o)
InPipe(i) == fdt[i][0][2]
OutPipe(i) == fdt[i][1][2]
StdinIsPipe(i) == 0 \in Dom(fdt[i]) /\ fdt[i][0][1] = "r"
StdoutIsPipe(i) == 1 \in Dom(fdt[i]) /\ fdt[i][1][1] = "w"

Die(i, st) ==
  /\ alive' = [alive EXCEPT ![i] = "zombie"]
  /\ fdt' = [fdt EXCEPT ![i] = [x \in {} |-> TTY]]
  /\ status' = [status EXCEPT ![i] = st]
  /\ cpc' = [cpc EXCEPT ![i] = "dead"]

ProdWrite(i) ==
  /\ cpc[i] = "prog" /\ Kinds[i] = "prod" /\ left[i] > 0
  /\ IF StdoutIsPipe(i)
     THEN LET k == OutPipe(i) IN
          IF ~\E p \in Procs : alive[p] = "run" /\ Has(fdt[p], R(k))
          THEN Die(i, "pipe") /\ UNCHANGED <<buf, left>>
          ELSE /\ buf[k] < Cap
               /\ buf' = [buf EXCEPT ![k] = @ + 1]
               /\ left' = [left EXCEPT ![i] = @ - 1]
               /\ UNCHANGED <<alive, fdt, status, cpc>>
     ELSE left' = [left EXCEPT ![i] = @ - 1] /\ UNCHANGED <<buf, alive, fdt, status, cpc>>
  /\ UNCHANGED <<spc, got, nextfd, reaped>>

ProdExit(i) ==
  /\ cpc[i] = "prog" /\ Kinds[i] = "prod" /\ left[i] = 0
  /\ Die(i, "ok")
  /\ UNCHANGED <<spc, buf, left, got, nextfd, reaped>>

\* filter: read one unit then write it (holding at most one unit: left[i] = pending)
FiltRead(i) ==
  /\ cpc[i] = "prog" /\ Kinds[i] \in {"filt", "cons"} /\ left[i] = 0
  /\ IF StdinIsPipe(i)
     THEN LET k == InPipe(i) IN
          IF buf[k] > 0
          THEN /\ buf' = [buf EXCEPT ![k] = @ - 1]
               /\ got' = [got EXCEPT ![i] = @ + 1]
               /\ left' = [left EXCEPT ![i] = IF Kinds[i] = "filt" THEN 1 ELSE 0]
               /\ UNCHANGED <<alive, fdt, status, cpc>>
          ELSE /\ ~\E p \in Procs : alive[p] = "run" /\ Has(fdt[p], W(k))   \* EOF, else blocked
               /\ Die(i, "ok") /\ UNCHANGED <<buf, got, left>>
     ELSE Die(i, "ok") /\ UNCHANGED <<buf, got, left>>     \* tty stdin: treat as immediate EOF
  /\ UNCHANGED <<spc, nextfd, reaped>>

FiltWrite(i) ==
  /\ cpc[i] = "prog" /\ Kinds[i] = "filt" /\ left[i] = 1
  /\ IF StdoutIsPipe(i)
     THEN LET k == OutPipe(i) IN
          IF ~\E p \in Procs : alive[p] = "run" /\ Has(fdt[p], R(k))
          THEN Die(i, "pipe") /\ UNCHANGED <<buf, left>>
          ELSE /\ buf[k] < Cap
               /\ buf' = [buf EXCEPT ![k] = @ + 1]
               /\ left' = [left EXCEPT ![i] = 0]
               /\ UNCHANGED <<alive, fdt, status, cpc>>
     ELSE left' = [left EXCEPT ![i] = 0] /\ UNCHANGED <<buf, alive, fdt, status, cpc>>
  /\ UNCHANGED <<spc, got, nextfd, reaped>>

\* a program that writes its units to standard error (diagnostics) instead of standard output
StderrIsPipe(i) == 2 \in Dom(fdt[i]) /\ fdt[i][2][1] = "w"
EProdWrite(i) ==
  /\ cpc[i] = "prog" /\ Kinds[i] = "eprod" /\ left[i] > 0
  /\ IF StderrIsPipe(i)
     THEN LET k == fdt[i][2][2] IN
          IF ~\E p \in Procs : alive[p] = "run" /\ Has(fdt[p], R(k))
          THEN Die(i, "pipe") /\ UNCHANGED <<buf, left>>
          ELSE /\ buf[k] < Cap
               /\ buf' = [buf EXCEPT ![k] = @ + 1]
               /\ left' = [left EXCEPT ![i] = @ - 1]
               /\ UNCHANGED <<alive, fdt, status, cpc>>
     ELSE left' = [left EXCEPT ![i] = @ - 1] /\ UNCHANGED <<buf, alive, fdt, status, cpc>>
  /\ UNCHANGED <<spc, got, nextfd, reaped>>
EProdExit(i) ==
  /\ cpc[i] = "prog" /\ Kinds[i] = "eprod" /\ left[i] = 0
  /\ Die(i, "ok")
  /\ UNCHANGED <<spc, buf, left, got, nextfd, reaped>>

EarlyExit(i) ==
  /\ cpc[i] = "prog" /\ Kinds[i] = "early"
  /\ Die(i, "ok")
  /\ UNCHANGED <<spc, buf, left, got, nextfd, reaped>>

Finished == spc[1] \in {"done", "failed"} /\ UNCHANGED vars

Next ==
  \/ MkPipe \/ MkCapture \/ Fork \/ PCloseW \/ PCloseR \/ CapClose \/ CapRead \/ MkHere \/ HereClose \/ HereWrite \/ HereEnd
  \/ \E i \in Stages : Wait(i) \/ CLeft(i) \/ CRight(i) \/ CDupIn(i) \/ CDupIn2(i) \/ CDupOut(i) \/ CExec(i) \/ CCapture(i) \/ CCapDup(i) \/ CHere(i)
                       \/ ProdWrite(i) \/ ProdExit(i) \/ FiltRead(i) \/ FiltWrite(i) \/ EarlyExit(i) \/ EProdWrite(i) \/ EProdExit(i)
  \/ Finished

Spec == Init /\ [][Next]_vars /\ WF_vars(Next)

\* ---------------- properties ----------------
ExecFds == \A i \in Stages : cpc[i] \in {"exec", "prog"} => Dom(fdt[i]) = {0, 1, 2}
ShellFdsRestored == spc[1] \in {"wait", "done", "failed"} => Dom(fdt[Shell]) = {0, 1, 2}
FaultClean == spc[1] = "failed" /\ (LateFail = "clean" \/ FailAt < HereCall \/ ~(HereAt \in Stages)) => (\A i \in Stages : alive[i] \in {"unborn", "reaped"})
NoForeignEnds == spc[1] \in {"wait", "done"} =>
   \A k \in Pipes : \A p \in Procs : (alive[p] = "run" /\ (p = Shell \/ cpc[p] = "prog")) =>
      ((Has(fdt[p], W(k)) => p = k) /\ (Has(fdt[p], R(k)) => p = k + 1))
Delivery == (spc[1] = "done" /\ FailAt = 0 /\ \A i \in Stages : Kinds[i] \in {"prod", "filt", "cons"}) =>
             got[N] = (IF HereAt = N THEN HereUnits ELSE IF Kinds[1] = "prod" THEN Units ELSE 0)
Termination == <>(spc[1] \in {"done", "failed"})
ShellAlive == spc[1] # "dead"
StartedOnce == \A i \in Stages : alive[i] \in {"unborn", "run", "zombie", "reaped"}
=============================================================================
