------------------------------ MODULE Splitter ------------------------------
(* parsers::parser_line::line_to_cmds transcribed statement by statement: the splitter that
   cuts a line into commands and the list operators ; && || (every entry point runs it first).
   State: result (sequence of texts), sep, token, bs (has_backslash).  trim_cmd is transcribed as
   well (blanks around a command are dropped, one backslash-escaped trailing blank is kept).
   Conformance: the real line_to_cmds must return exactly Cmds(line) for every enumerated string.
   SplitAgrees compares the operator skeleton with the reference reader (ShellLex).           *)
EXTENDS ShellLex

IsBlank(c) == c \in {" ", "T"}
RECURSIVE TrimStart(_)
TrimStart(t) == IF t # <<>> /\ IsBlank(t[1]) THEN TrimStart(Tail(t)) ELSE t
RECURSIVE TrimEnd(_)
TrimEnd(t) == IF t # <<>> /\ IsBlank(t[Len(t)]) THEN TrimEnd(SubSeq(t, 1, Len(t) - 1)) ELSE t
RECURSIVE TrailingBackslashes(_)
TrailingBackslashes(t) == IF t # <<>> /\ t[Len(t)] = "\\" THEN 1 + TrailingBackslashes(SubSeq(t, 1, Len(t) - 1)) ELSE 0
TrimCmd(token) ==
  LET t == TrimStart(token) trimmed == TrimEnd(t) IN
  IF Len(trimmed) < Len(t) /\ TrailingBackslashes(trimmed) % 2 = 1
  THEN Append(trimmed, t[Len(trimmed) + 1])
  ELSE trimmed

P0 == [result |-> <<>>, sep |-> "", token |-> <<>>, bs |-> FALSE, stop |-> FALSE]
PushCmd(s) == LET t == TrimCmd(s.token) IN IF t # <<>> THEN [s EXCEPT !.result = Append(@, t)] ELSE s

StepS(s, c, isLast, nxt) ==
  IF s.stop THEN s
  ELSE IF s.bs THEN [s EXCEPT !.token = @ \o <<"\\", c>>, !.bs = FALSE]
  ELSE IF c = "\\" /\ s.sep # "'" THEN [s EXCEPT !.bs = TRUE]
  ELSE IF c = "#" THEN (IF s.sep = "" THEN [s EXCEPT !.stop = TRUE] ELSE [s EXCEPT !.token = Append(@, c)])
  ELSE IF c \in {"'", "\"", "`"}
       THEN IF s.sep = "" THEN [s EXCEPT !.sep = c, !.token = Append(@, c)]
            ELSE IF s.sep = c THEN [s EXCEPT !.sep = "", !.token = Append(@, c)]
            ELSE [s EXCEPT !.token = Append(@, c)]
  ELSE IF c \in {"&", "|"}
       THEN IF s.sep = "" /\ (isLast \/ nxt # c)
            THEN [s EXCEPT !.token = Append(@, c)]          \* a single & or | (or the last character): part of the command
            ELSE IF s.sep = "" THEN [s EXCEPT !.sep = c]     \* first of a pair
            ELSE IF s.sep = c
                 THEN [PushCmd(s) EXCEPT !.token = <<>>, !.result = Append(@, <<c, c>>), !.sep = ""]
                 ELSE [s EXCEPT !.token = Append(@, c)]
  ELSE IF c = ";"
       THEN IF s.sep = "" THEN [PushCmd(s) EXCEPT !.result = Append(@, <<";">>), !.token = <<>>]
            ELSE [s EXCEPT !.token = Append(@, c)]
  ELSE [s EXCEPT !.token = Append(@, c)]

RECURSIVE RunS(_, _, _)
RunS(s, line, i) == IF i > Len(line) THEN s
                    ELSE RunS(StepS(s, line[i], i = Len(line), IF i < Len(line) THEN line[i + 1] ELSE ""), line, i + 1)
Cmds(line) == LET s == RunS(P0, line, 1) IN
              IF s.token # <<>> THEN Append(s.result, TrimCmd(s.token)) ELSE s.result

\* the operator skeleton: the sequence of ; && || found, against the reference reader's
Ops(line) == SelectSeq(Cmds(line), LAMBDA t : t \in {<<";">>, <<"&", "&">>, <<"|", "|">>})
RefOps(line) == LET sg == Read(line).segs IN
                SelectSeq([i \in 1..Len(sg) |-> IF sg[i].op = ";" THEN <<";">> ELSE IF sg[i].op = "&&" THEN <<"&", "&">>
                                                   ELSE IF sg[i].op = "||" THEN <<"|", "|">> ELSE <<>>], LAMBDA t : t # <<>>)
SplitAgrees(line) == Ops(line) = RefOps(line)
=============================================================================
