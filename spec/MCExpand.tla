------------------------------ MODULE MCExpand ------------------------------
(* C10 bounded model: words assembled from segments (literal / $N / ${N} / $? / $$, names that are
   prefixes of one another), environments whose values contain references, regex-special text,
   blanks, self and mutual references.  The loop of the code (Expand!Round) is run step by step;
   Exact says it ends with the reference result, Terminates that it ends at all.           *)
EXTENDS Expand, Json
CONSTANTS MaxSegs, ValsA, ValsB
Segs == { <<"-">>, <<".">>, <<"$","A">>, <<"$","{","A","}">>, <<"$","B">>, <<"$","{","B","}">>,
          <<"$","A","B">>, <<"$","{","A","B","}">>, <<"$","?">>, <<"$","$">>, <<"$","{","?","}">>, <<"{","-","}">>, <<"$">> }
VARIABLES word, nseg, va, vb, st, phase
vars == <<word, nseg, va, vb, st, phase>>
Env == [n \in {<<"A">>, <<"B">>, <<"A","B">>} |-> IF n = <<"A">> THEN va ELSE IF n = <<"B">> THEN vb ELSE <<"a","b">>]
Init == word = <<>> /\ nseg = 0 /\ va \in ValsA /\ vb \in ValsB /\ st = [fin |-> <<>>, tok |-> <<>>] /\ phase = "build"
AddSeg(s) == /\ phase = "build" /\ nseg < MaxSegs
             /\ word' = word \o s /\ nseg' = nseg + 1 /\ UNCHANGED <<va, vb, st, phase>>
Start == /\ phase = "build" /\ nseg >= 1
         /\ phase' = "loop" /\ st' = [fin |-> <<>>, tok |-> word] /\ UNCHANGED <<word, nseg, va, vb>>
Step == /\ phase = "loop"
        /\ IF Continue(st) /\ Len(Result(st)) <= 40
           THEN st' = Round(Env, st) /\ phase' = "loop"
           ELSE st' = st /\ phase' = "done"
        /\ UNCHANGED <<word, nseg, va, vb>>
Next == (\E s \in Segs : AddSeg(s)) \/ Start \/ Step
Spec == Init /\ [][Next]_vars /\ WF_vars(Step)
Expected == ParamRef(Env, word)
Exact == phase = "done" => Result(st) = Expected
Terminates == (phase = "loop") ~> (phase = "done")
\* a round never changes the token only when there is nothing to expand (no silent self-loop)
Progress == phase = "loop" /\ Continue(st) => Round(Env, st) # st
Case == [word |-> word, va |-> va, vb |-> vb, expected |-> Expected]
Emit == phase = "done" => PrintT(<<"REPLAY", ToJson(Case)>>)
VA_all == { <<"v">>, <<>>, <<"$","B">>, <<"$","A">>, <<"$","{","B","}">>, <<"a",".","b","*">>, <<"x"," ","y">>, <<"$","1">>, <<"$","?">>, <<"{","A","}">>,
            \* values that look like another expansion: braces, a range, a command substitution (it must not run: vmk leaves a record)
            <<"{","a",",","b","}">>, <<"x","{","1",".",".","3","}">>, <<"$","(","v","m","k"," ","9"," ","0",")">>, <<"`","v","m","k"," ","9"," ","0","`">>,
            <<"a",">","{","b",",","c","}">> }
VB_all == { <<"w">>, <<"$","A">>, <<>>, <<"$","{","A","}">> }
VA_plain == { <<"v">>, <<>>, <<"a",".","b","*">> }
VB_plain == { <<"w">>, <<>> }
=============================================================================
