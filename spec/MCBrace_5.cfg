SPECIFICATION Spec
CONSTANT MaxLen = 5
INVARIANT Emit
INVARIANT NoGroupIdentity
INVARIANT NonEmpty
CHECK_DEADLOCK FALSE
