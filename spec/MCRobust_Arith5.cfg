SPECIFICATION Spec
CONSTANT MaxLen = 5
CONSTANT Alphabet <- AArith
INVARIANT Total
INVARIANT Emit
CHECK_DEADLOCK FALSE
