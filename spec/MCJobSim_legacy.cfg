SPECIFICATION SSpec
CONSTANT JobDefs <- JD_2p1
CONSTANT MaxEvents = 8
CONSTANT MaxBuiltins = 2
CONSTANT Legacy <- AllLegacy
CONSTANT WalkLen = 24
INVARIANT Emit
CHECK_DEADLOCK FALSE
