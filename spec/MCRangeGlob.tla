----------------------------- MODULE MCRangeGlob -----------------------------
(* C12: ranges {m..n[..s]} over negative / descending / stepped / degenerate bounds, and glob
   patterns against generated directory populations (hidden files, names with blanks,
   subdirectories, no match), each with the reference result.                           *)
EXTENDS WordExpand, Json
CONSTANTS Lo, Hi, Shift, Steps, Pool, Patterns, MaxPop   \* bounds are Lo-Shift .. Hi-Shift
VARIABLES kind, m, n, st, pre, post, pat, pop, done
vars == <<kind, m, n, st, pre, post, pat, pop, done>>
PoolB == { <<"a",".","t">>, <<"b",".","t">>, <<"c",".","m">>, <<"d","/","x","1">>, <<"d","/","y","2">> }
PatsB == { <<"*",".","{","t",",","m","}">>, <<"{","a",",","b","}","*",".","t">>, <<"d","/","{","x",",","y","}","*">>, <<"{","a",",","c","}",".","*">>,
           <<"{","*",".","m",",","z","z","}">>, <<"{","a",",","b","}",".","{","t",",","m","}">>, <<"*","{",".","t",",",".","m","}">>, <<"{","d","/","*",",","a","*","}">> }
Init == /\ kind \in {"range", "glob", "bglob"} /\ done = FALSE
        /\ IF kind = "range"
           THEN m \in (Lo - Shift)..(Hi - Shift) /\ n \in (Lo - Shift)..(Hi - Shift) /\ st \in Steps /\ pre \in {<<>>, <<"x">>} /\ post \in {<<>>, <<"y">>}
                /\ pat = <<>> /\ pop = {}
           ELSE IF kind = "glob"
           THEN m = 0 /\ n = 0 /\ st = 0 /\ pre = <<>> /\ post = <<>>
                /\ pat \in Patterns /\ pop \in {S \in SUBSET Pool : Cardinality(S) <= MaxPop}
           ELSE m = 0 /\ n = 0 /\ st = 0 /\ pre = <<>> /\ post = <<>>
                /\ pat \in PatsB /\ pop \in {S \in SUBSET PoolB : Cardinality(S) <= MaxPop}
Finish == ~done /\ done' = TRUE /\ UNCHANGED <<kind, m, n, st, pre, post, pat, pop>>
Spec == Init /\ [][Finish]_vars
\* creating d/x also creates the directory entry d
Entries == pop \cup {SubSeq(x, 1, LastSlash(x) - 1) : x \in {y \in pop : LastSlash(y) > 0}}
Nums == NumRange(m, n, IF st = 99 THEN 1 ELSE st)
Case == IF kind = "range"
        THEN [kind |-> "range", m |-> m, n |-> n, step |-> st, pre |-> pre, post |-> post, nums |-> Nums]
        ELSE IF kind = "glob" THEN [kind |-> "glob", pat |-> pat, pop |-> pop, matches |-> GlobNames(pat, Entries)]
        ELSE \* a brace group and `*` in one word: the group is expanded first, every produced word is then a pattern of its own
             LET B == BraceExpand(pat) IN
             [kind |-> "bglob", pat |-> pat, pop |-> pop, parts |-> [k \in 1..Len(B) |-> [w |-> B[k], matches |-> GlobNames(B[k], Entries)]]]
Emit == done => PrintT(<<"REPLAY", ToJson(Case)>>)
\* theorems: a range starts at m, is inclusive when the step divides the distance, never passes n
RangeOK == done /\ kind = "range" => /\ Nums[1] = m
                                     /\ (\A i \in 1..Len(Nums) : IF m <= n THEN Nums[i] <= n ELSE Nums[i] >= n)
                                     /\ (st \in {0, 1, 99} => Nums[Len(Nums)] = n)
GlobSubset == done /\ kind = "glob" => GlobNames(pat, Entries) \subseteq Entries
PoolQ == { <<"a">>, <<"a","b">>, <<"b">>, <<".","h">>, <<"a"," ","b">>, <<"d","/","x">>, <<"d","/",".","y">> }
PatsQ == { <<"*">>, <<"a","*">>, <<"*","b">>, <<"d","/","*">>, <<".","*">>, <<"*","a","*">>, <<"x","*">>, <<"d","/",".","*">>, <<"*","/","x">> }
=============================================================================
