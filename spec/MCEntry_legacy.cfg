SPECIFICATION Spec
CONSTANT MaxLen = 2
CONSTANT Alphabet <- FullAlphabet
CONSTANT Styles <- AllStyles
CONSTANT Mode = "rerender"
INVARIANT Correct
INVARIANT EquivOK
CHECK_DEADLOCK FALSE
