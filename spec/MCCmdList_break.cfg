SPECIFICATION Spec
CONSTANT MaxN = 4
CONSTANT MinN = 1
CONSTANT OnSkip = "break"
INVARIANT RanIsPrefix
INVARIANT Correct
INVARIANT AfterSemi
INVARIANT FirstRuns
INVARIANT Emit
PROPERTY Terminates
CHECK_DEADLOCK FALSE
