SPECIFICATION Spec
CONSTANT MaxLen = 6
CONSTANT Alphabet <- AArith
INVARIANT Total
INVARIANT Emit
CHECK_DEADLOCK FALSE
