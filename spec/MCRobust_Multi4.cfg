SPECIFICATION Spec
CONSTANT MaxLen = 4
CONSTANT Alphabet <- AMulti
INVARIANT Total
INVARIANT Emit
CHECK_DEADLOCK FALSE
