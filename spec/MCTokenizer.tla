---------------------------- MODULE MCTokenizer ----------------------------
(* Every string over TokAlphabet up to MaxLen through the transcription of parse_line
   (spec/Tokenizer.tla): tokens, completeness, and whether the token texts agree with the
   words of the reference reader.  Each string is a conformance case for the real tokenizer. *)
EXTENDS Tokenizer, Json
CONSTANTS MaxLen
TokAlphabet == {"a", " ", "'", "\"", "`", "\\", "$", "(", ")", "|", "#", "=", ">", "U"}     \* U = a multi-byte character
VARIABLES txt, done
vars == <<txt, done>>
Init == txt = <<>> /\ done = FALSE
Add(c) == ~done /\ Len(txt) < MaxLen /\ txt' = Append(txt, c) /\ UNCHANGED done
Finish == ~done /\ done' = TRUE /\ UNCHANGED txt
Next == (\E c \in TokAlphabet : Add(c)) \/ Finish
Spec == Init /\ [][Next]_vars
Str(s) == FoldLeft(LAMBDA a, c : a \o c, "", s)
\* sanity of the transcription: the tokenizer is total and never produces a token out of nothing
Total == done => \A k \in 1..Len(Tokens(txt)) : Tokens(txt)[k].sep \in {"", "'", "\"", "`", "\\"}
Case == LET tk == Tokens(txt) IN
        [s |-> Str(txt), tokens |-> [k \in 1..Len(tk) |-> <<tk[k].sep, Str(tk[k].text)>>], complete |-> Complete(txt),
         agrees |-> AgreesWithReader(txt)]
Emit == done => PrintT(<<"REPLAY", ToJson(Case)>>)
=============================================================================
