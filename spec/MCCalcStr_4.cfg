SPECIFICATION Spec
CONSTANT MaxLen = 4
INVARIANT Emit
CHECK_DEADLOCK FALSE
