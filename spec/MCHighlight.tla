----------------------------- MODULE MCHighlight -----------------------------
EXTENDS Highlight, Json
CONSTANTS MaxLen
VARIABLES txt, done
vars == <<txt, done>>
HAlphabet == {"c", "d", " ", "'", "\"", "|", "\\", ";", "&", "U"}
Init == txt = <<>> /\ done = FALSE
Add(c) == ~done /\ Len(txt) < MaxLen /\ txt' = Append(txt, c) /\ UNCHANGED done
Finish == ~done /\ txt # <<>> /\ done' = TRUE /\ UNCHANGED txt
Next == (\E c \in HAlphabet : Add(c)) \/ Finish
Spec == Init /\ [][Next]_vars
Str(s) == FoldLeft(LAMBDA a, c : a \o c, "", s)
Case == LET s == Styles(txt) IN [s |-> Str(txt), ranges |-> [k \in 1..Len(s) |-> <<s[k].from, s[k].to, IF s[k].green THEN 1 ELSE 0>>]]
Emit == done => PrintT(<<"REPLAY", ToJson(Case)>>)
PartitionOK == done => Partition(txt)
GreenOK == done => OnlyFirstWords(txt)
=============================================================================
