SPECIFICATION Spec
CONSTANTS
  N = 4
  Kinds <- K4e
  Units = 1
  Cap = 1
  DropParentCloseW = FALSE
  FailAt = 3
  LateFail = "clean"
  HereAt = 0
  HereUnits = 0
  SigpipeMode = "ignored"
  CapRedirect = FALSE
  CapCloseMode = "always"
  CapReadMode = "concurrent"
  Capture = FALSE
INVARIANT ShellAlive
INVARIANT ExecFds
INVARIANT ShellFdsRestored
INVARIANT NoForeignEnds
INVARIANT Delivery
INVARIANT FaultClean
PROPERTY Termination
CHECK_DEADLOCK FALSE
