SPECIFICATION Spec
CONSTRAINT Track
INVARIANT ExecFds
INVARIANT ShellFdsRestored
POSTCONDITION Accepted
CHECK_DEADLOCK FALSE
