SPECIFICATION Spec
CONSTANT MaxLen = 5
INVARIANT Emit
INVARIANT PartitionOK
INVARIANT GreenOK
CHECK_DEADLOCK FALSE
