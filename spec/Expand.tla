------------------------------- MODULE Expand -------------------------------
(* Parameter expansion (property C10).
   Reference: ParamRef(word) is a single left-to-right pass over the characters of the word:
   `$NAME` (greedy: the longest run of name characters), `${NAME}`, `$?`, `$$` are replaced by
   the value / status / pid; the inserted text is NOT scanned again.
   Implementation-shaped: Loop is shell.rs::expand_env's loop.  With Mode = "rescan" it is the
   pinned code: `while env_in_token(tok) { tok = expand_one_env(tok) }`, where expand_one_env
   rewrites the first `$NAME` match if there is one anywhere, else the first `${NAME}` -- the
   whole token, values included, is scanned again in every round.  With Mode = "once" it is the
   repaired design: the leftmost reference is replaced, the text up to and including the inserted
   value is final, only the rest is scanned further.                                    *)
EXTENDS Naturals, Sequences, FiniteSets, TLC

CONSTANTS Mode          \* "rescan" | "once"
NameCh  == {"A", "B", "a", "b", "1", "_"}
NameStart == {"A", "B", "a", "b", "_"}       \* env_in_token only fires on [a-zA-Z_][a-zA-Z0-9_]*
At(t, i) == IF i >= 1 /\ i <= Len(t) THEN t[i] ELSE ""
RECURSIVE RunEnd(_, _)
RunEnd(t, i) == IF At(t, i) \in NameCh THEN RunEnd(t, i + 1) ELSE i     \* first index after the run of name characters

\* ---- reference ----
\* Val(env, name): value of a variable (a sequence of characters), <<>> if unset
Val(env, name) == IF name \in DOMAIN env THEN env[name] ELSE <<>>
RECURSIVE Ref(_, _, _)
Ref(env, t, i) ==
  IF i > Len(t) THEN <<>>
  ELSE IF t[i] = "$" /\ At(t, i+1) = "?" THEN <<"S">> \o Ref(env, t, i + 2)
  ELSE IF t[i] = "$" /\ At(t, i+1) = "$" THEN <<"P">> \o Ref(env, t, i + 2)
  ELSE IF t[i] = "$" /\ At(t, i+1) = "{" /\ At(t, i+2) = "?" /\ At(t, i+3) = "}" THEN <<"S">> \o Ref(env, t, i + 4)
  ELSE IF t[i] = "$" /\ At(t, i+1) = "{" /\ At(t, i+2) = "$" /\ At(t, i+3) = "}" THEN <<"P">> \o Ref(env, t, i + 4)
  ELSE IF t[i] = "$" /\ At(t, i+1) \in NameStart
       THEN LET e == RunEnd(t, i+1) IN Val(env, SubSeq(t, i+1, e-1)) \o Ref(env, t, e)
  ELSE IF t[i] = "$" /\ At(t, i+1) = "{" /\ At(t, i+2) \in NameStart /\ At(t, RunEnd(t, i+2)) = "}"
       THEN LET e == RunEnd(t, i+2) IN Val(env, SubSeq(t, i+2, e-1)) \o Ref(env, t, e+1)
  ELSE <<t[i]>> \o Ref(env, t, i+1)
ParamRef(env, word) == Ref(env, word, 1)

\* ---- the code's loop ----
Special(t, i)  == t[i] = "$" /\ At(t, i+1) \in {"?", "$"}
Re1At(t, i)    == t[i] = "$" /\ (At(t, i+1) \in NameCh \/ At(t, i+1) \in {"?", "$"})
Re2At(t, i)    == t[i] = "$" /\ At(t, i+1) = "{" /\
                  ((At(t, i+2) \in NameCh /\ At(t, RunEnd(t, i+2)) = "}") \/ (At(t, i+2) \in {"?", "$"} /\ At(t, i+3) = "}"))
\* env_in_token: `$?`/`$$` (also braced), or `$` / `${` followed by a name-start character
EnvIn(t) == \E i \in 1..Len(t) : t[i] = "$" /\
               (At(t, i+1) \in {"?", "$"} \/ At(t, i+1) \in NameStart
                \/ (At(t, i+1) = "{" /\ (At(t, i+2) \in NameStart \/ At(t, i+2) \in {"?", "$"})))
Min(S) == CHOOSE x \in S : \A y \in S : x <= y
Re1Pos(t) == {i \in 1..Len(t) : Re1At(t, i)}
Re2Pos(t) == {i \in 1..Len(t) : Re2At(t, i)}
\* value of the reference that starts at i (re1 form) / its end
V1(env, t, i) == IF At(t, i+1) = "?" THEN <<"S">> ELSE IF At(t, i+1) = "$" THEN <<"P">>
                 ELSE Val(env, SubSeq(t, i+1, RunEnd(t, i+1) - 1))
E1(t, i) == IF At(t, i+1) \in {"?", "$"} THEN i + 2 ELSE RunEnd(t, i+1)
V2(env, t, i) == IF At(t, i+2) = "?" THEN <<"S">> ELSE IF At(t, i+2) = "$" THEN <<"P">>
                 ELSE Val(env, SubSeq(t, i+2, RunEnd(t, i+2) - 1))
E2(t, i) == IF At(t, i+2) \in {"?", "$"} THEN i + 4 ELSE RunEnd(t, i+2) + 1
\* one round of the loop on state [fin, tok]: fin is text that is final, tok is still to be scanned
Round(env, s) ==
  IF Mode = "rescan"
  THEN \* expand_one_env: the first re1 match anywhere, else the first re2 match; scan everything again
       LET t == s.tok IN
       IF Re1Pos(t) # {} THEN LET i == Min(Re1Pos(t)) IN
            [fin |-> <<>>, tok |-> SubSeq(t, 1, i-1) \o V1(env, t, i) \o SubSeq(t, E1(t, i), Len(t))]
       ELSE IF Re2Pos(t) # {} THEN LET i == Min(Re2Pos(t)) IN
            [fin |-> <<>>, tok |-> SubSeq(t, 1, i-1) \o V2(env, t, i) \o SubSeq(t, E2(t, i), Len(t))]
       ELSE s
  ELSE \* repaired: the leftmost reference of either form; head and value are final
       LET t == s.tok  P == Re1Pos(t) \cup Re2Pos(t) IN
       IF P = {} THEN [fin |-> s.fin \o t, tok |-> <<>>]
       ELSE LET i == Min(P) IN
            IF Re1At(t, i) THEN [fin |-> s.fin \o SubSeq(t, 1, i-1) \o V1(env, t, i), tok |-> SubSeq(t, E1(t, i), Len(t))]
            ELSE [fin |-> s.fin \o SubSeq(t, 1, i-1) \o V2(env, t, i), tok |-> SubSeq(t, E2(t, i), Len(t))]
Continue(s) == EnvIn(s.tok)      \* the gate of both versions (has_env_ref / env_in_token)
Result(s) == s.fin \o s.tok
=============================================================================
