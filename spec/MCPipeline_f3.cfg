SPECIFICATION Spec
CONSTANTS
  N = 3
  Kinds <- K3
  Units = 2
  Cap = 1
  DropParentCloseW = FALSE
  FailAt = 2
  CapReadMode = "concurrent"
  Capture = FALSE
INVARIANT ExecFds
INVARIANT ShellFdsRestored
INVARIANT NoForeignEnds
INVARIANT Delivery
INVARIANT FaultClean
PROPERTY Termination
CHECK_DEADLOCK FALSE
