SPECIFICATION SSpec
CONSTANT JobDefs <- JD_3
CONSTANT MaxEvents = 11
CONSTANT MaxBuiltins = 3
CONSTANT Legacy <- NoLegacy
CONSTANT WalkLen = 40
INVARIANT Emit
CHECK_DEADLOCK FALSE
