SPECIFICATION Spec
CONSTANT Outputs <- OutsT
CONSTANT Kinds = {"simple"}
CONSTANT Ctxs = {"unq", "dq"}
CONSTANT TwoSubs = {TRUE}
INVARIANT Emit
CHECK_DEADLOCK FALSE
