SPECIFICATION Spec
CONSTANT MaxLen = 6
INVARIANT Emit
INVARIANT AgreesUnlessDoubleBackslash
CHECK_DEADLOCK FALSE
