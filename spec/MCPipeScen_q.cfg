SPECIFICATION Spec
CONSTANT MaxN = 3
CONSTANT Payloads = {"p0", "small", "big"}
CONSTANT Exits = {"ok", "e3", "k9"}
INVARIANT Emit
INVARIANT StatusRange
CHECK_DEADLOCK FALSE
