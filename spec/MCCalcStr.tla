------------------------------ MODULE MCCalcStr ------------------------------
(* every string up to MaxLen over the arithmetic alphabet, with the classification facts the
   property states: a line that contains a character outside  digits . + - * / ^ ( ) blank  is not
   arithmetic; a line without a digit or without an operator is not arithmetic.            *)
EXTENDS Naturals, Sequences, FiniteSets, TLC, Json
CONSTANT MaxLen
Alphabet == {"1", "9", ".", "+", "-", "*", "/", "^", "(", ")", " ", "e", "~", "="}
Foreign  == {"e", "~", "="}
VARIABLES t, done
vars == <<t, done>>
Init == t = <<>> /\ done = FALSE
Add(c) == ~done /\ Len(t) < MaxLen /\ t' = Append(t, c) /\ UNCHANGED done
Finish == ~done /\ Len(t) >= 1 /\ done' = TRUE /\ UNCHANGED t
Next == (\E c \in Alphabet : Add(c)) \/ Finish
Spec == Init /\ [][Next]_vars
Has(S) == \E i \in 1..Len(t) : t[i] \in S
MustNot == Has(Foreign) \/ ~Has({"1", "9"}) \/ ~Has({"+", "-", "*", "/", "^"})
Case == [t |-> t, mustnot |-> MustNot]
Emit == done => PrintT(<<"REPLAY", ToJson(Case)>>)
=============================================================================
