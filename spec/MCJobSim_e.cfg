SPECIFICATION SSpec
CONSTANT JobDefs <- JD_1x3
CONSTANT MaxEvents = 9
CONSTANT MaxBuiltins = 2
CONSTANT Legacy <- NoLegacy
CONSTANT WalkLen = 26
INVARIANT Emit
CHECK_DEADLOCK FALSE
