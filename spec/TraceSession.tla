---------------------------- MODULE TraceSession ----------------------------
(* Trace validation of recorded interactive sessions (properties C07 and, on observations, C06).
   A pty driver types lines / keys and sends signals to helper processes; after each action it
   waits for positive evidence of quiescence and logs state-based observations:
     prompt  - the shell blocks in the line editor (not in wait4)
     tty     - tcgetpgrp of the terminal (1 = the shell's group, else the job's first helper id)
     st      - R / T / X for every helper that was started      pg - process group of every live helper
     jobs    - the parsed `jobs` listing (after a jobs action)
   A logged action is the corresponding JobControl action; the shell's own steps that the
   driver cannot see (wait_fg_job iterations and its final non-blocking poll, the main loop's poll after each line, the second
   step of fg / bg) are silent steps, at most MaxSilent per logged action.  Observe requires a
   quiescent model state whose projection equals the observation; the statements of C07 are
   asserted there on the observation itself.                                       *)
EXTENDS JobControl, Json, IOUtils, TLCExt

Rec == ndJsonDeserialize(IOEnv.TRACE)
JDFromTrace == Rec[1].jobs
Big == 100000
NoLegacyT == {}
MaxSilent == 14

VARIABLES l,        \* next trace line to consume (line 1 is the header)
          phase,    \* "act" | "settle"
          ppoll,    \* the main loop still owes its poll after the line
          silent,   \* silent steps since the last logged action
          listing,  \* what the model says the last `jobs` printed: set of <<id, status>>
          target,   \* gid the last fg / bg / ctrlz action was aimed at (0 = none)
          pint      \* processes that were stopped when Ctrl-C reached their group: the SIGINT stays pending and ends them
                    \* as soon as they are continued (kernel behaviour, observed in recorded sessions)
tvars == <<vars, l, phase, ppoll, silent, listing, target, pint>>

TInit == /\ Init /\ TLCSet(1, 1)
         /\ l = 2 /\ phase = "act" /\ ppoll = FALSE /\ silent = 0 /\ listing = {} /\ target = 0 /\ pint = {}

Ev == Rec[l]
IsEv(name) == l <= Len(Rec) /\ phase = "act" /\ Ev.ev = name
Acted == phase' = "settle" /\ silent' = 0 /\ l' = l

GroupPids(g) == IF \E d \in 1..Len(JobDefs) : JobDefs[d].pids[1] = g
                THEN SeqToSet(JobDefs[CHOOSE d \in 1..Len(JobDefs) : JobDefs[d].pids[1] = g].pids) ELSE {}
Listing(js) == {<<i, js[i].status>> : i \in {k \in JobIds : js[k] # NoJob}}
KUnch == UNCHANGED <<jobs, reapm, stopm, contm, killm, mode, fg, pend, tty, known, launched, nev, nbi, retok, stok, idok>>

\* ---------------- logged user / driver actions ----------------
TLaunch == /\ IsEv("launch") /\ Launch(Ev.d)
           /\ ppoll' = JobDefs[Ev.d].bg      \* a background launch returns to the main loop at once
           /\ target' = 0 /\ Acted /\ UNCHANGED <<listing, pint>>

\* Ctrl-Z / Ctrl-C: the terminal sends SIGTSTP / SIGINT to its foreground process group
TKey(name, newst, newrep) ==
  /\ IsEv(name) /\ mode = "fg" /\ tty # ShellPg
  /\ kst'  = [p \in Pids |-> IF p \in GroupPids(tty) /\ kst[p] = "running" THEN newst ELSE kst[p]]
  /\ krep' = [p \in Pids |-> IF p \in GroupPids(tty) /\ kst[p] = "running" THEN newrep ELSE krep[p]]
  /\ last' = [a |-> name] /\ KUnch
  /\ target' = tty /\ Acted /\ UNCHANGED <<ppoll, listing>>
TCtrlZ == TKey("ctrlz", "stopped", "stopped") /\ UNCHANGED pint
TCtrlC == TKey("ctrlc", "zombieK", "none") /\ pint' = pint \cup {p \in GroupPids(tty) : kst[p] = "stopped"}

TExt == /\ l <= Len(Rec) /\ phase = "act" /\ Ev.ev \in {"extstop", "extcont", "extkill", "extexit"}
        /\ \/ Ev.ev = "extstop" /\ KStop(Ev.p)
           \/ Ev.ev = "extcont" /\ Ev.p \notin pint /\ KCont(Ev.p)
           \/ Ev.ev = "extcont" /\ Ev.p \in pint /\ KKill(Ev.p)          \* the pending SIGINT is delivered
           \/ Ev.ev = "extkill" /\ KKill(Ev.p)
           \/ Ev.ev = "extexit" /\ KExit(Ev.p)
        /\ pint' = pint \ {Ev.p}
        /\ target' = 0 /\ Acted /\ UNCHANGED <<ppoll, listing>>

TablePoll == IF \E i \in JobIds : jobs[i] # NoJob
             THEN PollEffect([a |-> "tpoll", R |-> {}]) /\ UNCHANGED <<mode, fg, pend, tty, launched, nev, nbi, retok, stok, idok>>
             ELSE UNCHANGED vars

\* empty line at the prompt: the main loop polls
TEnter == /\ IsEv("enter") /\ mode = "prompt"
          /\ UNCHANGED vars /\ ppoll' = TRUE /\ target' = 0 /\ Acted /\ UNCHANGED <<listing, pint>>

\* jobs builtin: polls (if the table is not empty), prints, then the main loop polls again
TJobs == /\ IsEv("jobs") /\ mode = "prompt"
         /\ TablePoll
         /\ listing' = Listing(jobs')
         /\ ppoll' = TRUE /\ target' = 0 /\ Acted /\ UNCHANGED pint

TBuiltin == /\ l <= Len(Rec) /\ phase = "act" /\ Ev.ev \in {"fg", "bg"} /\ mode = "prompt"
            /\ IF Ev.id \in JobIds /\ jobs[Ev.id] # NoJob
               THEN Builtin(Ev.ev, Ev.id) /\ ppoll' = FALSE /\ target' = jobs[Ev.id].gid
               ELSE UNCHANGED vars /\ ppoll' = TRUE /\ target' = 0     \* "no such job"
            /\ Acted /\ UNCHANGED <<listing, pint>>

\* ---------------- silent internal steps of the shell ----------------
CanSilent == l <= Len(Rec) /\ phase = "settle" /\ silent < MaxSilent
SStep(A) == /\ CanSilent /\ A
            /\ silent' = silent + 1 /\ UNCHANGED <<l, phase, listing, target, pint>>
SFgStep == SStep(\E p \in Pids : FgStep(p)) /\ ppoll' = (mode' = "prompt")
SEchild == SStep(FgEchild) /\ ppoll' = TRUE
SFgPoll == SStep(FgPollEmpty) /\ ppoll' = TRUE
SResume == SStep(Resume) /\ ppoll' = (mode' = "prompt")
SPoll   == SStep(mode = "prompt" /\ ppoll /\ TablePoll) /\ ppoll' = FALSE

\* ---------------- observation at a quiescent point ----------------
Quiescent == IF mode = "fg" THEN ~fg.poll /\ \A p \in Pids : ~Reportable(p) ELSE mode = "prompt" /\ ~ppoll
PState(p) == IF kst[p] = "running" THEN "R" ELSE IF kst[p] = "stopped" THEN "T" ELSE "X"
Started   == {p \in Pids : kst[p] # "unborn"}
ObsOK(o) ==
  /\ o.prompt = (mode = "prompt")
  /\ o.tty = tty
  /\ \A p \in Started : o.st[ToString(p)] = PState(p)
  /\ (Ev.ev = "jobs" => {<<o.jobs[k][1], o.jobs[k][3]>> : k \in 1..Len(o.jobs)} = listing)

\* ---- the statements of C07 (and the listing part of C06), judged on what was really observed ----
\* They are functions of the logged record alone (the driver knows which job it put in the foreground
\* and which job an fg / bg / Ctrl-Z was aimed at: Ev.fgexp, Ev.tgt), so they are the same in every
\* candidate explanation TLC tries.
Labels        == {p \in Pids : ToString(p) \in DOMAIN Ev.obs.st}
LiveObs(o, g) == {p \in GroupPids(g) \cap Labels : o.st[ToString(p)] # "X"}
GidOf(p) == JobDefs[CHOOSE d \in 1..Len(JobDefs) : p \in SeqToSet(JobDefs[d].pids)].pids[1]
Gids == {JobDefs[d].pids[1] : d \in 1..Len(JobDefs)}
PropOK(o) ==
  /\ (o.prompt => o.tty = ShellPg)                         \* prompt => the shell owns the terminal
  /\ (~o.prompt => o.tty = Ev.fgexp)                       \* a foreground job runs => it owns the terminal
  /\ (o.prompt /\ Ev.fgrun # 0 =>                          \* the prompt comes back only when no process of the foreground job runs
        \A p \in LiveObs(o, Ev.fgrun) : o.st[ToString(p)] # "R")
  /\ \A p \in Labels : o.st[ToString(p)] # "X" => o.pg[ToString(p)] = GidOf(p)   \* own group, led by the first stage
  /\ (Ev.ev = "ctrlz" => \A p \in LiveObs(o, Ev.tgt) : o.st[ToString(p)] = "T")     \* Ctrl-Z stops the whole pipeline
  /\ (Ev.ev \in {"fg", "bg"} /\ Ev.tgt # 0 => \A p \in LiveObs(o, Ev.tgt) : o.st[ToString(p)] = "R")  \* fg / bg resume all of it
  /\ (Ev.ev = "jobs" =>                                    \* jobs lists exactly the live pipelines with their true state
        LET lst == {<<o.jobs[k][2], o.jobs[k][3]>> : k \in 1..Len(o.jobs)}
            tru == {<<g, IF \A p \in LiveObs(o, g) : o.st[ToString(p)] = "T" THEN "Stopped" ELSE "Running">> :
                      g \in {h \in Gids : LiveObs(o, h) # {}}}
        IN /\ lst = tru
           /\ \A k, m \in 1..Len(o.jobs) : k # m => o.jobs[k][1] # o.jobs[m][1])      \* unique ids
  /\ (\A k, m \in 1..Len(o.notes) : (k # m) => o.notes[k] # o.notes[m])                 \* a finished job is reported once

Observe == /\ l <= Len(Rec) /\ phase = "settle" /\ Quiescent
           /\ IF PropOK(Ev.obs) THEN TRUE ELSE PrintT(<<"PROPFAIL", l>>) /\ FALSE
           /\ ObsOK(Ev.obs)
           /\ l' = l + 1 /\ phase' = "act" /\ silent' = 0
           /\ UNCHANGED <<vars, ppoll, listing, target, pint>>

TNext == TLaunch \/ TCtrlZ \/ TCtrlC \/ TExt \/ TEnter \/ TJobs \/ TBuiltin
         \/ SFgStep \/ SEchild \/ SFgPoll \/ SResume \/ SPoll \/ Observe
TSpec == TInit /\ [][TNext]_tvars

Track == IF l > TLCGet(1) THEN TLCSet(1, l) /\ PrintT(<<"L", l>>) ELSE TRUE
Accepted == \/ TLCGet(1) = Len(Rec) + 1
            \/ PrintT(<<"REJECT", TLCGet(1)>>) /\ FALSE
=============================================================================
