SPECIFICATION Spec
CONSTANTS Names = {"n1", "a.b", "vpa"} Values = {"v1", "v3", "v5"} WalkLen = 4
INVARIANT NonFirstNeverReplaced
PROPERTY UnaliasRemovesExactlyOne
CHECK_DEADLOCK FALSE
