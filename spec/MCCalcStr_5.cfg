SPECIFICATION Spec
CONSTANT MaxLen = 5
INVARIANT Emit
CHECK_DEADLOCK FALSE
