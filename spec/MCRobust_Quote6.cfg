SPECIFICATION Spec
CONSTANT MaxLen = 6
CONSTANT Alphabet <- AQuote
INVARIANT Total
INVARIANT Emit
CHECK_DEADLOCK FALSE
