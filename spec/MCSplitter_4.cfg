SPECIFICATION Spec
CONSTANT MaxLen = 4
INVARIANT Emit
INVARIANT PlainAgrees
CHECK_DEADLOCK FALSE
