---------------------------- MODULE MCRedirParse ----------------------------
EXTENDS RedirParse, Json, TLC
CONSTANTS MaxWords, MaxLen
RAlphabet == {"a", "1", "3", ">", "&"}
Seps == {"", "'"}
VARIABLES toks, cur, sep, done
vars == <<toks, cur, sep, done>>
Init == toks = <<>> /\ cur = <<>> /\ sep \in Seps /\ done = FALSE
Add(c) == ~done /\ Len(cur) < MaxLen /\ cur' = Append(cur, c) /\ UNCHANGED <<toks, sep, done>>
EndWord(sp) == ~done /\ cur # <<>> /\ Len(toks) < MaxWords - 1 /\ toks' = Append(toks, Tk(sep, cur)) /\ cur' = <<>> /\ sep' = sp /\ UNCHANGED done
Finish == ~done /\ cur # <<>> /\ toks' = Append(toks, Tk(sep, cur)) /\ done' = TRUE /\ UNCHANGED <<cur, sep>>
Next == (\E c \in RAlphabet : Add(c)) \/ (\E sp \in Seps : EndWord(sp)) \/ Finish
Spec == Init /\ [][Next]_vars
Str(s) == FoldLeft(LAMBDA a, c : a \o c, "", s)
P == Parse(toks)
Case == [tokens |-> [k \in 1..Len(toks) |-> <<toks[k].sep, Str(toks[k].text)>>], ok |-> P.ok, err |-> P.err,
         out |-> [k \in 1..Len(P.tokens) |-> <<P.tokens[k].sep, Str(P.tokens[k].text)>>],
         redirs |-> [k \in 1..Len(P.redirs) |-> <<Str(P.redirs[k][1]), Str(P.redirs[k][2]), Str(P.redirs[k][3])>>]]
Emit == done => PrintT(<<"REPLAY", ToJson(Case)>>)
Thm1 == done => NoGtPassesThrough(toks)
Thm2 == done => QuotedNeverOperator(toks)
Thm3 == done => OnlyStdFds(toks)
=============================================================================
