SPECIFICATION Spec
CONSTANTS Mode = "rescan" MaxAtoms = 3
INVARIANT NoHiddenCommand
INVARIANT Exact
CHECK_DEADLOCK FALSE
