SPECIFICATION Spec
CONSTANTS Mode = "rescan" MaxAtoms = 3
INVARIANT NoHiddenCommand
CHECK_DEADLOCK FALSE
