SPECIFICATION Spec
CONSTANT Payloads <- PaysQ
INVARIANT NoRescan
INVARIANT Emit
CHECK_DEADLOCK FALSE
