--------------------------------- MODULE Calc ---------------------------------
(* Arithmetic lines (property C19).  An expression is a token sequence: operands and the operators
   + - * / ^ with parentheses.  Reference: recursive descent with the precedence of the property --
   ^ binds tightest and is right-associative, then * and / (left), then + and - (left) -- and
   64-bit integer evaluation with division truncating toward zero.  TLC's integers are 32-bit, so
   the reference marks a result "exact" only when every intermediate value stays inside +-2^30
   (the exactness window); division by zero and negative exponents are marked unspecified.      *)
EXTENDS Integers, Sequences, FiniteSets, TLC

Lim == 1073741824
Ops == {"+", "-", "*", "/", "^"}
Abs(x) == IF x < 0 THEN -x ELSE x
TDiv(a, b) == LET q == Abs(a) \div Abs(b) IN IF (a < 0) # (b < 0) THEN -q ELSE q      \* truncation toward zero
\* multiplication that saturates at Lim instead of overflowing TLC's integers
SafeMul(a, b) == IF a = 0 \/ b = 0 THEN 0 ELSE IF Abs(a) > Lim \div Abs(b) THEN Lim ELSE a * b
RECURSIVE Pow(_, _)
Pow(a, b) == IF b = 0 THEN 1 ELSE LET h == Pow(a, b - 1) IN IF Abs(h) >= Lim THEN Lim ELSE SafeMul(a, h)
R(v, nx, ok) == [v |-> v, next |-> nx, ok |-> ok]      \* ok = FALSE: outside the window or unspecified
Guard(r) == IF Abs(r.v) >= Lim THEN [r EXCEPT !.ok = FALSE, !.v = 0] ELSE r
Tok(ts, i) == IF i <= Len(ts) THEN ts[i] ELSE "$"
IsNum(t) == t \notin Ops \cup {"(", ")", "$"}
\* tokens are strings; operands are decimal digit strings from a small table
NumVal(t) == CASE t = "0" -> 0 [] t = "1" -> 1 [] t = "2" -> 2 [] t = "3" -> 3 [] t = "7" -> 7 [] t = "10" -> 10 [] t = "5" -> 5 [] OTHER -> 0
RECURSIVE PExpr(_, _), PTerm(_, _), PPow(_, _), PPrim(_, _), LoopAdd(_, _), LoopMul(_, _)
PPrim(ts, i) == IF Tok(ts, i) = "(" THEN LET e == PExpr(ts, i + 1) IN R(e.v, e.next + 1, e.ok /\ Tok(ts, e.next) = ")")
                ELSE R(NumVal(Tok(ts, i)), i + 1, IsNum(Tok(ts, i)))
PPow(ts, i) == LET b == PPrim(ts, i) IN
               IF Tok(ts, b.next) = "^"
               THEN LET e == PPow(ts, b.next + 1) IN          \* right-associative
                    IF ~(b.ok /\ e.ok) \/ e.v < 0 \/ e.v > 40 THEN R(0, e.next, FALSE)
                    ELSE Guard(R(Pow(b.v, e.v), e.next, TRUE))
               ELSE b
LoopMul(ts, acc) == LET op == Tok(ts, acc.next) IN
                    IF op \notin {"*", "/"} THEN acc
                    ELSE LET r == PPow(ts, acc.next + 1) IN
                         IF ~(acc.ok /\ r.ok) \/ (op = "/" /\ r.v = 0) THEN LoopMul(ts, R(0, r.next, FALSE))
                         ELSE LoopMul(ts, Guard(R(IF op = "*" THEN SafeMul(acc.v, r.v) ELSE TDiv(acc.v, r.v), r.next, TRUE)))
PTerm(ts, i) == LoopMul(ts, PPow(ts, i))
LoopAdd(ts, acc) == LET op == Tok(ts, acc.next) IN
                    IF op \notin {"+", "-"} THEN acc
                    ELSE LET r == PTerm(ts, acc.next + 1) IN
                         IF ~(acc.ok /\ r.ok) THEN LoopAdd(ts, R(0, r.next, FALSE))
                         ELSE LoopAdd(ts, Guard(R(IF op = "+" THEN acc.v + r.v ELSE acc.v - r.v, r.next, TRUE)))
PExpr(ts, i) == LoopAdd(ts, PTerm(ts, i))
Eval(ts) == LET r == PExpr(ts, 1) IN [v |-> r.v, exact |-> r.ok /\ r.next = Len(ts) + 1]
=============================================================================
