SPECIFICATION Spec
CONSTANT JobDefs <- JD_1p2b
CONSTANT MaxEvents = 8
CONSTANT MaxBuiltins = 2
CONSTANT Legacy <- NoLegacy
VIEW view
INVARIANT TableMatchesLive
INVARIANT StatusMatches
INVARIANT UniqueIds
INVARIANT IdsSmallestFree
INVARIANT ReturnedWhenDue
INVARIANT StatusOfLast
INVARIANT NoOverWait
INVARIANT PollOnlyWhenDue
INVARIANT NoStuckEvent
INVARIANT TtyAtPrompt
INVARIANT TtyInFg
CHECK_DEADLOCK FALSE
