SPECIFICATION Spec
CONSTANTS Operands = {"0", "1", "2", "3", "7"} MaxOps = 2
INVARIANT Emit
INVARIANT Prec1
INVARIANT Prec2
CHECK_DEADLOCK FALSE
