SPECIFICATION Spec
CONSTANT MaxWords = 2
CONSTANT MaxLen = 3
INVARIANT Emit
INVARIANT Thm1
INVARIANT Thm2
INVARIANT Thm3
CHECK_DEADLOCK FALSE
