SPECIFICATION Spec
CONSTANT MaxLen = 3
CONSTANT Alphabet <- ReducedAlphabet
CONSTANT Mode = "inverse"
INVARIANT InverseOK
INVARIANT Emit
CHECK_DEADLOCK FALSE
