------------------------------ MODULE Complete ------------------------------
(* C20: what TAB inserts for a file name is read back as exactly that name.

   Candidates(entries, prefix, dirsOnly): the entries offered.
   Insert(name, ctx, mode): the text the completer puts on the line for an entry, in the three
   quote contexts (unquoted / inside an open ' / inside an open ").  Two models:
     "pinned"   - completers/path.rs as written: unquoted = tools::escape_path (a fixed
                  character class gets a backslash), quoted = tools::wrap_sep_string (the
                  quote character gets a backslash, the closing quote is appended);
     "inverse"  - the escaping that is the inverse of the reference reader.
   RoundTrip: reading the completed line with the reference reader yields the entry's name as
   one argument, and no character of it is left *active* (subject to an expansion that runs
   after reading: $ ` in double quotes or bare, a bare ~ at the start, bare glob / brace
   characters).                                                                       *)
EXTENDS ShellLex

\* tools::escape_path: [!()<>,?][{} \'"`*^#|$&;]
EscClass == {"!", "(", ")", "<", ">", ",", "?", "]", "[", "{", "}", " ", "\\", "'", "\"", "`", "*", "^", "#", "|", "$", "&", ";"}
EscapePath(t) == FoldLeft(LAMBDA acc, c : IF c \in EscClass THEN acc \o <<"\\", c>> ELSE Append(acc, c), <<>>, t)
WrapSep(q, t) == <<q>> \o FoldLeft(LAMBDA acc, c : IF c = q THEN acc \o <<"\\", c>> ELSE Append(acc, c), <<>>, t) \o <<q>>

\* the inverse of the reader
InvUnq(t) == FoldLeft(LAMBDA acc, c : IF c \in Meta THEN acc \o <<"\\", c>> ELSE Append(acc, c), <<>>, t)
InvSq(t)  == <<"'">> \o FoldLeft(LAMBDA acc, c : IF c = "'" THEN acc \o <<"'", "\\", "'", "'">> ELSE Append(acc, c), <<>>, t) \o <<"'">>
InvDq(t)  == <<"\"">> \o FoldLeft(LAMBDA acc, c : IF c \in {"\"", "\\", "$", "`"} THEN acc \o <<"\\", c>> ELSE Append(acc, c), <<>>, t) \o <<"\"">>

Insert(name, ctx, mode) ==
  IF mode = "pinned"
  THEN CASE ctx = "unq" -> EscapePath(name) [] ctx = "sq" -> WrapSep("'", name) [] OTHER -> WrapSep("\"", name)
  ELSE CASE ctx = "unq" -> InvUnq(name) [] ctx = "sq" -> InvSq(name) [] OTHER -> InvDq(name)

\* the line after completion: the command, the inserted text (it replaces the typed word), a blank
Line(name, ctx, mode) == <<"v", "p", "a", " ">> \o Insert(name, ctx, mode) \o <<" ">>

\* a character that a later expansion pass would act on
GlobBrace == {"*", "?", "[", "{"}
Active(w, i) == LET c == w[i][1] q == w[i][2] IN
                \/ q = "bare" /\ (c \in {"$", "`"} \cup GlobBrace \/ (c = "~" /\ i = 1))
                \/ q = "dq" /\ c \in {"$", "`"}
Inert(w) == \A i \in 1..Len(w) : ~Active(w, i)

RoundTrip(name, ctx, mode) ==
  LET r == Read(Line(name, ctx, mode)) IN
  /\ r.mode = "U"
  /\ Len(r.segs) = 1 /\ r.segs[1].op = "" /\ ~r.segs[1].bg /\ Len(r.segs[1].stages) = 1
  /\ r.segs[1].stages[1].redirs = 0
  /\ Len(r.segs[1].stages[1].words) = 2
  /\ Untag(r.segs[1].stages[1].words[2]) = name
  /\ Inert(r.segs[1].stages[1].words[2])

\* the candidates offered
IsPrefixOf(p, t) == Len(p) <= Len(t) /\ SubSeq(t, 1, Len(p)) = p
Candidates(entries, prefix, dirsOnly) == {e \in entries : IsPrefixOf(prefix, e.name) /\ (dirsOnly => e.dir)}
=============================================================================
