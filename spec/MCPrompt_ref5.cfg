SPECIFICATION Spec
CONSTANTS MaxPieces = 5 WellFormed = TRUE
CONSTANT VA <- VAval
CONSTANT VW <- VWval
CONSTANT Pieces <- PiecesRef
INVARIANT Exact
INVARIANT Literal
INVARIANT Emit
CHECK_DEADLOCK FALSE
