SPECIFICATION Spec
CONSTANT Outputs <- OutsT
CONSTANT Kinds <- KQ
CONSTANT Ctxs <- CQ
CONSTANT TwoSubs = {FALSE}
INVARIANT Emit
INVARIANT OnlyTrailingNewlines
INVARIANT Idempotent
CHECK_DEADLOCK FALSE
