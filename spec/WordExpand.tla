------------------------------ MODULE WordExpand ------------------------------
(* Reference semantics of brace, range and filename expansion (property C12), on sequences of
   one-character strings.
   BraceExpand(t): the leftmost `{` that has a matching `}` and at least one comma at its own
   nesting level is a group; the word expands to  prefix ++ a ++ s  for every expansion a of every
   alternative (in order) and every expansion s of the rest (alternative-major order: {a,b}{c,d}
   = ac ad bc bd); empty alternatives are allowed; a `{` without such a group is literal text.
   NumRange(m, n, s): the inclusive arithmetic sequence from m toward n in steps of max(|s|, 1).
   Glob(p, names): the sorted names matching pattern p (only `*` is special), hidden names only
   when the pattern's last component starts with a dot; the pattern itself when nothing matches. *)
EXTENDS Integers, Sequences, FiniteSets, TLC, SequencesExt, FiniteSetsExt

At(t, i) == IF i >= 1 /\ i <= Len(t) THEN t[i] ELSE ""
\* matching close brace of the open brace at i (0 if none)
RECURSIVE CloseFrom(_, _, _)
CloseFrom(t, j, depth) ==
  IF j > Len(t) THEN 0
  ELSE IF t[j] = "{" THEN CloseFrom(t, j + 1, depth + 1)
  ELSE IF t[j] = "}" THEN (IF depth = 0 THEN j ELSE CloseFrom(t, j + 1, depth - 1))
  ELSE CloseFrom(t, j + 1, depth)
Close(t, i) == CloseFrom(t, i + 1, 0)
\* depth of position j relative to the group opened at i
RECURSIVE DepthAt(_, _, _, _)
DepthAt(t, i, j, d) == IF i >= j THEN d
                       ELSE DepthAt(t, i + 1, j, IF t[i] = "{" THEN d + 1 ELSE IF t[i] = "}" THEN d - 1 ELSE d)
TopCommas(t, i, e) == {j \in (i+1)..(e-1) : t[j] = "," /\ DepthAt(t, i + 1, j, 0) = 0}
IsGroup(t, i) == t[i] = "{" /\ Close(t, i) # 0 /\ TopCommas(t, i, Close(t, i)) # {}

Flatten(ss) == FoldLeft(LAMBDA acc, s : acc \o s, <<>>, ss)
RECURSIVE BraceExpand(_)
BraceExpand(t) ==
  LET opens == {i \in 1..Len(t) : IsGroup(t, i)} IN
  IF opens = {} THEN <<t>>
  ELSE LET i    == Min(opens)
           e    == Close(t, i)
           cs   == SetToSortSeq(TopCommas(t, i, e), <)
           nalt == Len(cs) + 1
           lo(k) == IF k = 1 THEN i + 1 ELSE cs[k - 1] + 1
           hi(k) == IF k = nalt THEN e - 1 ELSE cs[k] - 1
           alts == [k \in 1..nalt |-> SubSeq(t, lo(k), hi(k))]
           A    == Flatten([k \in 1..nalt |-> BraceExpand(alts[k])])
           P    == BraceExpand(SubSeq(t, e + 1, Len(t)))
           pre  == SubSeq(t, 1, i - 1)
       IN [x \in 1..(Len(A) * Len(P)) |-> pre \o A[((x - 1) \div Len(P)) + 1] \o P[((x - 1) % Len(P)) + 1]]

\* every brace is part of a group and braces balance: the fragment on which the property is specific
Balanced(t) == /\ \A i \in 1..Len(t) : t[i] = "{" => IsGroup(t, i)
               /\ \A j \in 1..Len(t) : t[j] = "}" => \E i \in 1..(j-1) : t[i] = "{" /\ Close(t, i) = j

Abs(x) == IF x < 0 THEN -x ELSE x
RECURSIVE RangeFrom(_, _, _)
RangeFrom(m, n, st) == IF m = n THEN <<m>>
                       ELSE IF m < n THEN (IF m + st > n THEN <<m>> ELSE <<m>> \o RangeFrom(m + st, n, st))
                       ELSE (IF m - st < n THEN <<m>> ELSE <<m>> \o RangeFrom(m - st, n, st))
NumRange(m, n, s) == RangeFrom(m, n, IF Abs(s) <= 1 THEN 1 ELSE Abs(s))

\* pattern matching with `*` only; `*` does not match a "/"
RECURSIVE MatchFrom(_, _, _, _)
MatchFrom(p, i, s, j) ==
  IF i > Len(p) THEN j > Len(s)
  ELSE IF p[i] = "*" THEN \E k \in j..(Len(s) + 1) : (\A x \in j..(k-1) : s[x] # "/") /\ MatchFrom(p, i + 1, s, k)
  ELSE j <= Len(s) /\ p[i] = s[j] /\ MatchFrom(p, i + 1, s, j + 1)
Matches(p, s) == MatchFrom(p, 1, s, 1)
LastSlash(s) == IF \E i \in 1..Len(s) : s[i] = "/" THEN Max({i \in 1..Len(s) : s[i] = "/"}) ELSE 0
Base(s) == SubSeq(s, LastSlash(s) + 1, Len(s))
Hidden(s) == Len(Base(s)) > 0 /\ Base(s)[1] = "."
GlobNames(p, names) == {s \in names : Matches(p, s) /\ (Hidden(s) => Hidden(p))}
=============================================================================
