------------------------------ MODULE MCPrompt ------------------------------
(* Bounded model for the prompt scanner.  A template is assembled from pieces; each piece carries
   the text it contributes under the reference reading (see Prompt.tla).
   - PiecesRef: literal text (never starting with a name character), `$a`, `${a}`, `$a7`, `${a7}`,
     unknown names, lone `$`: Exact requires Render(template) = the concatenation of the meanings.
   - PiecesChars: the single characters of the scanner's alphabet (no reference meaning; WellFormed =
     FALSE): every string up to MaxPieces is emitted with the model's rendering for conformance with
     the real render_prompt.                                                               *)
EXTENDS Prompt, Json
CONSTANTS Pieces, MaxPieces, WellFormed
VARIABLES ps, exp, n, lastbare, done
vars == <<ps, exp, n, lastbare, done>>

VAval == <<"<", "$", "a", ">">>
VWval == <<"w", "}">>
P(t, m, bare) == [t |-> t, m |-> m, bare |-> bare]      \* bare: ends in an unbraced name (a name character may not follow)
PiecesRef == { P(<<"-">>, <<"-">>, FALSE), P(<<":", " ">>, <<":", " ">>, FALSE), P(<<"=", "a">>, <<"=", "a">>, FALSE),
               P(<<"$", "a">>, VA, TRUE), P(<<"$", "{", "a", "}">>, VA, FALSE), P(<<"$", "a", "7">>, VW, TRUE),
               P(<<"$", "{", "a", "7", "}">>, VW, FALSE), P(<<"$", "{", "z", "z", "}">>, <<>>, FALSE), P(<<"$", "z">>, <<>>, TRUE),
               P(<<"$", "-">>, <<"$", "-">>, FALSE), P(<<"$", " ">>, <<"$", " ">>, FALSE), P(<<"}">>, <<"}">>, FALSE),
               P(<<"$", "7">>, <<"$", "7">>, FALSE) }
Alphabet == {"$", "{", "}", "(", ")", "a", "7", " ", "-", "["}
PiecesChars == { P(<<c>>, <<>>, FALSE) : c \in Alphabet }

Init == ps = <<>> /\ exp = <<>> /\ n = 0 /\ lastbare = FALSE /\ done = FALSE
Add(p) == /\ ~done /\ n < MaxPieces
          /\ ps' = ps \o p.t /\ exp' = exp \o p.m /\ n' = n + 1 /\ lastbare' = p.bare /\ UNCHANGED done
Finish == ~done /\ n >= 1 /\ done' = TRUE /\ UNCHANGED <<ps, exp, n, lastbare>>
Next == (\E p \in Pieces : Add(p)) \/ Finish
Spec == Init /\ [][Next]_vars

R == Render(ps)
\* the reference: concatenation of the meanings; a trailing lone `$` ... is a `$`
Exact == done /\ WellFormed => R.text = exp /\ R.default = Blank(exp)
\* templates without `$` render to themselves
Literal == done /\ (\A i \in 1..Len(ps) : ps[i] # "$") => R.text = ps
\* a value is never scanned again: it occurs in the output as often as its items occur in the template (pieces mode)
Emit == done => PrintT(<<"REPLAY", ToJson([ps |-> ps, text |-> R.text, default |-> R.default])>>)
=============================================================================
