SPECIFICATION SSpec
CONSTANT JobDefs <- JD_2p2
CONSTANT MaxEvents = 10
CONSTANT MaxBuiltins = 3
CONSTANT Legacy <- NoLegacy
CONSTANT WalkLen = 34
INVARIANT Emit
CHECK_DEADLOCK FALSE
