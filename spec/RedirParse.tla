----------------------------- MODULE RedirParse -----------------------------
(* parsers::parser_line::tokens_to_redirections transcribed statement by statement: how the words
   of one command are split into argument tokens and redirections (fd, operator, target) (C04).
   A token is [sep, text]; the result is [ok, tokens, redirs] or [ok |-> FALSE, err].
   The two regular expressions of the code are transcribed as predicates on character sequences:
     ptn1 = "no >" text, then > or >>, then at least one character and no further >
     ptn2 = "no >" text, then > or >> at the very end of the word
   Named deviation (DropsWord): a word that contains `>` but matches neither pattern (`a>b>c`,
   `>>>`) is dropped without any diagnostic.                                               *)
EXTENDS Naturals, Sequences, SequencesExt

Has(w, c) == \E i \in 1..Len(w) : w[i] = c
FirstGt(w) == CHOOSE i \in 1..Len(w) : w[i] = ">" /\ \A j \in 1..(i - 1) : w[j] # ">"
\* the split s1 (>|>>) rest at the first group of > characters
S1(w) == SubSeq(w, 1, FirstGt(w) - 1)
OpLen(w) == IF FirstGt(w) < Len(w) /\ w[FirstGt(w) + 1] = ">" THEN 2 ELSE 1
S2(w) == SubSeq(w, FirstGt(w), FirstGt(w) + OpLen(w) - 1)
S3(w) == SubSeq(w, FirstGt(w) + OpLen(w), Len(w))
Ptn1(w) == Has(w, ">") /\ S3(w) # <<>> /\ ~Has(S3(w), ">")
Ptn2(w) == Has(w, ">") /\ S3(w) = <<>>
Digits == {"0", "1", "2", "3"}
AllDigits(t) == t # <<>> /\ \A i \in 1..Len(t) : t[i] \in Digits

\* NAME='...' / NAME="...": parse_line keeps the quotes of such a word in its text and gives it no separator; it is passed
\* through like a quoted word (regex ^[a-zA-Z0-9_]+=('.*'|".*")$)
NameCh(c) == c \in {"a", "b", "x", "_", "0", "1", "2", "3"}
QuotedAssign(w) == \E k \in 2..(Len(w) - 2) :
                     /\ w[k] = "=" /\ \A j \in 1..(k - 1) : NameCh(w[j])
                     /\ w[k + 1] \in {"'", "\""} /\ w[Len(w)] = w[k + 1]
Tk(sp, tx) == [sep |-> sp, text |-> tx]
Q0 == [ok |-> TRUE, err |-> "", tokens |-> <<>>, redirs |-> <<>>, cont |-> FALSE, c1 |-> <<>>, c2 |-> <<>>]
Fail(s, e) == [s EXCEPT !.ok = FALSE, !.err = e]
StepQ(s, t) ==
  IF ~s.ok THEN s
  ELSE IF t.sep # "" /\ ~s.cont THEN [s EXCEPT !.tokens = Append(@, t)]
  ELSE IF ~s.cont /\ QuotedAssign(t.text) THEN [s EXCEPT !.tokens = Append(@, t)]
  ELSE IF s.cont
       THEN IF t.sep = "" /\ t.text # <<>> /\ t.text[1] = "&" THEN Fail(s, "bad redirection syntax near &")
            ELSE IF AllDigits(s.c1)
                 THEN IF s.c1 \notin {<<"1">>, <<"2">>} THEN Fail(s, "Bad file descriptor #3")
                      ELSE [s EXCEPT !.redirs = Append(@, <<s.c1, s.c2, t.text>>), !.cont = FALSE]
                 ELSE [s EXCEPT !.tokens = IF s.c1 # <<>> THEN Append(@, Tk(t.sep, s.c1)) ELSE @,
                                !.redirs = Append(@, <<<<"1">>, s.c2, t.text>>), !.cont = FALSE]
  ELSE LET w == t.text IN
       IF ~Has(w, ">") THEN [s EXCEPT !.tokens = Append(@, t)]
       ELSE IF Ptn1(w)
            THEN IF S3(w)[1] = "&" /\ S3(w) \notin {<<"&", "1">>, <<"&", "2">>} THEN Fail(s, "Bad file descriptor #1")
                 ELSE IF AllDigits(S1(w))
                      THEN IF S1(w) \notin {<<"1">>, <<"2">>} THEN Fail(s, "Bad file descriptor #2")
                           ELSE [s EXCEPT !.redirs = Append(@, <<S1(w), S2(w), S3(w)>>)]
                      ELSE [s EXCEPT !.tokens = IF S1(w) # <<>> THEN Append(@, Tk(t.sep, S1(w))) ELSE @,
                                     !.redirs = Append(@, <<<<"1">>, S2(w), S3(w)>>)]
            ELSE IF Ptn2(w) THEN [s EXCEPT !.cont = TRUE, !.c1 = S1(w), !.c2 = S2(w)]
            ELSE s                      \* DropsWord: neither pattern matches, the word disappears
Parse(toks) == LET s == FoldLeft(StepQ, Q0, toks) IN
               IF s.ok /\ s.cont THEN Fail(s, "redirection syntax error") ELSE s

\* sanity theorems of the transcription
NoGtPassesThrough(toks) == (\A i \in 1..Len(toks) : ~Has(toks[i].text, ">")) =>
                             (Parse(toks).ok /\ Parse(toks).tokens = toks /\ Parse(toks).redirs = <<>>)
QuotedNeverOperator(toks) == (\A i \in 1..Len(toks) : toks[i].sep # "") => (Parse(toks).ok /\ Parse(toks).redirs = <<>>)
OnlyStdFds(toks) == Parse(toks).ok => \A k \in 1..Len(Parse(toks).redirs) : Parse(toks).redirs[k][1] \in {<<"1">>, <<"2">>}
=============================================================================
