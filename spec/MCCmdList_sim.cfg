SPECIFICATION Spec
CONSTANT MaxN = 12
CONSTANT MinN = 7
CONSTANT OnSkip = "continue"
INVARIANT RanIsPrefix
INVARIANT Correct
INVARIANT AfterSemi
INVARIANT FirstRuns
INVARIANT Emit
CHECK_DEADLOCK FALSE
