------------------------------ MODULE Redirect ------------------------------
(* Descriptor-table semantics of redirections (property C04), as a fold over the redirections of
   one command, left to right.  A *sink* is where a descriptor's output ends up:
     "OUT" / "ERR"  the shell's own stdout / stderr        "PIPE"  the next stage's stdin
     "f1" / "f2"    an open file description on that file
   Redirections (records):  [k |-> "out", f, app]   >f  >>f        [k |-> "err", f, app]  2>f  2>>f
                            [k |-> "dup21"]  2>&1                  [k |-> "dup12"]  1>&2 (also >&2)
                            [k |-> "in", f]  <f                    [k |-> "here"]   <<< word
   `N>&M` makes N refer to what M refers to *at that point*.  A target that cannot be opened
   ("bad", or a missing input file) fails the command: it does not run, its status is non-zero. *)
EXTENDS Naturals, Sequences, FiniteSets, TLC

Files == {"f1", "f2"}
BadTargets == {"bad"}                \* a path that cannot be opened for writing
Present(init, f) == init[f] # "absent"

S0(pos) == [o |-> IF pos \in {"first", "middle"} THEN "PIPE" ELSE "OUT", e |-> "ERR",
            stdin |-> IF pos \in {"middle", "last"} THEN "PIPE" ELSE "TTY",
            opened |-> <<>>,     \* files opened so far, in order: [f, app]
            failed |-> FALSE]

Step(s, r) ==
  IF s.failed THEN s
  ELSE CASE r.k = "out" -> IF r.f \in BadTargets THEN [s EXCEPT !.failed = TRUE]
                           ELSE [s EXCEPT !.o = r.f, !.opened = Append(@, [f |-> r.f, app |-> r.app])]
         [] r.k = "err" -> IF r.f \in BadTargets THEN [s EXCEPT !.failed = TRUE]
                           ELSE [s EXCEPT !.e = r.f, !.opened = Append(@, [f |-> r.f, app |-> r.app])]
         [] r.k = "dup21" -> [s EXCEPT !.e = s.o]
         [] r.k = "dup12" -> [s EXCEPT !.o = s.e]
         [] r.k = "in"   -> IF r.f = "nofile" THEN [s EXCEPT !.failed = TRUE] ELSE [s EXCEPT !.stdin = r.f]
         [] r.k = "here" -> [s EXCEPT !.stdin = "HERE"]

RECURSIVE Fold(_, _, _)
Fold(s, rs, i) == IF i > Len(rs) THEN s ELSE Fold(Step(s, rs[i]), rs, i + 1)
Apply(rs, pos) == Fold(S0(pos), rs, 1)

\* what the program writes: `emits` is the sequence of <<fd, token>> it writes in order
\* (an external program writes "o" to 1 then "e" to 2; alias prints "o" only; alias nosuch "e" only)
RECURSIVE Route(_, _, _, _)
Route(s, emits, i, acc) ==
  IF i > Len(emits) THEN acc
  ELSE LET sink == IF emits[i][1] = 1 THEN s.o ELSE s.e
           key  == sink
       IN Route(s, emits, i + 1, [acc EXCEPT ![key] = Append(@, emits[i][2])])
Keys == {"OUT", "ERR", "PIPE"} \cup Files
Written(s, emits) == Route(s, emits, 1, [k \in Keys |-> <<>>])

\* final contents of file f: "absent", or a sequence of tokens ("old" = what was there before)
Final(init, s, emits, f, ran) ==
  LET opens == {i \in 1..Len(s.opened) : s.opened[i].f = f}
      w     == IF ran THEN Written(s, emits)[f] ELSE <<>>
  IN IF opens = {} THEN (IF Present(init, f) THEN <<"old">> ELSE "absent")
     ELSE LET app == \A i \in opens : s.opened[i].app
          IN (IF app /\ Present(init, f) THEN <<"old">> ELSE <<>>) \o w
=============================================================================
