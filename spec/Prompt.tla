------------------------------- MODULE Prompt -------------------------------
(* prompt::main::render_prompt transcribed statement by statement (implementation-shaped): the
   hand-written scanner that turns the $PROMPT template into the text shown before every line.

   State (the Rust locals): out (prompt), md (met_dollar), mb (met_brace), mp (met_paren),
   tok (token), pre (prefix), suf (suffix).  Render(ps) folds Step over the characters and applies
   the end-of-input rules; Item(tok) abstracts apply_prompt_item (shell variable / environment
   variable first, then the preset table, nothing for an unknown name) and CmdOut(tok) abstracts
   apply_command's execute::run (the enumerations contain no runnable command: the output is empty).

   Reference (what a user relies on): a template made of literal text, `$NAME`, `${NAME}` and lone
   `$` characters renders to the concatenation of the literal text, the items' values and the `$`
   characters, in order -- values are inserted verbatim (never scanned again), an unknown name
   renders as nothing, and text that is blank after rendering is replaced by the default prompt.
   MCPrompt checks Render against that reference on templates assembled from such pieces, and
   enumerates every short string over the scanner's special characters for conformance with the
   real render_prompt (drift = 0 is required of the unchanged tree).                        *)
EXTENDS Naturals, Sequences, FiniteSets, TLC

CONSTANTS VA, VW          \* values of the items `a` and `a7` (sequences of characters)

ItemStart(c) == c \in {"a", "z"}                 \* ^[a-zA-Z_]$
ItemChar(c, tok) == IF tok = <<>> THEN ItemStart(c) ELSE c \in {"a", "z", "7"}
Item(tok) == IF tok = <<"a">> THEN VA ELSE IF tok = <<"a", "7">> THEN VW ELSE <<>>
CmdOut(tok) == <<>>

S0 == [out |-> <<>>, md |-> FALSE, mb |-> FALSE, mp |-> FALSE, tok |-> <<>>, pre |-> <<>>, suf |-> <<>>]

\* the tail of the loop body (reached when no `continue` fired)
LoopTail(s, c) ==
  IF c = "$" THEN [s EXCEPT !.md = TRUE]
  ELSE LET s1 == IF s.tok # <<>> THEN [s EXCEPT !.out = @ \o Item(s.tok), !.tok = <<>>] ELSE s IN
       [s1 EXCEPT !.out = Append(@, c), !.md = FALSE]

ApplyCommand(s) ==
  LET o == CmdOut(s.tok) IN
  [s EXCEPT !.out = IF o = <<>> THEN @ ELSE @ \o s.pre \o o \o s.suf,
            !.tok = <<>>, !.pre = <<>>, !.suf = <<>>, !.md = FALSE, !.mp = FALSE]

Step(s, c) ==
  IF s.md
  THEN IF c = "(" /\ ~s.mb /\ ~s.mp THEN [s EXCEPT !.mp = TRUE]
       ELSE IF c = ")" /\ s.mp THEN ApplyCommand(s)
       ELSE IF c = "{" /\ ~s.mb /\ ~s.mp THEN [s EXCEPT !.mb = TRUE]
       ELSE IF c = "}" /\ s.mb THEN [s EXCEPT !.out = @ \o Item(s.tok), !.tok = <<>>, !.md = FALSE, !.mb = FALSE]
       ELSE IF c = "$"
            THEN IF s.tok = <<>> THEN [s EXCEPT !.out = Append(@, "$")]          \* a single $ stays a plain $; md stays set
                 ELSE [s EXCEPT !.out = @ \o Item(s.tok), !.tok = <<>>]
       ELSE IF s.mp
            THEN IF c \in {"[", "{"} THEN [s EXCEPT !.pre = Append(@, c)]
                 ELSE IF c \in {"]", "}"} THEN [s EXCEPT !.suf = Append(@, c)]
                 ELSE [s EXCEPT !.tok = Append(@, c)]
       ELSE IF ItemChar(c, s.tok) THEN [s EXCEPT !.tok = Append(@, c)]
       ELSE IF s.tok = <<>> THEN [s EXCEPT !.out = @ \o <<"$", c>>, !.md = FALSE]
       ELSE LoopTail(s, c)
  ELSE LoopTail(s, c)

RECURSIVE Run(_, _, _)
Run(s, ps, i) == IF i > Len(ps) THEN s ELSE Run(Step(s, ps[i]), ps, i + 1)

Blank(t) == \A i \in 1..Len(t) : t[i] \in {" ", "\n", "\t"}
\* [text, default]: default = TRUE when the rendered text is blank and "cicada-<version> >> " is shown instead
Render(ps) ==
  LET s  == Run(S0, ps, 1)
      s1 == IF s.tok # <<>> THEN [s EXCEPT !.out = @ \o Item(s.tok), !.md = FALSE] ELSE s
      o  == IF s1.md THEN Append(s1.out, "$") ELSE s1.out
  IN [text |-> o, default |-> Blank(o)]
=============================================================================
