SPECIFICATION SSpec
CONSTANTS Names = {"A"} Values = {"x", "v w"} MaxOps = 999 WalkLen = 3
INVARIANT SAgree
INVARIANT Emit
CHECK_DEADLOCK FALSE
