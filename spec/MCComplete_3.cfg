SPECIFICATION Spec
CONSTANT MaxLen = 3
CONSTANT Mode = "inverse"
INVARIANT InverseOK
INVARIANT Emit
CHECK_DEADLOCK FALSE
