SPECIFICATION Spec
CONSTANT N = 3
CONSTANT Mode = "child-only"
INVARIANT OwnGroup
INVARIANT TerminalGiven
CHECK_DEADLOCK FALSE
