SPECIFICATION Spec
CONSTANT N = 3
CONSTANT Mode = "child-only"
CONSTANT TtyMode = "both"
INVARIANT OwnGroup
INVARIANT TerminalGiven
INVARIANT RunsOwningTerminal
INVARIANT PromptOwnsTerminal
CHECK_DEADLOCK FALSE
