SPECIFICATION Spec
CONSTANT Mode = "rerender"
INVARIANT PassOK
CHECK_DEADLOCK FALSE
