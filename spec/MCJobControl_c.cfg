SPECIFICATION Spec
CONSTANT JobDefs <- JD_3
CONSTANT MaxEvents = 5
CONSTANT MaxBuiltins = 1
CONSTANT Legacy <- NoLegacy
VIEW view
INVARIANT TableMatchesLive
INVARIANT StatusMatches
INVARIANT UniqueIds
INVARIANT IdsSmallestFree
INVARIANT ReturnedWhenDue
INVARIANT StatusOfLast
INVARIANT NoOverWait
INVARIANT PollOnlyWhenDue
INVARIANT NoStuckEvent
INVARIANT TtyAtPrompt
INVARIANT TtyInFg
CHECK_DEADLOCK FALSE
