---------------------------- MODULE JobControl ----------------------------
(* Job table, foreground wait, prompt-time poll, fg / bg builtins (property C06, and the
   process/terminal part of C07), written from jobc.rs / shell.rs / signals.rs /
   builtins/{fg,bg,jobs}.rs -- one action per critical section of the code:

     Launch(d)    run_pipeline's insert_job calls for a whole pipeline; a foreground
                  pipeline then enters wait_fg_job
     FgStep(p)    ONE iteration of the waitpid(-1) loop of wait_fg_job, consuming the
                  report of child p (any reportable child may be picked)
     FgEchild     the loop's ECHILD exit
     FgPollEmpty  the non-blocking waitpid that wait_fg_job issues once every member has settled
                  and some member's latest report says stopped finds nothing pending: the wait
                  ends (while something is pending, the loop goes on with FgStep)
     Poll         try_wait_bg_jobs: drain every report the kernel has into the four
                  parked maps, then, for a snapshot of the table, apply per pid
                  reap -> kill -> stop -> cont
     FgBuiltin(i) `fg i`: terminal to the job, SIGCONT to its group, mark running,
                  wait_fg_job over the job's current pids, terminal back
     BgBuiltin(i) `bg i`
   and the environment: KStop / KCont / KExit / KKill of a process, with Linux's
   wait-report coalescing (only the latest stop/continue report of a live child is
   pending; a zombie supersedes both).

   The constant Legacy names the deviations of the pinned code from the repaired design;
   each element switches the corresponding legacy behaviour back on, so TLC can show
   what each one breaks:
     "count"   wait_fg_job counts reports instead of tracking which pids are settled
     "bsearch" remove_pid_from_job uses binary_search on the (unsorted) pid vector
     "stale"   a removed pid stays in pids_stopped / the job's state is not re-evaluated
     "sets"    parked stop / continue events are two independent sets
     "fgcont"  a Continued report of a foreground member is ignored
     "contall" a continued member makes its job Running only once no member is stopped
     "nopoll"  fg / bg do not bring the table up to date before they resume a job
     "nodrain" wait_fg_job returns as soon as the latest report it has read of every member says
               exited, killed or stopped -- also when a newer report (continued) is already pending
   The properties are evaluated against the kernel's truth (kst), never against the
   table's own idea of the world.                                                 *)
EXTENDS Naturals, Sequences, FiniteSets, TLC

CONSTANTS JobDefs,      \* sequence of [pids |-> Seq(Pid), bg |-> BOOLEAN]: the pipelines that may be launched
          MaxEvents,    \* bound on kernel status changes
          MaxBuiltins,  \* bound on fg / bg builtin uses
          Legacy        \* subset of {"count","bsearch","stale","sets","fgcont","contall","nopoll","nodrain"}

Pids   == UNION { {JobDefs[i].pids[k] : k \in 1..Len(JobDefs[i].pids)} : i \in 1..Len(JobDefs) }
JobIds == 1..Len(JobDefs)
NoJob  == [gid |-> 0]
ShellPg == 1            \* the shell's own process group

VARIABLES kst,      \* kernel: pid -> "unborn" | "running" | "stopped" | "zombieX" | "zombieK" | "gone"
          krep,     \* kernel: pid -> "none" | "stopped" | "continued"  (pending, coalesced report)
          jobs,     \* job id -> NoJob or [gid, pids, stp, status, bg]
          reapm, stopm, contm, killm,  \* parked maps (signals.rs)
          mode,     \* "prompt" | "fg"
          fg,       \* [gid, pids, waited, settled, status, viafg, poll]  locals of the running wait_fg_job
                    \* (poll: every member has settled, some stopped -- the next waitpid does not block)
          pend,     \* the fg / bg builtin in progress (between its two steps)
          tty,      \* process group the code last handed the terminal to
          known,    \* ghost: pid -> last report the shell consumed for it
          launched, \* set of indices of JobDefs launched so far
          nev, nbi, \* event / builtin counters (bounds)
          retok,    \* ghost: every return of wait_fg_job so far happened when it was due: the latest report read
                    \* of every member says exited / killed / stopped AND, in the kernel, no member was running
          stok,     \* ghost: every returned status was the last process's
          idok,     \* ghost: every launch took the smallest unused id
          last      \* label of the last action (hidden from the fingerprint by VIEW)

vars == <<kst, krep, jobs, reapm, stopm, contm, killm, mode, fg, pend, tty, known, launched, nev, nbi, retok, stok, idok, last>>
view == <<kst, krep, jobs, reapm, stopm, contm, killm, mode, fg, pend, tty, known, launched, nev, nbi, retok, stok, idok>>

NoPend == [kind |-> "", id |-> 0]
NoFg == [gid |-> 0, pids |-> <<>>, waited |-> 0, settled |-> {}, status |-> "none", viafg |-> FALSE, poll |-> FALSE]

Init ==
  /\ kst = [p \in Pids |-> "unborn"]
  /\ krep = [p \in Pids |-> "none"]
  /\ jobs = [i \in JobIds |-> NoJob]
  /\ reapm = {} /\ stopm = {} /\ contm = {} /\ killm = {}
  /\ mode = "prompt" /\ fg = NoFg /\ pend = NoPend /\ tty = ShellPg
  /\ known = [p \in Pids |-> "none"]
  /\ launched = {} /\ nev = 0 /\ nbi = 0
  /\ retok = TRUE /\ stok = TRUE /\ idok = TRUE
  /\ last = [a |-> "init"]

SeqToSet(s)    == {s[i] : i \in 1..Len(s)}
RemoveAt(s, i) == SubSeq(s, 1, i - 1) \o SubSeq(s, i + 1, Len(s))
IndexOf(s, x)  == IF \E i \in 1..Len(s) : s[i] = x THEN CHOOSE i \in 1..Len(s) : s[i] = x /\ \A k \in 1..(i-1) : s[k] # x ELSE 0
Live(p)        == kst[p] \in {"running", "stopped"}

\* ---- Shell.insert_job: smallest free id ----
FreeId == CHOOSE i \in JobIds : jobs[i] = NoJob /\ \A k \in 1..(i-1) : jobs[k] # NoJob

\* Rust's slice::binary_search on a possibly unsorted Vec, modelled exactly (size halving):
\*   while size > 1 { half = size/2; mid = base+half; base = if v[mid] > x {base} else {mid}; size -= half }
RECURSIVE BSearch(_, _, _, _)
BSearch(v, x, base, size) ==
  IF size <= 1 THEN base
  ELSE LET half == size \div 2
           mid  == base + half
       IN BSearch(v, x, IF v[mid + 1] > x THEN base ELSE mid, size - half)
BinFind(v, x) == IF Len(v) = 0 THEN 0
                 ELSE LET b == BSearch(v, x, 0, Len(v)) IN IF v[b + 1] = x THEN b + 1 ELSE 0
Find(v, x) == IF "bsearch" \in Legacy THEN BinFind(v, x) ELSE IndexOf(v, x)

JobOfGid(js, gid) ==
  IF \E i \in JobIds : js[i] # NoJob /\ js[i].gid = gid
  THEN CHOOSE i \in JobIds : js[i] # NoJob /\ js[i].gid = gid /\ \A k \in 1..(i-1) : ~(js[k] # NoJob /\ js[k].gid = gid)
  ELSE 0

AllStopped(j) == \A k \in 1..Len(j.pids) : j.pids[k] \in j.stp

\* Shell::remove_pid_from_job (+ jobc::mark_job_as_done)
RemovePid(js, gid, pid) ==
  LET i == JobOfGid(js, gid) IN
  IF i = 0 THEN js
  ELSE LET idx == Find(js[i].pids, pid)
           np  == IF idx = 0 THEN js[i].pids ELSE RemoveAt(js[i].pids, idx)
           j1  == IF "stale" \in Legacy THEN [js[i] EXCEPT !.pids = np]
                  ELSE LET j2 == [js[i] EXCEPT !.pids = np, !.stp = @ \ {pid}]
                       IN IF Len(np) > 0 /\ AllStopped(j2) THEN [j2 EXCEPT !.status = "Stopped", !.bg = TRUE] ELSE j2
       IN IF Len(np) = 0 THEN [js EXCEPT ![i] = NoJob] ELSE [js EXCEPT ![i] = j1]

\* jobc::mark_job_member_stopped
MemberStopped(js, pid, gid) ==
  LET i == JobOfGid(js, gid) IN
  IF i = 0 THEN js
  ELSE LET j1 == [js[i] EXCEPT !.stp = @ \cup {pid}]
       IN [js EXCEPT ![i] = IF AllStopped(j1) THEN [j1 EXCEPT !.status = "Stopped", !.bg = TRUE] ELSE j1]

\* jobc::mark_job_member_continued
MemberContinued(js, pid, gid) ==
  LET i == JobOfGid(js, gid) IN
  IF i = 0 THEN js
  ELSE LET j1 == [js[i] EXCEPT !.stp = @ \ {pid}]
       IN IF "contall" \in Legacy
          THEN [js EXCEPT ![i] = IF j1.stp = {} THEN [j1 EXCEPT !.status = "Running", !.bg = TRUE] ELSE j1]
          ELSE LET j2 == IF j1.status = "Stopped" THEN [j1 EXCEPT !.status = "Running"] ELSE j1
               IN [js EXCEPT ![i] = IF j2.stp = {} THEN [j2 EXCEPT !.status = "Running", !.bg = TRUE] ELSE j2]

MarkRunning(js, gid, bg) ==
  LET i == JobOfGid(js, gid) IN
  IF i = 0 THEN js ELSE [js EXCEPT ![i].status = "Running", ![i].stp = {}, ![i].bg = bg]

\* parked stop / continue events: in the repaired design the later one replaces the earlier
ParkStop(sm, cm, p) == <<sm \cup {p}, IF "sets" \in Legacy THEN cm ELSE cm \ {p}>>
ParkCont(sm, cm, p) == <<IF "sets" \in Legacy THEN sm ELSE sm \ {p}, cm \cup {p}>>

Launch(d) ==
  /\ mode = "prompt" /\ d \notin launched
  /\ \E i \in JobIds : jobs[i] = NoJob
  /\ LET def == JobDefs[d] IN
     /\ jobs' = [jobs EXCEPT ![FreeId] = [gid |-> def.pids[1], pids |-> def.pids, stp |-> {}, status |-> "Running", bg |-> def.bg]]
     /\ kst' = [p \in Pids |-> IF p \in SeqToSet(def.pids) THEN "running" ELSE kst[p]]
     /\ IF def.bg THEN mode' = mode /\ fg' = fg /\ tty' = tty
        ELSE /\ mode' = "fg" /\ tty' = def.pids[1]
             /\ fg' = [NoFg EXCEPT !.gid = def.pids[1], !.pids = def.pids]
     /\ last' = [a |-> "launch", d |-> d, id |-> FreeId, pids |-> def.pids, bg |-> def.bg]
  /\ idok' = (idok /\ \A k \in 1..(FreeId - 1) : jobs[k] # NoJob)
  /\ launched' = launched \cup {d}
  /\ UNCHANGED <<krep, reapm, stopm, contm, killm, pend, known, nev, nbi, retok, stok>>

\* ---- kernel status changes (the environment) ----
KEnv(p, a, st, rp) ==
  /\ nev < MaxEvents
  /\ kst' = [kst EXCEPT ![p] = st] /\ krep' = [krep EXCEPT ![p] = rp]
  /\ nev' = nev + 1 /\ last' = [a |-> a, p |-> p]
  /\ UNCHANGED <<jobs, reapm, stopm, contm, killm, mode, fg, pend, tty, known, launched, nbi, retok, stok, idok>>
KStop(p) == kst[p] = "running" /\ KEnv(p, "kstop", "stopped", "stopped")
KCont(p) == kst[p] = "stopped" /\ KEnv(p, "kcont", "running", "continued")
KExit(p) == kst[p] = "running" /\ KEnv(p, "kexit", "zombieX", "none")
KKill(p) == kst[p] \in {"running", "stopped"} /\ KEnv(p, "kkill", "zombieK", "none")

Reportable(p) == kst[p] \in {"zombieX", "zombieK"} \/ (Live(p) /\ krep[p] # "none")
EventOf(p)    == IF kst[p] = "zombieX" THEN "exited" ELSE IF kst[p] = "zombieK" THEN "signaled" ELSE krep[p]
HasChildren   == \E p \in Pids : kst[p] \in {"running", "stopped", "zombieX", "zombieK"}
Settled(e)    == e \in {"exited", "signaled", "stopped"}

\* ---- wait_fg_job: one loop iteration ----
FgStep(p) ==
  /\ mode = "fg" /\ Reportable(p)
  /\ LET e       == EventOf(p)
         isfg    == p \in SeqToSet(fg.pids)
         waited  == IF isfg /\ e # "continued" THEN fg.waited + 1 ELSE fg.waited
         settled == IF ~isfg THEN fg.settled
                    ELSE IF e = "continued" THEN (IF "fgcont" \in Legacy THEN fg.settled ELSE fg.settled \ {p})
                    ELSE fg.settled \cup {p}
         lastp   == fg.pids[Len(fg.pids)]
         st      == IF isfg /\ p = lastp /\ e # "continued" THEN e ELSE fg.status
         kn      == [known EXCEPT ![p] = e]
         full    == IF "count" \in Legacy THEN waited >= Len(fg.pids) ELSE settled = SeqToSet(fg.pids)
         stp     == {q \in settled : kn[q] = "stopped"}      \* the code's `stopped` set
         done    == e # "continued" /\ full /\ ("nodrain" \in Legacy \/ stp = {})
         nkst    == IF e \in {"exited", "signaled"} THEN [kst EXCEPT ![p] = "gone"] ELSE kst
         sc      == IF e = "stopped" /\ ~isfg THEN ParkStop(stopm, contm, p)
                    ELSE IF e = "continued" /\ ~isfg THEN ParkCont(stopm, contm, p)
                    ELSE <<stopm, contm>>
     IN
     /\ kst'   = nkst
     /\ krep'  = [krep EXCEPT ![p] = "none"]
     /\ known' = kn
     /\ jobs'  = IF e \in {"exited", "signaled"} /\ isfg THEN RemovePid(jobs, fg.gid, p)
                 ELSE IF e = "stopped" /\ isfg THEN MemberStopped(jobs, p, fg.gid)
                 ELSE IF e = "continued" /\ isfg /\ "fgcont" \notin Legacy THEN MemberContinued(jobs, p, fg.gid)
                 ELSE jobs     \* a background stop: mark_job_member_stopped(sh, pid, 0, ..) finds no job
     /\ reapm' = IF e = "exited" /\ ~isfg THEN reapm \cup {p} ELSE reapm
     /\ killm' = IF e = "signaled" /\ ~isfg THEN killm \cup {p} ELSE killm
     /\ stopm' = sc[1] /\ contm' = sc[2]
     /\ fg'    = IF done THEN NoFg
                 ELSE [fg EXCEPT !.waited = waited, !.settled = settled, !.status = st, !.poll = (full /\ "nodrain" \notin Legacy)]
     /\ mode'  = IF done THEN "prompt" ELSE "fg"
     /\ tty'   = IF done THEN ShellPg ELSE tty
     /\ retok' = IF done THEN retok /\ \A q \in SeqToSet(fg.pids) : Settled(kn[q]) /\ nkst[q] # "running" ELSE retok
     /\ stok'  = IF done THEN stok /\ st = kn[lastp] ELSE stok
     /\ last'  = [a |-> "fgstep", p |-> p, e |-> e, done |-> done, st |-> st]
  /\ UNCHANGED <<pend, launched, nev, nbi, idok>>

FgEchild ==
  /\ mode = "fg" /\ ~HasChildren
  /\ mode' = "prompt" /\ fg' = NoFg /\ tty' = ShellPg /\ last' = [a |-> "fgechild"]
  /\ UNCHANGED <<kst, krep, jobs, reapm, stopm, contm, killm, pend, known, launched, nev, nbi, retok, stok, idok>>

\* the non-blocking waitpid of the polling loop finds nothing: every member has exited or really is stopped
FgPollEmpty ==
  /\ mode = "fg" /\ fg.poll /\ \A p \in Pids : ~Reportable(p)
  /\ mode' = "prompt" /\ fg' = NoFg /\ tty' = ShellPg
  /\ retok' = (retok /\ \A q \in SeqToSet(fg.pids) : Settled(known[q]) /\ kst[q] # "running")
  /\ stok'  = (stok /\ fg.status = known[fg.pids[Len(fg.pids)]])
  /\ last'  = [a |-> "fgpoll"]
  /\ UNCHANGED <<kst, krep, jobs, reapm, stopm, contm, killm, pend, known, launched, nev, nbi, idok>>

\* ---- try_wait_bg_jobs (atomic): drain the kernel into the maps, then apply per job / pid ----
RECURSIVE ApplyPids(_, _, _, _)
ApplyPids(st, gid, pids, k) ==
  IF k > Len(pids) THEN st
  ELSE LET p == pids[k] IN
       IF p \in st.reapm THEN ApplyPids([st EXCEPT !.reapm = @ \ {p}, !.jobs = RemovePid(st.jobs, gid, p)], gid, pids, k + 1)
       ELSE IF p \in st.killm THEN ApplyPids([st EXCEPT !.killm = @ \ {p}, !.jobs = RemovePid(st.jobs, gid, p)], gid, pids, k + 1)
       ELSE IF p \in st.stopm THEN ApplyPids([st EXCEPT !.stopm = @ \ {p}, !.jobs = MemberStopped(st.jobs, p, gid)], gid, pids, k + 1)
       ELSE IF p \in st.contm THEN ApplyPids([st EXCEPT !.contm = @ \ {p}, !.jobs = MemberContinued(st.jobs, p, gid)], gid, pids, k + 1)
       ELSE ApplyPids(st, gid, pids, k + 1)

RECURSIVE ApplyJobs(_, _, _)
ApplyJobs(st, snap, i) ==
  IF i > Len(JobDefs) THEN st
  ELSE IF snap[i] = NoJob THEN ApplyJobs(st, snap, i + 1)
  ELSE ApplyJobs(ApplyPids(st, snap[i].gid, snap[i].pids, 1), snap, i + 1)

\* the drain consumes the reportable children in some order; with coalescing each child has at
\* most one report, so the order only matters for the (stop, cont) parking of one pid -- it does not.
Drain(R) ==
  LET stops == {p \in R : EventOf(p) = "stopped"}
      conts == {p \in R : EventOf(p) = "continued"}
  IN [reapm |-> reapm \cup {p \in R : EventOf(p) = "exited"},
      killm |-> killm \cup {p \in R : EventOf(p) = "signaled"},
      stopm |-> (IF "sets" \in Legacy THEN stopm ELSE stopm \ conts) \cup stops,
      contm |-> (IF "sets" \in Legacy THEN contm ELSE contm \ stops) \cup conts]

\* the effect of try_wait_bg_jobs (the table is known to be non-empty)
PollEffect(label) ==
  LET R   == {p \in Pids : Reportable(p)}
      d   == Drain(R)
      st0 == [jobs |-> jobs, reapm |-> d.reapm, killm |-> d.killm, stopm |-> d.stopm, contm |-> d.contm]
      st1 == ApplyJobs(st0, jobs, 1)
  IN /\ jobs' = st1.jobs /\ reapm' = st1.reapm /\ killm' = st1.killm /\ stopm' = st1.stopm /\ contm' = st1.contm
     /\ kst' = [p \in Pids |-> IF p \in R /\ kst[p] \in {"zombieX", "zombieK"} THEN "gone" ELSE kst[p]]
     /\ krep' = [p \in Pids |-> IF p \in R THEN "none" ELSE krep[p]]
     /\ known' = [p \in Pids |-> IF p \in R THEN EventOf(p) ELSE known[p]]
     /\ last' = [label EXCEPT !.R = R]
     /\ (label.a = "poll" => (R # {} \/ st1.jobs # jobs \/ last.a # "poll"))      \* no two idle polls in a row

Poll ==
  /\ mode = "prompt"
  /\ \E i \in JobIds : jobs[i] # NoJob
  /\ PollEffect([a |-> "poll", R |-> {}])
  /\ UNCHANGED <<mode, fg, tty, pend, launched, nev, nbi, retok, stok, idok>>

\* fg / bg, step 1 (repaired design): bring the table up to date first, as `jobs` does
Builtin(kind, i) ==
  /\ mode = "prompt" /\ nbi < MaxBuiltins /\ jobs[i] # NoJob
  /\ IF "nopoll" \in Legacy
     THEN /\ UNCHANGED <<jobs, reapm, killm, stopm, contm, kst, krep, known>>
          /\ last' = [a |-> "builtin", kind |-> kind, id |-> i, R |-> {}]
     ELSE PollEffect([a |-> "builtin", kind |-> kind, id |-> i, R |-> {}])
  /\ mode' = "pre" /\ pend' = [kind |-> kind, id |-> i] /\ nbi' = nbi + 1
  /\ UNCHANGED <<fg, tty, launched, nev, retok, stok, idok>>

GroupOf(gid) == SeqToSet(JobDefs[CHOOSE d \in launched : JobDefs[d].pids[1] = gid].pids)

\* fg / bg, step 2: SIGCONT to the whole group (every stopped member runs again and has a Continued
\* report pending), mark the job running; fg then waits for it in the foreground
Resume ==
  /\ mode = "pre"
  /\ pend' = NoPend
  /\ IF jobs[pend.id] = NoJob          \* the job turned out to be finished: "no such job"
     THEN /\ mode' = "prompt" /\ last' = [a |-> "resume", kind |-> pend.kind, id |-> pend.id, gone |-> TRUE]
          /\ UNCHANGED <<kst, krep, jobs, fg, tty, known>>
     ELSE LET j == jobs[pend.id] ps == GroupOf(j.gid) IN
          /\ kst'  = [p \in Pids |-> IF p \in ps /\ kst[p] = "stopped" THEN "running" ELSE kst[p]]
          /\ krep' = [p \in Pids |-> IF p \in ps /\ kst[p] = "stopped" THEN "continued" ELSE krep[p]]
          /\ known' = [p \in Pids |-> IF p \in SeqToSet(j.pids) THEN "continued" ELSE known[p]]  \* the shell restarts the job: what it knew is void
          /\ last' = [a |-> "resume", kind |-> pend.kind, id |-> pend.id, gone |-> FALSE, gid |-> j.gid, pids |-> j.pids]
          /\ IF pend.kind = "fg"
             THEN /\ jobs' = MarkRunning(jobs, j.gid, FALSE)
                  /\ mode' = "fg" /\ tty' = j.gid
                  /\ fg'   = [NoFg EXCEPT !.gid = j.gid, !.pids = j.pids, !.viafg = TRUE]
             ELSE /\ jobs' = IF j.status = "Running" THEN jobs ELSE MarkRunning(jobs, j.gid, TRUE)
                  /\ mode' = "prompt" /\ UNCHANGED <<fg, tty>>
  /\ UNCHANGED <<reapm, stopm, contm, killm, launched, nev, nbi, retok, stok, idok>>

Next ==
  \/ \E d \in 1..Len(JobDefs) : Launch(d)
  \/ \E p \in Pids : KStop(p) \/ KCont(p) \/ KExit(p) \/ KKill(p) \/ FgStep(p)
  \/ FgEchild
  \/ FgPollEmpty
  \/ Poll
  \/ \E i \in JobIds : Builtin("fg", i) \/ Builtin("bg", i)
  \/ Resume

Spec == Init /\ [][Next]_vars

-----------------------------------------------------------------------------
(* Properties of C06, all against kernel truth *)
Listed(i)     == jobs[i] # NoJob
ListedPids    == UNION {SeqToSet(jobs[i].pids) : i \in {k \in JobIds : Listed(k)}}
ParkedListed  == (reapm \cup stopm \cup contm \cup killm) \cap ListedPids
Stable        == mode = "prompt" /\ (\A p \in Pids : ~Reportable(p)) /\ ParkedListed = {}

\* the table lists exactly the live processes
TableMatchesLive ==
  Stable => /\ \A i \in JobIds : Listed(i) => \A k \in 1..Len(jobs[i].pids) : Live(jobs[i].pids[k])
            /\ \A p \in Pids : Live(p) => p \in ListedPids
\* Stopped precisely when all live processes of the job are stopped
StatusMatches ==
  Stable => \A i \in JobIds : Listed(i) =>
     LET lp == {p \in SeqToSet(jobs[i].pids) : Live(p)} IN
     lp # {} => ((jobs[i].status = "Stopped") <=> (\A p \in lp : kst[p] = "stopped"))
UniqueIds        == \A i, k \in JobIds : (Listed(i) /\ Listed(k) /\ jobs[i].gid = jobs[k].gid) => i = k
IdsSmallestFree  == idok
ReturnedWhenDue  == retok
StatusOfLast     == stok
FgDue            == \A p \in SeqToSet(fg.pids) : Settled(known[p])
NoOverWait       == (mode = "fg" /\ ~fg.poll) => ~FgDue      \* a blocking waitpid is issued only while some member has not settled
PollOnlyWhenDue  == (mode = "fg" /\ fg.poll) => (FgDue /\ \E q \in SeqToSet(fg.pids) : known[q] = "stopped")
\* an event parked for a listed pid is applied by the next poll or the one after: two polls in a
\* row with no kernel activity in between leave nothing parked for a listed pid
NoStuckEvent     == (last.a = "poll" /\ last.R = {} /\ \A p \in Pids : ~Reportable(p)) => ParkedListed = {}
\* C07, process side: the terminal is the shell's at the prompt, the foreground job's while it runs
TtyAtPrompt      == mode = "prompt" => tty = ShellPg
TtyInFg          == mode = "fg" => tty = fg.gid
=============================================================================
