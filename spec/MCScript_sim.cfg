SPECIFICATION Spec
CONSTANTS
  MaxLines = 12
  MaxAns = 2
  ForCounts = {0, 1, 2}
  MinLines = 7
INVARIANT Agree
INVARIANT Emit
CHECK_DEADLOCK FALSE
