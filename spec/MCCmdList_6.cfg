SPECIFICATION Spec
CONSTANT MaxN = 6
CONSTANT MinN = 1
CONSTANT OnSkip = "continue"
INVARIANT RanIsPrefix
INVARIANT Correct
INVARIANT AfterSemi
INVARIANT FirstRuns
INVARIANT Emit
PROPERTY Terminates
CHECK_DEADLOCK FALSE
