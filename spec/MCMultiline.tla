----------------------------- MODULE MCMultiline -----------------------------
(* two or three physical lines, each up to MaxPiece characters over quotes, backslash, pipe, blank, `>` and a letter *)
EXTENDS Multiline, Json
CONSTANTS MaxPiece, MaxPieces
VARIABLES pieces, cur, done
vars == <<pieces, cur, done>>
MAlphabet == {"a", " ", "'", "\"", "\\", "|", ">"}
Init == pieces = <<>> /\ cur = <<>> /\ done = FALSE
Type(c) == ~done /\ Len(cur) < MaxPiece /\ cur' = Append(cur, c) /\ UNCHANGED <<pieces, done>>
\* Enter: the editor decides
Enter == /\ ~done /\ cur # <<>>
         /\ LET ps == Append(pieces, cur) IN
            IF Tz!Complete(BufferOf(ps, Len(ps))) THEN pieces' = ps /\ cur' = <<>> /\ done' = TRUE
            ELSE Len(ps) < MaxPieces /\ pieces' = ps /\ cur' = <<>> /\ done' = FALSE
Next == (\E c \in MAlphabet : Type(c)) \/ Enter
Spec == Init /\ [][Next]_vars
Str(s) == FoldLeft(LAMBDA a, c : a \o c, "", s)
Buf == BufferOf(pieces, Len(pieces))
Case == [buf |-> Str(Buf), trimmed |-> Str(Trim(Buf)), pieces |-> [k \in 1..Len(pieces) |-> Str(pieces[k])], joined |-> Str(Joined(pieces, Len(pieces))), edge |-> QuoteEdge(pieces)]
Emit == done => PrintT(<<"REPLAY", ToJson(Case)>>)
JoinTheorem == done => JoinOK(pieces)
=============================================================================
