------------------------------ MODULE MCRobust ------------------------------
(* C05 enumerator: every string over Alphabet up to MaxLen, classified by the reference
   reader (Read is total: it assigns a structure and a final mode to every string - TLC
   evaluates it on every string, so a gap in the reference would stop the run).        *)
EXTENDS ShellLex, Json
CONSTANTS MaxLen, Alphabet
AQuote == {"a", " ", "'", "\"", "`", "\\", "$", "(", ")", "{", "}", "|", "&", ";"}
ARedir == {"a", "1", " ", ">", "<", "&", "|", ";", "#", "*", "{", ",", "}", "."}
AArith == {"1", "9", ".", "+", "-", "*", "/", "^", "(", ")", " ", "e", "~", "="}
AMulti == {"a", "U", "W", " ", "'", "\"", "\\", "$", "(", ")", "|", "&", ";", "#"}      \* U, W = two multi-byte characters
AAll   == AQuote \cup ARedir \cup AArith \cup {"U", "W", "T", "!", "?", "[", "]", "%"}
VARIABLES txt, done
vars == <<txt, done>>
Init == txt = <<>> /\ done = FALSE
Add(c) == ~done /\ Len(txt) < MaxLen /\ txt' = Append(txt, c) /\ UNCHANGED done
Finish == ~done /\ done' = TRUE /\ UNCHANGED txt
Next == (\E c \in Alphabet : Add(c)) \/ Finish
Spec == Init /\ [][Next]_vars
Str(s) == FoldLeft(LAMBDA a, c : a \o c, "", s)
R == Read(txt)
Total == done => R.mode \in {"U", "S", "D", "E", "DE"}
\* a line the reference reads completely ends in mode U; every other mode is an open quote / dangling backslash
Case == [s |-> Str(txt), complete |-> R.mode = "U", nseg |-> Len(R.segs)]
Emit == done => PrintT(<<"REPLAY", ToJson(Case)>>)
\* simulation mode: a behaviour that reached the length bound is a case as well
EmitSim == (Len(txt) = MaxLen /\ ~done) => PrintT(<<"REPLAY", ToJson(Case)>>)
=============================================================================
