SPECIFICATION Spec
CONSTANT MaxLen = 3
CONSTANT Alphabet <- FullAlphabet
CONSTANT Styles <- AllStyles
INVARIANT Correct
INVARIANT Emit
CHECK_DEADLOCK FALSE
