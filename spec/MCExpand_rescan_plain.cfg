SPECIFICATION Spec
CONSTANT Mode = "rescan"
CONSTANT MaxSegs = 2
CONSTANT ValsA <- VA_plain
CONSTANT ValsB <- VB_plain
INVARIANT Exact
INVARIANT Progress
INVARIANT Emit
PROPERTY Terminates
CHECK_DEADLOCK FALSE
