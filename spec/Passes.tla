------------------------------- MODULE Passes -------------------------------
(* shell.rs::do_expansion as what it is: a sequence of PASSES over the same tokens
       variables -> brace lists -> (file names) -> command substitutions -> ranges
   each of which looks for its own syntax in the text of every token and splices what it
   produces back into that text.  A word is a sequence of atoms:
       lit       a typed literal character
       ref(v)    a typed $NAME whose value is the character sequence v
       sub(o)    a typed $(cmd) whose output is o
       grp       a typed brace list {a,b}
   and produced text (values, outputs) is made of the characters
       "a"  plain text      "G"  text that looks like a brace list      "C"  text that looks like $(cmd)
   Mode "rescan" is the code as pinned: a later pass cannot tell typed syntax from produced text, so a
   value "G" becomes a list and a value "C" RUNS a command.  Mode "masked" is the repaired code:
   produced text is masked for the later passes (private-use characters) and restored at the end, so a
   pass only ever sees typed syntax.  The reference (C10, C11, C13: an inserted value / output is
   literal text) is the single simultaneous reading: every typed atom is replaced by its meaning once.
   TLC refutes Exact and NoHiddenCommand for "rescan" and proves them for "masked" on every word of up to
   MaxAtoms atoms; the binding to the binary is C13's payloads that look like another expansion, C10's
   values and C11's outputs of the same kind.                                                  *)
EXTENDS Naturals, Sequences, FiniteSets, TLC

CONSTANTS Mode, MaxAtoms
Texts == {<<"a">>, <<"G">>, <<"C">>, <<"a", "G">>, <<"C", "a">>}
Atoms == {[k |-> "lit"]} \cup {[k |-> "ref", v |-> t] : t \in Texts} \cup {[k |-> "sub", v |-> t] : t \in Texts} \cup {[k |-> "grp"]}

\* a token under expansion: a sequence of cells [kind, c, v, typed]: kind "ch" is a character c, the other kinds are typed atoms
Ch(c, typed) == [kind |-> "ch", c |-> c, v |-> <<>>, typed |-> typed]
TypedCells(atom) == IF atom.k = "lit" THEN <<Ch("a", TRUE)>>
                    ELSE IF atom.k = "grp" THEN <<[kind |-> "grp", c |-> "", v |-> <<>>, typed |-> TRUE]>>
                    ELSE <<[kind |-> atom.k, c |-> "", v |-> atom.v, typed |-> TRUE]>>
ProducedCells(t) == [i \in 1..Len(t) |-> Ch(t[i], FALSE)]
RECURSIVE CellsOf(_)
CellsOf(w) == IF w = <<>> THEN <<>> ELSE TypedCells(w[1]) \o CellsOf(Tail(w))

Sees(cell) == Mode = "rescan" \/ cell.typed           \* what a later pass takes for syntax

\* ---- the passes (a word list: a sequence of cell sequences)
RECURSIVE EnvPass(_)
EnvPass(cs) == IF cs = <<>> THEN <<>>
               ELSE IF cs[1].kind = "ref" THEN ProducedCells(cs[1].v) \o EnvPass(Tail(cs))
               ELSE <<cs[1]>> \o EnvPass(Tail(cs))
IsList(cell) == cell.kind = "grp" \/ (cell.kind = "ch" /\ ~cell.typed /\ cell.c = "G" /\ Sees(cell))
\* brace pass: the leftmost list cell splits the word in two (its two alternatives are plain characters)
RECURSIVE BracePass(_)
BracePass(cs) ==
  IF \E i \in 1..Len(cs) : IsList(cs[i])
  THEN LET i == CHOOSE k \in 1..Len(cs) : IsList(cs[k]) /\ \A j \in 1..(k - 1) : ~IsList(cs[j])
           mk(x) == SubSeq(cs, 1, i - 1) \o <<Ch(x, FALSE)>> \o SubSeq(cs, i + 1, Len(cs))
       IN BracePass(mk("a")) \o BracePass(mk("b"))
  ELSE <<cs>>
IsCmd(cell) == cell.kind = "sub" \/ (cell.kind = "ch" /\ ~cell.typed /\ cell.c = "C" /\ Sees(cell))
RECURSIVE SubstPass(_)
SubstPass(cs) == IF cs = <<>> THEN [cells |-> <<>>, hidden |-> 0]
                 ELSE LET r == SubstPass(Tail(cs)) IN
                      IF IsCmd(cs[1])
                      THEN IF cs[1].kind = "sub" THEN [cells |-> ProducedCells(cs[1].v) \o r.cells, hidden |-> r.hidden]
                           ELSE [cells |-> r.cells, hidden |-> r.hidden + 1]                \* produced text was run as a command
                      ELSE [cells |-> <<cs[1]>> \o r.cells, hidden |-> r.hidden]

\* the brace pass runs BEFORE the substitution pass; a list that a substitution produces is seen by the range pass (same rule)
Expand(w) ==
  LET e  == EnvPass(CellsOf(w))
      bs == BracePass(e)
      ss == [k \in 1..Len(bs) |-> SubstPass(bs[k])]
      rs == [k \in 1..Len(ss) |-> BracePass(ss[k].cells)]                \* ranges: the same recogniser, after the substitutions
  IN [words  |-> [k \in 1..Len(rs) |-> rs[k]],
      hidden |-> IF \E k \in 1..Len(ss) : ss[k].hidden > 0 THEN 1 ELSE 0,
      nwords |-> LET RECURSIVE Sum(_) Sum(k) == IF k = 0 THEN 0 ELSE Len(rs[k]) + Sum(k - 1) IN Sum(Len(rs))]

\* ---- reference: typed lists split the word, everything produced is literal
RefWords(w) == LET n == Cardinality({i \in 1..Len(w) : w[i].k = "grp"}) IN 2 ^ n
VARIABLES w, done
vars == <<w, done>>
Init == w = <<>> /\ done = FALSE
Add(a) == ~done /\ Len(w) < MaxAtoms /\ w' = Append(w, a) /\ UNCHANGED done
Finish == ~done /\ w # <<>> /\ done' = TRUE /\ UNCHANGED w
Next == (\E a \in Atoms : Add(a)) \/ Finish
Spec == Init /\ [][Next]_vars
NoHiddenCommand == done => Expand(w).hidden = 0
Exact == done => Expand(w).nwords = RefWords(w)
=============================================================================
