------------------------------ MODULE ShellLex ------------------------------
(* Reference reader of the command language (the fragment the properties talk about).

   Text is a sequence of one-character strings.  Placeholders: "T" = TAB, "U" and "W"
   = two multi-byte characters (mapped by the harness).  A *tagged character* is
   <<c, q>> with q \in {"bare","sq","dq","dqe","esc","exp"}: how the character came to be
   in the word (unquoted, inside single quotes, inside double quotes, after a
   backslash, produced by an expansion).

   Read(line) folds StepR over the characters and yields the list structure:
     segs : sequence of [stages, op, bg]   op \in {";","&&","||",""} follows the segment
     stage: [words, redirs]                words = sequences of tagged characters,
                                           redirs = number of bare < > seen
   Operators are recognised only on bare characters in mode U -- that single fact is
   the reference side of C01 ("no quoted or escaped character is acted on as an
   operator") and C13.                                                           *)
EXTENDS Naturals, Sequences, FiniteSets, TLC, SequencesExt

Meta  == {"|", "&", ";", "<", ">", "(", ")", "$", "`", "\\", "\"", "'", "*", "?", "[", "]",
          "{", "}", ",", "~", "#", "!", "=", "%", "^", " ", "T"}
Plain == {"a", "U", "W"}

Tag(t, q)  == [i \in 1..Len(t) |-> <<t[i], q>>]
Untag(w)   == [i \in 1..Len(w) |-> w[i][1]]

\* ---- rendering an argument text in one of the three styles of C01 ----
Render(t, st) ==
  CASE st = "sq" -> <<"'">> \o t \o <<"'">>
    [] st = "dq" -> <<"\"">> \o t \o <<"\"">>
    [] st = "bs" -> FoldLeft(LAMBDA acc, c : IF c \in Meta THEN acc \o <<"\\", c>> ELSE Append(acc, c), <<>>, t)
\* what the reader must produce for it
Tagged(t, st) ==
  CASE st = "sq" -> Tag(t, "sq")
    [] st = "dq" -> Tag(t, "dq")
    [] st = "bs" -> [i \in 1..Len(t) |-> <<t[i], IF t[i] \in Meta THEN "esc" ELSE "bare">>]
OkChar(c, st) == CASE st = "sq" -> c # "'"
                   [] st = "dq" -> c \notin {"$", "`", "\\", "\""}
                   [] st = "bs" -> TRUE
OkText(t, st) == (\A i \in 1..Len(t) : OkChar(t[i], st)) /\ (st = "bs" => Len(t) > 0)

\* ---- the reader ----
EmptyStage == [words |-> <<>>, redirs |-> 0]
R0 == [mode |-> "U", pend |-> "", cur |-> <<>>, have |-> FALSE, stage |-> EmptyStage,
       stages |-> <<>>, segs |-> <<>>, bg |-> FALSE, comment |-> FALSE, badop |-> FALSE]

EndWord(s)  == IF s.have THEN [s EXCEPT !.stage.words = Append(@, s.cur), !.cur = <<>>, !.have = FALSE] ELSE s
EndStage(s) == LET e == EndWord(s) IN [e EXCEPT !.stages = Append(@, e.stage), !.stage = EmptyStage]
EndSeg(s, op) == LET e == EndStage(s) IN
                   [e EXCEPT !.segs = Append(@, [stages |-> e.stages, op |-> op, bg |-> e.bg]),
                             !.stages = <<>>, !.bg = FALSE]

\* a pending single | or & turned out not to be doubled
FlushPend(s) == CASE s.pend = "|" -> [EndStage(s) EXCEPT !.pend = ""]
                  [] s.pend = "&" -> [EndWord(s) EXCEPT !.pend = "", !.bg = TRUE]
                  [] OTHER -> s

StepU(s, c) ==
  CASE c = "'"  -> [s EXCEPT !.mode = "S", !.have = TRUE]
    [] c = "\"" -> [s EXCEPT !.mode = "D", !.have = TRUE]
    [] c = "\\" -> [s EXCEPT !.mode = "E"]
    [] c = " "  -> EndWord(s)
    [] c = "|"  -> [s EXCEPT !.pend = "|"]
    [] c = "&"  -> [s EXCEPT !.pend = "&"]
    [] c = ";"  -> EndSeg(s, ";")
    [] c \in {"<", ">"} -> [EndWord(s) EXCEPT !.stage.redirs = @ + 1]
    [] c = "#" /\ ~s.have -> [s EXCEPT !.comment = TRUE]
    [] OTHER -> [s EXCEPT !.cur = Append(@, <<c, "bare">>), !.have = TRUE]

StepR(s, c) ==
  IF s.comment THEN s
  ELSE CASE s.mode = "S"  -> IF c = "'" THEN [s EXCEPT !.mode = "U"] ELSE [s EXCEPT !.cur = Append(@, <<c, "sq">>)]
         [] s.mode = "D"  -> IF c = "\"" THEN [s EXCEPT !.mode = "U"]
                             ELSE IF c = "\\" THEN [s EXCEPT !.mode = "DE"]
                             ELSE [s EXCEPT !.cur = Append(@, <<c, "dq">>)]
         [] s.mode = "DE" -> IF c \in {"\"", "\\", "$", "`"}
                             THEN [s EXCEPT !.mode = "D", !.cur = Append(@, <<c, "dqe">>)]   \* escaped inside double quotes
                             ELSE [s EXCEPT !.mode = "D", !.cur = @ \o << <<"\\", "dq">>, <<c, "dq">> >>]
         [] s.mode = "E"  -> [s EXCEPT !.mode = "U", !.cur = Append(@, <<c, "esc">>), !.have = TRUE]
         [] s.mode = "U"  ->
              IF s.pend # "" /\ c = s.pend
              THEN [EndSeg([s EXCEPT !.pend = ""], IF c = "|" THEN "||" ELSE "&&") EXCEPT !.pend = ""]
              ELSE StepU(FlushPend(s), c)

Read(line) == LET s == FlushPend(FoldLeft(StepR, R0, line))
                  e == EndStage(s)
              IN [segs   |-> IF e.stages = <<EmptyStage>> /\ e.segs # <<>> /\ ~e.bg
                             THEN e.segs      \* nothing after the last operator
                             ELSE Append(e.segs, [stages |-> e.stages, op |-> "", bg |-> e.bg]),
                  mode   |-> s.mode]

\* projections used by the theorems and by the emitted test cases
ArgvOf(stage) == [i \in 1..Len(stage.words) |-> Untag(stage.words[i])]
=============================================================================
