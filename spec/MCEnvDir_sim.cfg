SPECIFICATION SSpec
CONSTANTS Names = {"A", "B", "AB", "_x"} Values = {"", "v w", "p=q:r", "q'r", "x", "a>b"} MaxOps = 999 WalkLen = 30
INVARIANT SAgree
INVARIANT Emit
CONSTANT ReadShapes <- ShapesSim
CONSTANT ReadMax = 4
CONSTANT PairShapes <- PairsSim
CHECK_DEADLOCK FALSE
