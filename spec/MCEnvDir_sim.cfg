SPECIFICATION SSpec
CONSTANTS Names = {"A", "B", "AB", "_x"} Values = {"", "v w", "p=q:r", "q'r", "x"} MaxOps = 999 WalkLen = 30
INVARIANT SAgree
INVARIANT Emit
CHECK_DEADLOCK FALSE
