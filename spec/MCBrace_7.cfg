SPECIFICATION Spec
CONSTANT MaxLen = 7
INVARIANT Emit
INVARIANT NoGroupIdentity
INVARIANT NonEmpty
CHECK_DEADLOCK FALSE
