---- MODULE MCPipeline_TTrace_1791161874 ----
EXTENDS Sequences, TLCExt, MCPipeline, Toolbox, Naturals, TLC

_expression ==
    LET MCPipeline_TEExpression == INSTANCE MCPipeline_TEExpression
    IN MCPipeline_TEExpression!expression
----

_trace ==
    LET MCPipeline_TETrace == INSTANCE MCPipeline_TETrace
    IN MCPipeline_TETrace!trace
----

_inv ==
    ~(
        TLCGet("level") = Len(_TETrace)
        /\
        buf = (<<0, 0, 0, 0>>)
        /\
        alive = ((0 :> "run" @@ 1 :> "run" @@ 2 :> "run" @@ 3 :> "run"))
        /\
        reaped = (0)
        /\
        left = (<<2, 0, 0>>)
        /\
        fdt = ((0 :> (0 :> <<"tty", 0>> @@ 1 :> <<"tty", 0>> @@ 2 :> <<"tty", 0>> @@ 7 :> <<"r", 3>> @@ 9 :> <<"r", 4>>) @@ 1 :> (0 :> <<"tty", 0>> @@ 1 :> <<"tty", 0>> @@ 2 :> <<"tty", 0>> @@ 3 :> <<"r", 1>> @@ 4 :> <<"w", 1>> @@ 5 :> <<"r", 2>> @@ 6 :> <<"w", 2>> @@ 7 :> <<"r", 3>> @@ 8 :> <<"w", 3>> @@ 9 :> <<"r", 4>> @@ 10 :> <<"w", 4>>) @@ 2 :> (0 :> <<"tty", 0>> @@ 1 :> <<"tty", 0>> @@ 2 :> <<"tty", 0>> @@ 3 :> <<"r", 1>> @@ 5 :> <<"r", 2>> @@ 6 :> <<"w", 2>> @@ 7 :> <<"r", 3>> @@ 8 :> <<"w", 3>> @@ 9 :> <<"r", 4>> @@ 10 :> <<"w", 4>>) @@ 3 :> (0 :> <<"tty", 0>> @@ 1 :> <<"tty", 0>> @@ 2 :> <<"tty", 0>> @@ 5 :> <<"r", 2>> @@ 7 :> <<"r", 3>> @@ 8 :> <<"w", 3>> @@ 9 :> <<"r", 4>> @@ 10 :> <<"w", 4>>)))
        /\
        cpc = (<<"left", "left", "left">>)
        /\
        spc = (<<"capread", 3>>)
        /\
        nextfd = (0)
        /\
        got = (<<0, 0, 0>>)
        /\
        status = (<<"none", "none", "none">>)
    )
----

_init ==
    /\ alive = _TETrace[1].alive
    /\ fdt = _TETrace[1].fdt
    /\ reaped = _TETrace[1].reaped
    /\ left = _TETrace[1].left
    /\ buf = _TETrace[1].buf
    /\ nextfd = _TETrace[1].nextfd
    /\ got = _TETrace[1].got
    /\ cpc = _TETrace[1].cpc
    /\ spc = _TETrace[1].spc
    /\ status = _TETrace[1].status
----

_next ==
    /\ \E i,j \in DOMAIN _TETrace:
        /\ \/ /\ j = i + 1
              /\ i = TLCGet("level")
        /\ alive  = _TETrace[i].alive
        /\ alive' = _TETrace[j].alive
        /\ fdt  = _TETrace[i].fdt
        /\ fdt' = _TETrace[j].fdt
        /\ reaped  = _TETrace[i].reaped
        /\ reaped' = _TETrace[j].reaped
        /\ left  = _TETrace[i].left
        /\ left' = _TETrace[j].left
        /\ buf  = _TETrace[i].buf
        /\ buf' = _TETrace[j].buf
        /\ nextfd  = _TETrace[i].nextfd
        /\ nextfd' = _TETrace[j].nextfd
        /\ got  = _TETrace[i].got
        /\ got' = _TETrace[j].got
        /\ cpc  = _TETrace[i].cpc
        /\ cpc' = _TETrace[j].cpc
        /\ spc  = _TETrace[i].spc
        /\ spc' = _TETrace[j].spc
        /\ status  = _TETrace[i].status
        /\ status' = _TETrace[j].status

\* Uncomment the ASSUME below to write the states of the error trace
\* to the given file in Json format. Note that you can pass any tuple
\* to `JsonSerialize`. For example, a sub-sequence of _TETrace.
    \* ASSUME
    \*     LET J == INSTANCE Json
    \*         IN J!JsonSerialize("MCPipeline_TTrace_1791161874.json", _TETrace)

=============================================================================

 Note that you can extract this module `MCPipeline_TEExpression`
  to a dedicated file to reuse `expression` (the module in the 
  dedicated `MCPipeline_TEExpression.tla` file takes precedence 
  over the module `MCPipeline_TEExpression` below).

---- MODULE MCPipeline_TEExpression ----
EXTENDS Sequences, TLCExt, MCPipeline, Toolbox, Naturals, TLC

expression == 
    [
        \* To hide variables of the `MCPipeline` spec from the error trace,
        \* remove the variables below.  The trace will be written in the order
        \* of the fields of this record.
        alive |-> alive
        ,fdt |-> fdt
        ,reaped |-> reaped
        ,left |-> left
        ,buf |-> buf
        ,nextfd |-> nextfd
        ,got |-> got
        ,cpc |-> cpc
        ,spc |-> spc
        ,status |-> status
        
        \* Put additional constant-, state-, and action-level expressions here:
        \* ,_stateNumber |-> _TEPosition
        \* ,_aliveUnchanged |-> alive = alive'
        
        \* Format the `alive` variable as Json value.
        \* ,_aliveJson |->
        \*     LET J == INSTANCE Json
        \*     IN J!ToJson(alive)
        
        \* Lastly, you may build expressions over arbitrary sets of states by
        \* leveraging the _TETrace operator.  For example, this is how to
        \* count the number of times a spec variable changed up to the current
        \* state in the trace.
        \* ,_aliveModCount |->
        \*     LET F[s \in DOMAIN _TETrace] ==
        \*         IF s = 1 THEN 0
        \*         ELSE IF _TETrace[s].alive # _TETrace[s-1].alive
        \*             THEN 1 + F[s-1] ELSE F[s-1]
        \*     IN F[_TEPosition - 1]
    ]

=============================================================================



Parsing and semantic processing can take forever if the trace below is long.
 In this case, it is advised to uncomment the module below to deserialize the
 trace from a generated binary file.

\*
\*---- MODULE MCPipeline_TETrace ----
\*EXTENDS IOUtils, MCPipeline, TLC
\*
\*trace == IODeserialize("MCPipeline_TTrace_1791161874.bin", TRUE)
\*
\*=============================================================================
\*

---- MODULE MCPipeline_TETrace ----
EXTENDS MCPipeline, TLC

trace == 
    <<
    ([buf |-> <<0, 0, 0, 0>>,alive |-> (0 :> "run" @@ 1 :> "unborn" @@ 2 :> "unborn" @@ 3 :> "unborn"),reaped |-> 0,left |-> <<2, 0, 0>>,fdt |-> (0 :> (0 :> <<"tty", 0>> @@ 1 :> <<"tty", 0>> @@ 2 :> <<"tty", 0>>) @@ 1 :> <<>> @@ 2 :> <<>> @@ 3 :> <<>>),cpc |-> <<"none", "none", "none">>,spc |-> <<"mkpipe", 1>>,nextfd |-> 0,got |-> <<0, 0, 0>>,status |-> <<"none", "none", "none">>]),
    ([buf |-> <<0, 0, 0, 0>>,alive |-> (0 :> "run" @@ 1 :> "unborn" @@ 2 :> "unborn" @@ 3 :> "unborn"),reaped |-> 0,left |-> <<2, 0, 0>>,fdt |-> (0 :> (0 :> <<"tty", 0>> @@ 1 :> <<"tty", 0>> @@ 2 :> <<"tty", 0>> @@ 3 :> <<"r", 1>> @@ 4 :> <<"w", 1>>) @@ 1 :> <<>> @@ 2 :> <<>> @@ 3 :> <<>>),cpc |-> <<"none", "none", "none">>,spc |-> <<"mkpipe", 2>>,nextfd |-> 0,got |-> <<0, 0, 0>>,status |-> <<"none", "none", "none">>]),
    ([buf |-> <<0, 0, 0, 0>>,alive |-> (0 :> "run" @@ 1 :> "unborn" @@ 2 :> "unborn" @@ 3 :> "unborn"),reaped |-> 0,left |-> <<2, 0, 0>>,fdt |-> (0 :> (0 :> <<"tty", 0>> @@ 1 :> <<"tty", 0>> @@ 2 :> <<"tty", 0>> @@ 3 :> <<"r", 1>> @@ 4 :> <<"w", 1>> @@ 5 :> <<"r", 2>> @@ 6 :> <<"w", 2>>) @@ 1 :> <<>> @@ 2 :> <<>> @@ 3 :> <<>>),cpc |-> <<"none", "none", "none">>,spc |-> <<"mkcap", 0>>,nextfd |-> 0,got |-> <<0, 0, 0>>,status |-> <<"none", "none", "none">>]),
    ([buf |-> <<0, 0, 0, 0>>,alive |-> (0 :> "run" @@ 1 :> "unborn" @@ 2 :> "unborn" @@ 3 :> "unborn"),reaped |-> 0,left |-> <<2, 0, 0>>,fdt |-> (0 :> (0 :> <<"tty", 0>> @@ 1 :> <<"tty", 0>> @@ 2 :> <<"tty", 0>> @@ 3 :> <<"r", 1>> @@ 4 :> <<"w", 1>> @@ 5 :> <<"r", 2>> @@ 6 :> <<"w", 2>> @@ 7 :> <<"r", 3>> @@ 8 :> <<"w", 3>> @@ 9 :> <<"r", 4>> @@ 10 :> <<"w", 4>>) @@ 1 :> <<>> @@ 2 :> <<>> @@ 3 :> <<>>),cpc |-> <<"none", "none", "none">>,spc |-> <<"fork", 1>>,nextfd |-> 0,got |-> <<0, 0, 0>>,status |-> <<"none", "none", "none">>]),
    ([buf |-> <<0, 0, 0, 0>>,alive |-> (0 :> "run" @@ 1 :> "run" @@ 2 :> "unborn" @@ 3 :> "unborn"),reaped |-> 0,left |-> <<2, 0, 0>>,fdt |-> (0 :> (0 :> <<"tty", 0>> @@ 1 :> <<"tty", 0>> @@ 2 :> <<"tty", 0>> @@ 3 :> <<"r", 1>> @@ 4 :> <<"w", 1>> @@ 5 :> <<"r", 2>> @@ 6 :> <<"w", 2>> @@ 7 :> <<"r", 3>> @@ 8 :> <<"w", 3>> @@ 9 :> <<"r", 4>> @@ 10 :> <<"w", 4>>) @@ 1 :> (0 :> <<"tty", 0>> @@ 1 :> <<"tty", 0>> @@ 2 :> <<"tty", 0>> @@ 3 :> <<"r", 1>> @@ 4 :> <<"w", 1>> @@ 5 :> <<"r", 2>> @@ 6 :> <<"w", 2>> @@ 7 :> <<"r", 3>> @@ 8 :> <<"w", 3>> @@ 9 :> <<"r", 4>> @@ 10 :> <<"w", 4>>) @@ 2 :> <<>> @@ 3 :> <<>>),cpc |-> <<"left", "none", "none">>,spc |-> <<"pclosew", 1>>,nextfd |-> 0,got |-> <<0, 0, 0>>,status |-> <<"none", "none", "none">>]),
    ([buf |-> <<0, 0, 0, 0>>,alive |-> (0 :> "run" @@ 1 :> "run" @@ 2 :> "unborn" @@ 3 :> "unborn"),reaped |-> 0,left |-> <<2, 0, 0>>,fdt |-> (0 :> (0 :> <<"tty", 0>> @@ 1 :> <<"tty", 0>> @@ 2 :> <<"tty", 0>> @@ 3 :> <<"r", 1>> @@ 5 :> <<"r", 2>> @@ 6 :> <<"w", 2>> @@ 7 :> <<"r", 3>> @@ 8 :> <<"w", 3>> @@ 9 :> <<"r", 4>> @@ 10 :> <<"w", 4>>) @@ 1 :> (0 :> <<"tty", 0>> @@ 1 :> <<"tty", 0>> @@ 2 :> <<"tty", 0>> @@ 3 :> <<"r", 1>> @@ 4 :> <<"w", 1>> @@ 5 :> <<"r", 2>> @@ 6 :> <<"w", 2>> @@ 7 :> <<"r", 3>> @@ 8 :> <<"w", 3>> @@ 9 :> <<"r", 4>> @@ 10 :> <<"w", 4>>) @@ 2 :> <<>> @@ 3 :> <<>>),cpc |-> <<"left", "none", "none">>,spc |-> <<"pcloser", 1>>,nextfd |-> 0,got |-> <<0, 0, 0>>,status |-> <<"none", "none", "none">>]),
    ([buf |-> <<0, 0, 0, 0>>,alive |-> (0 :> "run" @@ 1 :> "run" @@ 2 :> "unborn" @@ 3 :> "unborn"),reaped |-> 0,left |-> <<2, 0, 0>>,fdt |-> (0 :> (0 :> <<"tty", 0>> @@ 1 :> <<"tty", 0>> @@ 2 :> <<"tty", 0>> @@ 3 :> <<"r", 1>> @@ 5 :> <<"r", 2>> @@ 6 :> <<"w", 2>> @@ 7 :> <<"r", 3>> @@ 8 :> <<"w", 3>> @@ 9 :> <<"r", 4>> @@ 10 :> <<"w", 4>>) @@ 1 :> (0 :> <<"tty", 0>> @@ 1 :> <<"tty", 0>> @@ 2 :> <<"tty", 0>> @@ 3 :> <<"r", 1>> @@ 4 :> <<"w", 1>> @@ 5 :> <<"r", 2>> @@ 6 :> <<"w", 2>> @@ 7 :> <<"r", 3>> @@ 8 :> <<"w", 3>> @@ 9 :> <<"r", 4>> @@ 10 :> <<"w", 4>>) @@ 2 :> <<>> @@ 3 :> <<>>),cpc |-> <<"left", "none", "none">>,spc |-> <<"fork", 2>>,nextfd |-> 0,got |-> <<0, 0, 0>>,status |-> <<"none", "none", "none">>]),
    ([buf |-> <<0, 0, 0, 0>>,alive |-> (0 :> "run" @@ 1 :> "run" @@ 2 :> "run" @@ 3 :> "unborn"),reaped |-> 0,left |-> <<2, 0, 0>>,fdt |-> (0 :> (0 :> <<"tty", 0>> @@ 1 :> <<"tty", 0>> @@ 2 :> <<"tty", 0>> @@ 3 :> <<"r", 1>> @@ 5 :> <<"r", 2>> @@ 6 :> <<"w", 2>> @@ 7 :> <<"r", 3>> @@ 8 :> <<"w", 3>> @@ 9 :> <<"r", 4>> @@ 10 :> <<"w", 4>>) @@ 1 :> (0 :> <<"tty", 0>> @@ 1 :> <<"tty", 0>> @@ 2 :> <<"tty", 0>> @@ 3 :> <<"r", 1>> @@ 4 :> <<"w", 1>> @@ 5 :> <<"r", 2>> @@ 6 :> <<"w", 2>> @@ 7 :> <<"r", 3>> @@ 8 :> <<"w", 3>> @@ 9 :> <<"r", 4>> @@ 10 :> <<"w", 4>>) @@ 2 :> (0 :> <<"tty", 0>> @@ 1 :> <<"tty", 0>> @@ 2 :> <<"tty", 0>> @@ 3 :> <<"r", 1>> @@ 5 :> <<"r", 2>> @@ 6 :> <<"w", 2>> @@ 7 :> <<"r", 3>> @@ 8 :> <<"w", 3>> @@ 9 :> <<"r", 4>> @@ 10 :> <<"w", 4>>) @@ 3 :> <<>>),cpc |-> <<"left", "left", "none">>,spc |-> <<"pclosew", 2>>,nextfd |-> 0,got |-> <<0, 0, 0>>,status |-> <<"none", "none", "none">>]),
    ([buf |-> <<0, 0, 0, 0>>,alive |-> (0 :> "run" @@ 1 :> "run" @@ 2 :> "run" @@ 3 :> "unborn"),reaped |-> 0,left |-> <<2, 0, 0>>,fdt |-> (0 :> (0 :> <<"tty", 0>> @@ 1 :> <<"tty", 0>> @@ 2 :> <<"tty", 0>> @@ 3 :> <<"r", 1>> @@ 5 :> <<"r", 2>> @@ 7 :> <<"r", 3>> @@ 8 :> <<"w", 3>> @@ 9 :> <<"r", 4>> @@ 10 :> <<"w", 4>>) @@ 1 :> (0 :> <<"tty", 0>> @@ 1 :> <<"tty", 0>> @@ 2 :> <<"tty", 0>> @@ 3 :> <<"r", 1>> @@ 4 :> <<"w", 1>> @@ 5 :> <<"r", 2>> @@ 6 :> <<"w", 2>> @@ 7 :> <<"r", 3>> @@ 8 :> <<"w", 3>> @@ 9 :> <<"r", 4>> @@ 10 :> <<"w", 4>>) @@ 2 :> (0 :> <<"tty", 0>> @@ 1 :> <<"tty", 0>> @@ 2 :> <<"tty", 0>> @@ 3 :> <<"r", 1>> @@ 5 :> <<"r", 2>> @@ 6 :> <<"w", 2>> @@ 7 :> <<"r", 3>> @@ 8 :> <<"w", 3>> @@ 9 :> <<"r", 4>> @@ 10 :> <<"w", 4>>) @@ 3 :> <<>>),cpc |-> <<"left", "left", "none">>,spc |-> <<"pcloser", 2>>,nextfd |-> 0,got |-> <<0, 0, 0>>,status |-> <<"none", "none", "none">>]),
    ([buf |-> <<0, 0, 0, 0>>,alive |-> (0 :> "run" @@ 1 :> "run" @@ 2 :> "run" @@ 3 :> "unborn"),reaped |-> 0,left |-> <<2, 0, 0>>,fdt |-> (0 :> (0 :> <<"tty", 0>> @@ 1 :> <<"tty", 0>> @@ 2 :> <<"tty", 0>> @@ 5 :> <<"r", 2>> @@ 7 :> <<"r", 3>> @@ 8 :> <<"w", 3>> @@ 9 :> <<"r", 4>> @@ 10 :> <<"w", 4>>) @@ 1 :> (0 :> <<"tty", 0>> @@ 1 :> <<"tty", 0>> @@ 2 :> <<"tty", 0>> @@ 3 :> <<"r", 1>> @@ 4 :> <<"w", 1>> @@ 5 :> <<"r", 2>> @@ 6 :> <<"w", 2>> @@ 7 :> <<"r", 3>> @@ 8 :> <<"w", 3>> @@ 9 :> <<"r", 4>> @@ 10 :> <<"w", 4>>) @@ 2 :> (0 :> <<"tty", 0>> @@ 1 :> <<"tty", 0>> @@ 2 :> <<"tty", 0>> @@ 3 :> <<"r", 1>> @@ 5 :> <<"r", 2>> @@ 6 :> <<"w", 2>> @@ 7 :> <<"r", 3>> @@ 8 :> <<"w", 3>> @@ 9 :> <<"r", 4>> @@ 10 :> <<"w", 4>>) @@ 3 :> <<>>),cpc |-> <<"left", "left", "none">>,spc |-> <<"fork", 3>>,nextfd |-> 0,got |-> <<0, 0, 0>>,status |-> <<"none", "none", "none">>]),
    ([buf |-> <<0, 0, 0, 0>>,alive |-> (0 :> "run" @@ 1 :> "run" @@ 2 :> "run" @@ 3 :> "run"),reaped |-> 0,left |-> <<2, 0, 0>>,fdt |-> (0 :> (0 :> <<"tty", 0>> @@ 1 :> <<"tty", 0>> @@ 2 :> <<"tty", 0>> @@ 5 :> <<"r", 2>> @@ 7 :> <<"r", 3>> @@ 8 :> <<"w", 3>> @@ 9 :> <<"r", 4>> @@ 10 :> <<"w", 4>>) @@ 1 :> (0 :> <<"tty", 0>> @@ 1 :> <<"tty", 0>> @@ 2 :> <<"tty", 0>> @@ 3 :> <<"r", 1>> @@ 4 :> <<"w", 1>> @@ 5 :> <<"r", 2>> @@ 6 :> <<"w", 2>> @@ 7 :> <<"r", 3>> @@ 8 :> <<"w", 3>> @@ 9 :> <<"r", 4>> @@ 10 :> <<"w", 4>>) @@ 2 :> (0 :> <<"tty", 0>> @@ 1 :> <<"tty", 0>> @@ 2 :> <<"tty", 0>> @@ 3 :> <<"r", 1>> @@ 5 :> <<"r", 2>> @@ 6 :> <<"w", 2>> @@ 7 :> <<"r", 3>> @@ 8 :> <<"w", 3>> @@ 9 :> <<"r", 4>> @@ 10 :> <<"w", 4>>) @@ 3 :> (0 :> <<"tty", 0>> @@ 1 :> <<"tty", 0>> @@ 2 :> <<"tty", 0>> @@ 5 :> <<"r", 2>> @@ 7 :> <<"r", 3>> @@ 8 :> <<"w", 3>> @@ 9 :> <<"r", 4>> @@ 10 :> <<"w", 4>>)),cpc |-> <<"left", "left", "left">>,spc |-> <<"pclosew", 3>>,nextfd |-> 0,got |-> <<0, 0, 0>>,status |-> <<"none", "none", "none">>]),
    ([buf |-> <<0, 0, 0, 0>>,alive |-> (0 :> "run" @@ 1 :> "run" @@ 2 :> "run" @@ 3 :> "run"),reaped |-> 0,left |-> <<2, 0, 0>>,fdt |-> (0 :> (0 :> <<"tty", 0>> @@ 1 :> <<"tty", 0>> @@ 2 :> <<"tty", 0>> @@ 5 :> <<"r", 2>> @@ 7 :> <<"r", 3>> @@ 8 :> <<"w", 3>> @@ 9 :> <<"r", 4>> @@ 10 :> <<"w", 4>>) @@ 1 :> (0 :> <<"tty", 0>> @@ 1 :> <<"tty", 0>> @@ 2 :> <<"tty", 0>> @@ 3 :> <<"r", 1>> @@ 4 :> <<"w", 1>> @@ 5 :> <<"r", 2>> @@ 6 :> <<"w", 2>> @@ 7 :> <<"r", 3>> @@ 8 :> <<"w", 3>> @@ 9 :> <<"r", 4>> @@ 10 :> <<"w", 4>>) @@ 2 :> (0 :> <<"tty", 0>> @@ 1 :> <<"tty", 0>> @@ 2 :> <<"tty", 0>> @@ 3 :> <<"r", 1>> @@ 5 :> <<"r", 2>> @@ 6 :> <<"w", 2>> @@ 7 :> <<"r", 3>> @@ 8 :> <<"w", 3>> @@ 9 :> <<"r", 4>> @@ 10 :> <<"w", 4>>) @@ 3 :> (0 :> <<"tty", 0>> @@ 1 :> <<"tty", 0>> @@ 2 :> <<"tty", 0>> @@ 5 :> <<"r", 2>> @@ 7 :> <<"r", 3>> @@ 8 :> <<"w", 3>> @@ 9 :> <<"r", 4>> @@ 10 :> <<"w", 4>>)),cpc |-> <<"left", "left", "left">>,spc |-> <<"pcloser", 3>>,nextfd |-> 0,got |-> <<0, 0, 0>>,status |-> <<"none", "none", "none">>]),
    ([buf |-> <<0, 0, 0, 0>>,alive |-> (0 :> "run" @@ 1 :> "run" @@ 2 :> "run" @@ 3 :> "run"),reaped |-> 0,left |-> <<2, 0, 0>>,fdt |-> (0 :> (0 :> <<"tty", 0>> @@ 1 :> <<"tty", 0>> @@ 2 :> <<"tty", 0>> @@ 7 :> <<"r", 3>> @@ 8 :> <<"w", 3>> @@ 9 :> <<"r", 4>> @@ 10 :> <<"w", 4>>) @@ 1 :> (0 :> <<"tty", 0>> @@ 1 :> <<"tty", 0>> @@ 2 :> <<"tty", 0>> @@ 3 :> <<"r", 1>> @@ 4 :> <<"w", 1>> @@ 5 :> <<"r", 2>> @@ 6 :> <<"w", 2>> @@ 7 :> <<"r", 3>> @@ 8 :> <<"w", 3>> @@ 9 :> <<"r", 4>> @@ 10 :> <<"w", 4>>) @@ 2 :> (0 :> <<"tty", 0>> @@ 1 :> <<"tty", 0>> @@ 2 :> <<"tty", 0>> @@ 3 :> <<"r", 1>> @@ 5 :> <<"r", 2>> @@ 6 :> <<"w", 2>> @@ 7 :> <<"r", 3>> @@ 8 :> <<"w", 3>> @@ 9 :> <<"r", 4>> @@ 10 :> <<"w", 4>>) @@ 3 :> (0 :> <<"tty", 0>> @@ 1 :> <<"tty", 0>> @@ 2 :> <<"tty", 0>> @@ 5 :> <<"r", 2>> @@ 7 :> <<"r", 3>> @@ 8 :> <<"w", 3>> @@ 9 :> <<"r", 4>> @@ 10 :> <<"w", 4>>)),cpc |-> <<"left", "left", "left">>,spc |-> <<"capclose", 0>>,nextfd |-> 0,got |-> <<0, 0, 0>>,status |-> <<"none", "none", "none">>]),
    ([buf |-> <<0, 0, 0, 0>>,alive |-> (0 :> "run" @@ 1 :> "run" @@ 2 :> "run" @@ 3 :> "run"),reaped |-> 0,left |-> <<2, 0, 0>>,fdt |-> (0 :> (0 :> <<"tty", 0>> @@ 1 :> <<"tty", 0>> @@ 2 :> <<"tty", 0>> @@ 7 :> <<"r", 3>> @@ 9 :> <<"r", 4>>) @@ 1 :> (0 :> <<"tty", 0>> @@ 1 :> <<"tty", 0>> @@ 2 :> <<"tty", 0>> @@ 3 :> <<"r", 1>> @@ 4 :> <<"w", 1>> @@ 5 :> <<"r", 2>> @@ 6 :> <<"w", 2>> @@ 7 :> <<"r", 3>> @@ 8 :> <<"w", 3>> @@ 9 :> <<"r", 4>> @@ 10 :> <<"w", 4>>) @@ 2 :> (0 :> <<"tty", 0>> @@ 1 :> <<"tty", 0>> @@ 2 :> <<"tty", 0>> @@ 3 :> <<"r", 1>> @@ 5 :> <<"r", 2>> @@ 6 :> <<"w", 2>> @@ 7 :> <<"r", 3>> @@ 8 :> <<"w", 3>> @@ 9 :> <<"r", 4>> @@ 10 :> <<"w", 4>>) @@ 3 :> (0 :> <<"tty", 0>> @@ 1 :> <<"tty", 0>> @@ 2 :> <<"tty", 0>> @@ 5 :> <<"r", 2>> @@ 7 :> <<"r", 3>> @@ 8 :> <<"w", 3>> @@ 9 :> <<"r", 4>> @@ 10 :> <<"w", 4>>)),cpc |-> <<"left", "left", "left">>,spc |-> <<"capread", 3>>,nextfd |-> 0,got |-> <<0, 0, 0>>,status |-> <<"none", "none", "none">>])
    >>
----


=============================================================================

---- CONFIG MCPipeline_TTrace_1791161874 ----
CONSTANTS
    N = 3
    Kinds <- K3
    Units = 2
    Cap = 1
    DropParentCloseW = FALSE
    FailAt = 0
    CapReadMode = "concurrent"
    Capture = TRUE

INVARIANT
    _inv

CHECK_DEADLOCK
    \* CHECK_DEADLOCK off because of PROPERTY or INVARIANT above.
    FALSE

INIT
    _init

NEXT
    _next

CONSTANT
    _TETrace <- _trace

ALIAS
    _expression
=============================================================================
\* Generated on Mon Oct 05 00:57:55 UTC 2026