SPECIFICATION Spec
CONSTANT MaxLen = 5
CONSTANT Alphabet <- AQuote
INVARIANT Total
INVARIANT Emit
CHECK_DEADLOCK FALSE
