SPECIFICATION Spec
CONSTANT MaxLen = 6
CONSTANT Alphabet <- ARedir
INVARIANT Total
INVARIANT Emit
CHECK_DEADLOCK FALSE
