SPECIFICATION Spec
CONSTANTS
  MaxLines = 6
  MaxAns = 2
  ForCounts = {0, 1, 2}
  MinLines = 1
INVARIANT Agree
INVARIANT Emit
CHECK_DEADLOCK FALSE
