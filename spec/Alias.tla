-------------------------------- MODULE Alias --------------------------------
(* Aliases (property C17): a table name -> value; `alias n=v` defines or redefines, `unalias n`
   removes exactly n, `alias` lists every definition, `alias n` shows one.  A command whose first
   word is an alias name -- at the start of a line, of a pipeline stage, after ; or && -- runs as if
   the value had been written there (the remaining words unchanged); words in other positions
   are never replaced; replacement is applied once (a value that mentions itself or another alias
   is not expanded again).
   The table is the whole state; Use(n, pos) records which value (if any) the reference says is
   substituted, List records the table that a fresh shell must end up with when the listing is
   fed back to it.                                                                        *)
EXTENDS Naturals, Sequences, FiniteSets, TLC, Json
CONSTANTS Names, Values, WalkLen
None == "<none>"
Positions == {"head", "afterpipe", "aftersemi", "afterand", "nonfirst"}
VARIABLES table, hist
vars == <<table, hist>>
Init == table = [n \in Names |-> None] /\ hist = <<>>
Rec(op) == hist' = Append(hist, op)
Define(n, v) == table' = [table EXCEPT ![n] = v] /\ Rec([op |-> "define", n |-> n, v |-> v])
Unalias(n)   == table' = [table EXCEPT ![n] = None] /\ Rec([op |-> "unalias", n |-> n, was |-> table[n]])
List         == UNCHANGED table /\ Rec([op |-> "list", table |-> table])
Show(n)      == UNCHANGED table /\ Rec([op |-> "show", n |-> n, v |-> table[n]])
\* which value the first word n is replaced by at position pos (None = left alone)
Subst(n, pos) == IF pos = "nonfirst" THEN None ELSE table[n]
Use(n, pos)  == UNCHANGED table /\ Rec([op |-> "use", n |-> n, pos |-> pos, v |-> Subst(n, pos)])
Next == /\ Len(hist) < WalkLen
        /\ \/ \E n \in Names, v \in Values : Define(n, v)
           \/ \E n \in Names : Unalias(n) \/ Show(n)
           \/ List
           \/ \E n \in Names, p \in Positions : Use(n, p)
Spec == Init /\ [][Next]_vars
\* theorems of the reference
UnaliasRemovesExactlyOne == [][\A n \in Names : (table'[n] = None /\ table[n] # None) => \A m \in Names \ {n} : table'[m] = table[m]]_vars
NonFirstNeverReplaced == \A i \in 1..Len(hist) : hist[i].op = "use" /\ hist[i].pos = "nonfirst" => hist[i].v = None
Emit == Len(hist) = WalkLen => PrintT(<<"REPLAY", ToJson(hist)>>)
=============================================================================
