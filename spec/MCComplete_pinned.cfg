SPECIFICATION Spec
CONSTANT MaxLen = 2
CONSTANT Mode = "pinned"
INVARIANT PinnedOK
CHECK_DEADLOCK FALSE
