SPECIFICATION Spec
CONSTANT MaxLen = 2
CONSTANT Alphabet <- NameAlphabet
CONSTANT Mode = "pinned"
INVARIANT PinnedOK
CHECK_DEADLOCK FALSE
