------------------------------- MODULE MCLex -------------------------------
(* C01: bounded model of "every argument written in one of the three quoting styles
   reaches the program verbatim".  The writer part enumerates (argument text, style,
   position, context); the theorem Correct says the reference reader reads the line
   back as exactly the arguments, with the quoting provenance of every character, and
   recognises no operator inside the argument.  Every finished behaviour is emitted
   as a replay case for the implementation.                                      *)
EXTENDS ShellLex, Json
CONSTANTS MaxLen, Alphabet, Styles
Positions == {"first", "middle", "last"}
Ctxs      == {"end", "pipe", "semi", "and", "or"}

VARIABLES txt, style, pos, ctx, tight, done
vars == <<txt, style, pos, ctx, tight, done>>

Init == txt = <<>> /\ style \in Styles /\ pos = "" /\ ctx = "" /\ tight = FALSE /\ done = FALSE
Add(c) == /\ ~done /\ Len(txt) < MaxLen /\ OkChar(c, style)
          /\ txt' = Append(txt, c) /\ UNCHANGED <<style, pos, ctx, tight, done>>
Finish(p, x, tg) == /\ ~done /\ OkText(txt, style)
                    /\ (x = "end" => ~tg)
                    /\ pos' = p /\ ctx' = x /\ tight' = tg /\ done' = TRUE /\ UNCHANGED <<txt, style>>
Next == (\E c \in Alphabet : Add(c)) \/ (\E p \in Positions, x \in Ctxs, tg \in BOOLEAN : Finish(p, x, tg))
Spec == Init /\ [][Next]_vars

S(str) == str   \* readability: plain words are given as sequences below
Cmd  == <<"v", "p", "a">>
X    == <<"x">>
Y    == <<"y">>
Z    == <<"z">>
Sp   == <<" ">>
Arg  == Render(txt, style)
HeadTxt == CASE pos = "first"  -> Cmd \o Sp \o Arg \o Sp \o Y
          [] pos = "middle" -> Cmd \o Sp \o X \o Sp \o Arg \o Sp \o Y
          [] pos = "last"   -> Cmd \o Sp \o X \o Sp \o Arg
OpText == CASE ctx = "pipe" -> <<"|">> [] ctx = "semi" -> <<";">> [] ctx = "and" -> <<"&", "&">>
            [] ctx = "or" -> <<"|", "|">> [] OTHER -> <<>>
TailTxt == IF ctx = "end" THEN <<>>
        ELSE (IF tight THEN <<>> ELSE Sp) \o OpText \o (IF tight THEN <<>> ELSE Sp) \o Cmd \o Sp \o Z
Line == HeadTxt \o TailTxt

B(t) == Tag(t, "bare")
ArgW == Tagged(txt, style)
HeadWords == CASE pos = "first"  -> <<B(Cmd), ArgW, B(Y)>>
               [] pos = "middle" -> <<B(Cmd), B(X), ArgW, B(Y)>>
               [] pos = "last"   -> <<B(Cmd), B(X), ArgW>>
St(ws) == [words |-> ws, redirs |-> 0]
TailStage == St(<<B(Cmd), B(Z)>>)
Expected ==
  CASE ctx = "end"  -> << [stages |-> <<St(HeadWords)>>, op |-> "", bg |-> FALSE] >>
    [] ctx = "pipe" -> << [stages |-> <<St(HeadWords), TailStage>>, op |-> "", bg |-> FALSE] >>
    [] OTHER -> << [stages |-> <<St(HeadWords)>>, op |-> (IF ctx = "semi" THEN ";" ELSE IF ctx = "and" THEN "&&" ELSE "||"), bg |-> FALSE],
                   [stages |-> <<TailStage>>, op |-> "", bg |-> FALSE] >>

FullAlphabet == Meta \cup Plain
AllStyles == {"sq", "dq", "bs"}

Correct == done => LET r == Read(Line) IN r.segs = Expected /\ r.mode = "U"

Case == [line  |-> Line, txt |-> txt, style |-> style, pos |-> pos, ctx |-> ctx, tight |-> tight,
         segs  |-> [i \in 1..Len(Expected) |->
                      [op |-> Expected[i].op,
                       stages |-> [j \in 1..Len(Expected[i].stages) |-> ArgvOf(Expected[i].stages[j])]]]]
Emit == done => PrintT(<<"REPLAY", ToJson(Case)>>)
=============================================================================
