------------------------------- MODULE MCEnvDir -------------------------------
EXTENDS EnvDir, Json
CONSTANT WalkLen
VARIABLE hist
svars == <<vars, hist>>
Obs == [op |-> last, status |-> laststatus,
        exp |-> [n \in Names |-> RefExpansion(n)], child |-> [n \in Names |-> RefChild(n)],
        cwd |-> rcwd, pwd |-> rcwd]
SInit == Init /\ hist = <<>>
SNext == Len(hist) < WalkLen /\ Next /\ hist' = Append(hist, Obs')
SSpec == SInit /\ [][SNext]_svars
Emit == Len(hist) = WalkLen => PrintT(<<"REPLAY", ToJson(hist)>>)
SAgree == Agree
PairsOne == {<<"A", "A">>}
PairsSim == {<<"A", "B">>, <<"B", "AB">>, <<"_x", "A">>, <<"A", "A">>}
ShapesAll == UNION {[1..k -> Names] : k \in 1..3}
\* for the random walks: a few shapes, so that `read` does not crowd out the other operations
ShapesSim == {<<"A">>, <<"A", "B">>, <<"B", "A">>, <<"A", "B", "AB">>, <<"_x", "A", "B">>, <<"AB", "_x", "A">>, <<"B", "B">>, <<"A", "AB", "A">>}
====
