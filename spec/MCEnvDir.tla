------------------------------- MODULE MCEnvDir -------------------------------
EXTENDS EnvDir, Json
CONSTANT WalkLen
VARIABLE hist
svars == <<vars, hist>>
Obs == [op |-> last, status |-> laststatus,
        exp |-> [n \in Names |-> RefExpansion(n)], child |-> [n \in Names |-> RefChild(n)],
        cwd |-> rcwd, pwd |-> rcwd]
SInit == Init /\ hist = <<>>
SNext == Len(hist) < WalkLen /\ Next /\ hist' = Append(hist, Obs')
SSpec == SInit /\ [][SNext]_svars
Emit == Len(hist) = WalkLen => PrintT(<<"REPLAY", ToJson(hist)>>)
SAgree == Agree
====
