----------------------------- MODULE MCRedirect -----------------------------
(* C04: every command with up to MaxR redirections, in each pipeline position, for an external
   program and for the two output-producing builtin cases; emitted with the outcome the reference
   semantics prescribes.  Sanity theorems on the reference itself are checked as invariants.  *)
EXTENDS Redirect, Json
CONSTANTS MaxR, Kinds, Positions
RSet == {[k |-> "out", f |-> f, app |-> a] : f \in Files \cup BadTargets, a \in BOOLEAN}
        \cup {[k |-> "err", f |-> f, app |-> a] : f \in Files \cup BadTargets, a \in BOOLEAN}
        \cup {[k |-> "dup21"], [k |-> "dup12"], [k |-> "in", f |-> "f1"], [k |-> "in", f |-> "nofile"], [k |-> "here"]}
VARIABLES rs, kind, pos, done
vars == <<rs, kind, pos, done>>
Init == rs = <<>> /\ kind \in Kinds /\ pos \in Positions /\ done = FALSE
OpensOf(r) == IF r.k \in {"out", "err"} /\ r.f \in Files THEN {r.f} ELSE {}
InputOK(r) == r.k \in {"in", "here"} =>
                /\ kind = "ext"
                /\ Cardinality({i \in 1..Len(rs) : rs[i].k \in {"in", "here"}}) <= 1          \* at most two input redirections per command
                /\ (r.k = "in" /\ r.f = "f1" => \A i \in 1..Len(rs) : OpensOf(rs[i]) # {"f1"})
Add(r) == /\ ~done /\ Len(rs) < MaxR
          /\ \A i \in 1..Len(rs) : OpensOf(rs[i]) \cap OpensOf(r) = {}     \* a file is opened once per command
          /\ (OpensOf(r) = {"f1"} => \A i \in 1..Len(rs) : ~(rs[i].k = "in" /\ rs[i].f = "f1"))
          /\ InputOK(r)
          /\ rs' = Append(rs, r) /\ UNCHANGED <<kind, pos, done>>
Finish == ~done /\ done' = TRUE /\ UNCHANGED <<rs, kind, pos>>
Next == (\E r \in RSet : Add(r)) \/ Finish
Spec == Init /\ [][Next]_vars

InitFiles == [f \in Files |-> IF f = "f1" THEN "present" ELSE "absent"]
Emits == CASE kind = "ext" -> << <<1, "o">>, <<2, "e">> >>
           [] kind = "bout" -> << <<1, "o">> >>
           [] kind = "berr" -> << <<2, "e">> >>
S == Apply(rs, pos)
Ran == ~S.failed
W == Written(S, Emits)
Case == [rs |-> rs, kind |-> kind, pos |-> pos, ran |-> Ran,
         out |-> IF Ran THEN W["OUT"] ELSE <<>>, err |-> IF Ran THEN W["ERR"] ELSE <<>>,
         pipe |-> IF Ran THEN W["PIPE"] ELSE <<>>,
         stdin |-> S.stdin,
         files |-> [f \in Files |-> Final(InitFiles, S, Emits, f, Ran)],
         touched |-> {S.opened[i].f : i \in 1..Len(S.opened)}]
Emit == done => PrintT(<<"REPLAY", ToJson(Case)>>)
\* theorems about the reference: every written token ends up in exactly one place; nothing is
\* written when the command does not run; a command without redirections leaves every file alone
Conservation == done /\ Ran => Len(W["OUT"]) + Len(W["ERR"]) + Len(W["PIPE"]) + Len(W["f1"]) + Len(W["f2"]) = Len(Emits)
NoRedirNoTouch == done /\ rs = <<>> => Case.files = [f \in Files |-> IF f = "f1" THEN <<"old">> ELSE "absent"]
LeftToRight == done /\ Len(rs) = 2 /\ rs[1] = [k |-> "dup21"] /\ rs[2].k = "out" /\ rs[2].f \in Files /\ pos = "only" /\ kind = "ext"
                 => W["OUT"] = <<"e">>          \* 2>&1 >f : stderr goes where stdout WAS
=============================================================================
