------------------------------ MODULE TraceFds ------------------------------
(* Kernel descriptor tables, replayed from the system calls the real shell and its children
   made (strace -ff, one file per process, converted to ndjson by drivers/strace2json.py).
   Properties C08 (and the descriptor part of C02/C04):
     ExecFds          at every successful execve of a spawned program the descriptors that
                      survive the exec (not close-on-exec) are exactly 0, 1, 2
     ShellFdsRestored at every marker (the moment the shell forks the marker helper that
                      separates two commands of the session) the shell's set of open
                      descriptors equals its set at the first marker
   The replay is deterministic: one state per trace record, every invariant evaluated in
   every state.  A "reset" record starts the next recorded session of a batch.       *)
EXTENDS Naturals, Sequences, FiniteSets, TLC, Json, IOUtils, TLCExt

Rec == ndJsonDeserialize(IOEnv.TRACE)

VARIABLES l,      \* next record
          fdt,    \* pid -> (fd -> close-on-exec flag)      function with finite domain
          base,   \* the shell's descriptor set at the first marker ({999999} = not yet taken)
          chk     \* what the last record asks to be checked: [kind, set, p]
vars == <<l, fdt, base, chk>>

Std == (0 :> FALSE) @@ (1 :> FALSE) @@ (2 :> FALSE)
None == [kind |-> "none", set |-> {}, p |-> 0]
Init == TLCSet(1, 1) /\ l = 1 /\ fdt = (1 :> Std) /\ base = {999999} /\ chk = None

Ev == Rec[l]
Is(e) == l <= Len(Rec) /\ Ev.e = e /\ l' = l + 1
Tab(p) == fdt[p]
Fds(p) == DOMAIN fdt[p]
With(f, d, v)  == [x \in (DOMAIN f) \cup {d} |-> IF x = d THEN v ELSE f[x]]
Without(f, ds) == [x \in (DOMAIN f) \ ds |-> f[x]]
Set(p, f) == fdt' = [fdt EXCEPT ![p] = f]
Known(p) == p \in DOMAIN fdt

KReset == Is("reset") /\ fdt' = (1 :> Std) /\ base' = {999999} /\ chk' = None
KOpen  == Is("open")  /\ Known(Ev.p) /\ Ev.fd \notin Fds(Ev.p)
          /\ Set(Ev.p, With(Tab(Ev.p), Ev.fd, Ev.ce)) /\ chk' = None /\ UNCHANGED base
KPipe  == Is("pipe")  /\ Known(Ev.p) /\ Ev.r \notin Fds(Ev.p) /\ Ev.w \notin Fds(Ev.p)
          /\ Set(Ev.p, With(With(Tab(Ev.p), Ev.r, Ev.ce), Ev.w, Ev.ce)) /\ chk' = None /\ UNCHANGED base
KClose == Is("close") /\ Known(Ev.p) /\ Ev.fd \in Fds(Ev.p)
          /\ Set(Ev.p, Without(Tab(Ev.p), {Ev.fd})) /\ chk' = None /\ UNCHANGED base
KCloseRange == Is("closerange") /\ Known(Ev.p)
          /\ Set(Ev.p, Without(Tab(Ev.p), {d \in Fds(Ev.p) : d >= Ev.first /\ d <= Ev.last}))
          /\ chk' = None /\ UNCHANGED base
KDup   == Is("dup")   /\ Known(Ev.p) /\ Ev.old \in Fds(Ev.p)
          /\ Set(Ev.p, IF Ev.old = Ev.new THEN Tab(Ev.p) ELSE With(Tab(Ev.p), Ev.new, Ev.ce)) /\ chk' = None /\ UNCHANGED base
KSetCe == Is("setce") /\ Known(Ev.p) /\ Ev.fd \in Fds(Ev.p)
          /\ Set(Ev.p, With(Tab(Ev.p), Ev.fd, Ev.ce)) /\ chk' = None /\ UNCHANGED base
KFork  == Is("fork")  /\ Known(Ev.p) /\ ~Known(Ev.c)
          /\ fdt' = fdt @@ (Ev.c :> Tab(Ev.p)) /\ chk' = None /\ UNCHANGED base
KExec  == Is("exec")  /\ Known(Ev.p)
          /\ LET keep == {d \in Fds(Ev.p) : ~Tab(Ev.p)[d]} IN
               /\ Set(Ev.p, [d \in keep |-> FALSE])
               /\ chk' = [kind |-> "exec", set |-> keep, p |-> Ev.p]
          /\ UNCHANGED base
KExit  == Is("exit")  /\ Known(Ev.p)
          /\ fdt' = [q \in (DOMAIN fdt) \ {Ev.p} |-> fdt[q]] /\ chk' = None /\ UNCHANGED base
KMarker == Is("marker") /\ Known(Ev.p)
          /\ base' = (IF base = {999999} THEN Fds(Ev.p) ELSE base)
          /\ chk' = [kind |-> "marker", set |-> Fds(Ev.p), p |-> Ev.p]
          /\ UNCHANGED fdt

Next == KReset \/ KOpen \/ KPipe \/ KClose \/ KCloseRange \/ KDup \/ KSetCe \/ KFork \/ KExec \/ KExit \/ KMarker
Spec == Init /\ [][Next]_vars

ExecFds          == chk.kind = "exec" => chk.set = {0, 1, 2}
ShellFdsRestored == chk.kind = "marker" => chk.set = base

Track == IF l > TLCGet(1) THEN TLCSet(1, l) /\ PrintT(<<"L", l>>) ELSE TRUE
Accepted == \/ TLCGet(1) = Len(Rec) + 1
            \/ PrintT(<<"REJECT", TLCGet(1)>>) /\ FALSE
=============================================================================
