SPECIFICATION Spec
CONSTANT N = 3
CONSTANT Mode = "both"
CONSTANT TtyMode = "parent-only"
INVARIANT OwnGroup
INVARIANT TerminalGiven
INVARIANT RunsOwningTerminal
INVARIANT PromptOwnsTerminal
CHECK_DEADLOCK FALSE
