SPECIFICATION Spec
CONSTANT MaxLen = 5
CONSTANT Alphabet <- ARedir
INVARIANT Total
INVARIANT Emit
CHECK_DEADLOCK FALSE
