------------------------- MODULE TraceCmdList -------------------------
(* Trace validation for C03: the events the hooked run_command_line loop emits
   (list_begin / list_op / list_skip / list_run / list_end) must be a behaviour of
   CmdList.  Many recorded runs are concatenated in one file; a "reset" record
   carries the program of the next run (statuses as classes in sts, concrete exit
   codes in conc).  Every invariant of CmdList is evaluated in every state.      *)
EXTENDS CmdList, IOUtils, TLCExt
VARIABLE l, conc
Rec == ndJsonDeserialize(IOEnv.TRACE)
tvars == <<vars, l, conc>>

TInit == /\ TLCSet(1, 1) /\ l = 1 /\ conc = <<>>
         /\ phase = "idle" /\ sts = <<>> /\ ops = <<>> /\ k = 1 /\ sep = "" /\ status = "z"
         /\ lastran = 0 /\ ran = <<>>

IsEvent(e) == l <= Len(Rec) /\ Rec[l].e = e /\ l' = l + 1
Cls(x) == IF x = 0 THEN "z" ELSE "nz"

TReset == /\ IsEvent("reset")
          /\ (phase = "run" => Done)          \* the previous run was complete
          /\ phase' = "run" /\ sts' = Rec[l].sts /\ ops' = Rec[l].ops /\ conc' = Rec[l].conc
          /\ k' = 1 /\ sep' = "" /\ status' = "z" /\ lastran' = 0 /\ ran' = <<>>
TBegin == IsEvent("list_begin") /\ phase = "run" /\ k = 1 /\ UNCHANGED <<vars, conc>>
TOp    == IsEvent("list_op") /\ TakeOp /\ sep' = Rec[l].op /\ UNCHANGED conc
TSkip  == IsEvent("list_skip") /\ Skip /\ Cls(Rec[l].status) = status /\ UNCHANGED conc
TRun   == IsEvent("list_run") /\ Run /\ Rec[l].status = conc[PipeOf(k)] /\ UNCHANGED conc
TEnd   == /\ IsEvent("list_end") /\ Done
          /\ Rec[l].prev_status = (IF lastran = 0 THEN 0 ELSE conc[lastran])
          /\ UNCHANGED <<vars, conc>>

TNext == TReset \/ TBegin \/ TOp \/ TSkip \/ TRun \/ TEnd
TSpec == TInit /\ [][TNext]_tvars

Track == IF l > TLCGet(1) THEN TLCSet(1, l) /\ PrintT(<<"L", l>>) ELSE TRUE
Accepted == \/ TLCGet(1) = Len(Rec) + 1
            \/ PrintT(<<"REJECT", TLCGet(1)>>) /\ FALSE
\* the invariants of CmdList, guarded for the idle phase before the first reset
TRanIsPrefix == phase = "run" => RanIsPrefix
TCorrect == phase = "run" => Correct
TAfterSemi == phase = "run" => AfterSemi
TFirstRuns == phase = "run" => FirstRuns
=============================================================================
