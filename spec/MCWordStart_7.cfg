SPECIFICATION Spec
CONSTANT MaxLen = 7
INVARIANT Emit
INVARIANT AgreesUnlessDoubleBackslash
CHECK_DEADLOCK FALSE
