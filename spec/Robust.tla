------------------------------- MODULE Robust -------------------------------
(* C05: the protocol every input must follow.  The shell is a server of lines: a
   submission (a line through the pure stages in-process, a -c / script / stdin run, a
   key sequence at the prompt) must be answered - the line ran, was rejected with a
   diagnostic or was ignored - and afterwards the shell must still serve a sentinel
   command.  Crash (panic, abort, killed by a signal) and Hang (no answer) are the two
   environment-visible failures; the property is that they are unreachable.

   The specification does not say what a malformed line means.  Its contributions are
   (a) the enumeration of the input space (MCRobust: every string over an alphabet up to a
   bound, each classified by the reference reader), and (b) this protocol, against which
   the recorded harness / session traces are validated (TraceRobust).               *)
EXTENDS Naturals, Sequences

Outcomes == {"ran", "rejected", "ignored"}
VARIABLES st,        \* "ready" | "busy" | "dead" | "stuck"
          served,    \* number of submissions answered
          probes     \* number of sentinel commands that ran after an answer
vars == <<st, served, probes>>

Init == st = "ready" /\ served = 0 /\ probes = 0
Submit      == st = "ready" /\ st' = "busy" /\ UNCHANGED <<served, probes>>
Return(o)   == st = "busy" /\ o \in Outcomes /\ st' = "ready" /\ served' = served + 1 /\ UNCHANGED probes
Sentinel    == st = "ready" /\ probes' = probes + 1 /\ UNCHANGED <<st, served>>
\* the two failures (environment-visible); a correct shell never takes them
Crash       == st = "busy" /\ st' = "dead" /\ UNCHANGED <<served, probes>>
Hang        == st = "busy" /\ st' = "stuck" /\ UNCHANGED <<served, probes>>
DeadProbe   == st = "ready" /\ st' = "dead" /\ UNCHANGED <<served, probes>>   \* the sentinel did not run

Next == Submit \/ (\E o \in Outcomes : Return(o)) \/ Sentinel
Spec == Init /\ [][Next]_vars /\ WF_vars(\E o \in Outcomes : Return(o))

\* C05
NeverDead   == st \notin {"dead", "stuck"}
Responsive  == [](st = "busy" => <>(st = "ready"))
=============================================================================
