SPECIFICATION Spec
CONSTANTS MaxPieces = 4 WellFormed = FALSE
CONSTANT VA <- VAval
CONSTANT VW <- VWval
CONSTANT Pieces <- PiecesChars
INVARIANT Exact
INVARIANT Literal
INVARIANT Emit
CHECK_DEADLOCK FALSE
