SPECIFICATION TSpec
CONSTRAINT Track
INVARIANT NeverDead
POSTCONDITION Accepted
CHECK_DEADLOCK FALSE
