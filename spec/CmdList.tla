---------------------------- MODULE CmdList ----------------------------
(* Command lists  p1 op p2 op ... pn  with op \in { ; && || }  (property C03).

   Implementation-shaped part: the token loop of execute.rs::run_command_line --
   the line is split into the token list <<p1, op1, p2, ..., pn>>, the loop keeps
   `sep` (the last operator seen) and `status` (of the last pipeline it ran); one
   action per loop iteration.  The constant OnSkip names what the loop does at a
   pipeline it must not run: "continue" (go on with the next token) or "break"
   (leave the loop) -- the latter is what the pinned code did before the C03 fix
   and is kept as a named deviation so TLC can show what it breaks.

   Reference part: ShouldRun is the left-to-right rule of the property.         *)
EXTENDS Naturals, Sequences, FiniteSets, TLC, Json

CONSTANTS MaxN,      \* longest program (number of pipelines)
          MinN,      \* shortest program the writer may finish (1 for exhaustive runs)
          OnSkip     \* "continue" | "break"

Ops == {";", "&&", "||"}
Sts == {"z", "nz"}     \* status classes: zero / non-zero

VARIABLES phase,                 \* "build" (the program is being written) | "run"
          sts, ops,              \* the program: statuses of p1..pn, operators between them
          k,                     \* index into the token list 1 .. 2n-1 ; 2n = loop left
          sep, status, lastran,  \* loop state; lastran = index of the pipeline run last (0 = none)
          ran                    \* history: sequence of [idx, prev] -- pipeline idx ran and saw $? of prev
vars == <<phase, sts, ops, k, sep, status, lastran, ran>>
n == Len(sts)

Init == /\ phase = "build" /\ sts = <<>> /\ ops = <<>>
        /\ k = 1 /\ sep = "" /\ status = "z" /\ lastran = 0 /\ ran = <<>>

\* writer: every program is reachable; in -simulate mode this is the random generator
AddPipe(st, op) == /\ phase = "build" /\ n < MaxN
                   /\ (n = 0 => op = ";")
                   /\ sts' = Append(sts, st)
                   /\ ops' = IF n = 0 THEN ops ELSE Append(ops, op)
                   /\ UNCHANGED <<phase, k, sep, status, lastran, ran>>
Start == /\ phase = "build" /\ n >= MinN /\ phase' = "run"
         /\ UNCHANGED <<sts, ops, k, sep, status, lastran, ran>>

IsOpTok(t) == t % 2 = 0
PipeOf(t)  == (t + 1) \div 2
Done       == phase = "run" /\ k >= 2 * n
Running    == phase = "run" /\ ~Done

TakeOp == /\ Running /\ IsOpTok(k)
          /\ sep' = ops[k \div 2] /\ k' = k + 1
          /\ UNCHANGED <<phase, sts, ops, status, lastran, ran>>

MustSkip == (sep = "&&" /\ status # "z") \/ (sep = "||" /\ status = "z")

Skip == /\ Running /\ ~IsOpTok(k) /\ MustSkip
        /\ k' = IF OnSkip = "break" THEN 2 * n ELSE k + 1
        /\ UNCHANGED <<phase, sts, ops, sep, status, lastran, ran>>

Run == /\ Running /\ ~IsOpTok(k) /\ ~MustSkip
       /\ LET j == PipeOf(k) IN
            /\ ran' = Append(ran, [idx |-> j, prev |-> lastran])
            /\ status' = sts[j] /\ lastran' = j
       /\ k' = k + 1
       /\ UNCHANGED <<phase, sts, ops, sep>>

Next == (\E st \in Sts, op \in Ops : AddPipe(st, op)) \/ Start \/ TakeOp \/ Skip \/ Run
Spec == Init /\ [][Next]_vars /\ WF_vars(Next)

----------------------------------------------------------------------------
(* Reference: the rule of the property, as a recursive function of the program. *)
RECURSIVE Ref(_, _, _, _)
Ref(j, st, last, acc) ==
  IF j > n THEN acc
  ELSE LET op    == IF j = 1 THEN ";" ELSE ops[j - 1]
           runit == op = ";" \/ (op = "&&" /\ st = "z") \/ (op = "||" /\ st = "nz")
       IN IF runit THEN Ref(j + 1, sts[j], j, Append(acc, [idx |-> j, prev |-> last]))
                   ELSE Ref(j + 1, st, last, acc)
ShouldRun == Ref(1, "z", 0, <<>>)

IsPrefixOf(a, b) == Len(a) <= Len(b) /\ \A x \in 1..Len(a) : a[x] = b[x]

\* safety at every step: what ran so far is a prefix of what the property prescribes
RanIsPrefix == phase = "run" => IsPrefixOf(ran, ShouldRun)
\* at the end: exactly the prescribed pipelines ran, each saw the right $?
Correct == Done => ran = ShouldRun
\* everything after a ';' always runs
AfterSemi == Done => \A j \in 2..n : ops[j - 1] = ";" => \E x \in 1..Len(ran) : ran[x].idx = j
\* the first pipeline always runs
FirstRuns == Done => Len(ran) >= 1 /\ ran[1].idx = 1
Terminates == (phase = "run") ~> Done

Emit == Done => PrintT(<<"REPLAY", ToJson([sts |-> sts, ops |-> ops, ran |-> ShouldRun])>>)
=============================================================================
