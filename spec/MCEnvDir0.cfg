SPECIFICATION Spec
CONSTANTS Names = {"A", "B", "AB"} Values = {"", "v w", "p=q:r"} MaxOps = 5
INVARIANT Agree
CHECK_DEADLOCK FALSE
