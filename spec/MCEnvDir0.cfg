SPECIFICATION Spec
CONSTANTS Names = {"A", "B", "AB"} Values = {"", "v w", "p=q:r"} MaxOps = 5
INVARIANT Agree
CONSTANT ReadShapes <- ShapesSmall
CONSTANT ReadMax = 2
CONSTANT PairShapes <- PairsSmall
CHECK_DEADLOCK FALSE
