------------------------------- MODULE MCPlan -------------------------------
(* Every line up to MaxLen over an alphabet holding every character the front end treats specially
   (except those that trigger expansions), with the plan the transcription computes; the reference
   theorems of Plan.tla are checked on each.                                                *)
EXTENDS Plan, Json
CONSTANTS MaxLen, Alphabet
VARIABLES txt, done
vars == <<txt, done>>
AlphaFull == {"a", " ", "|", "&", ";", ">", "<", "'", "\"", "\\", "=", "2", "#"}
AlphaRedir == {"a", " ", "|", "&", ">", "<", "=", "2", "'"}
Init == txt = <<>> /\ done = FALSE
Add(c) == ~done /\ Len(txt) < MaxLen /\ txt' = Append(txt, c) /\ UNCHANGED done
Finish == ~done /\ txt # <<>> /\ done' = TRUE /\ UNCHANGED txt
Next == (\E c \in Alphabet : Add(c)) \/ Finish
Spec == Init /\ [][Next]_vars
Str(s) == FoldLeft(LAMBDA a, c : a \o c, "", s)
TokJ(t) == <<t.sep, Str(t.text)>>
CmdJ(c) == [tokens |-> [k \in 1..Len(c.tokens) |-> TokJ(c.tokens[k])],
            redirs |-> [k \in 1..Len(c.redirs) |-> <<Str(c.redirs[k][1]), Str(c.redirs[k][2]), Str(c.redirs[k][3])>>],
            from |-> IF c.from = <<>> THEN <<>> ELSE <<Str(c.from[1]), Str(c.from[2])>>]
PlanJ(p) == IF ~p.ok THEN [ok |-> FALSE, err |-> p.err]
            ELSE [ok |-> TRUE, commands |-> [k \in 1..Len(p.commands) |-> CmdJ(p.commands[k])],
                  envs |-> [k \in 1..Len(p.envs) |-> <<Str(p.envs[k][1]), Str(p.envs[k][2])>>], background |-> p.background]
Case == LET p == PlanOf(txt) IN
        [s |-> Str(txt), segs |-> [k \in 1..Len(p.segs) |-> Str(p.segs[k])], plans |-> [k \in 1..Len(p.plans) |-> PlanJ(p.plans[k])]]
Emit == done => PrintT(<<"REPLAY", ToJson(Case)>>)
T1 == done => QuotedLineIsOneCommand(txt)
T2 == done => PlainWords(txt)
T3 == done => EnvOnlyLeading(txt)
=============================================================================
