---- MODULE MCCmdList ----
EXTENDS CmdList
====
