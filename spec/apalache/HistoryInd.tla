----------------------------- MODULE HistoryInd -----------------------------
(* The table core of spec/History.tla (rows, nextid; Add appends a row with a fresh id, Delete removes exactly the named rows)
   with an INDUCTIVE invariant, discharged by Apalache for tables of up to 4 rows and ARBITRARY integer ids / nextid
   (TLC checks History.tla only along walks from the empty table):
       Init => IndInv                         apalache-mc check --init=Init    --inv=IndInv --length=0
       IndInv /\ Next => IndInv'              apalache-mc check --init=IndInit --inv=IndInv --length=1
   IndInv says: ids are positive, below nextid, strictly increasing along the table (hence unique), and texts are texts that
   were added - the table statements of C18 (UniqueIds, OrderKept) for every reachable table, not only the walked ones.   *)
EXTENDS Integers, Sequences, FiniteSets, Apalache

CONSTANTS
    \* @type: Set(Str);
    Texts,
    \* @type: Int;
    MaxRows

VARIABLES
    \* @type: Seq({id: Int, text: Str});
    rows,
    \* @type: Int;
    nextid

ConstInit == Texts = {"t1", "t2", "t3"} /\ MaxRows = 4

Ids == {rows[i].id : i \in DOMAIN rows}
Init == rows = <<>> /\ nextid = 1
Add(t) == /\ Len(rows) < MaxRows
          /\ rows' = Append(rows, [id |-> nextid, text |-> t]) /\ nextid' = nextid + 1
Delete(S) == /\ S # {}
             /\ LET \* @type: ({id: Int, text: Str}) => Bool;
                    Keep(r) == r.id \notin S
                IN rows' = SelectSeq(rows, Keep)
             /\ UNCHANGED nextid
Next == (\E t \in Texts : Add(t)) \/ (\E S \in SUBSET Ids : Delete(S))

IndInv == /\ Len(rows) <= MaxRows /\ nextid >= 1
          /\ \A i \in DOMAIN rows : rows[i].id >= 1 /\ rows[i].id < nextid /\ rows[i].text \in Texts
          /\ \A i, j \in DOMAIN rows : i < j => rows[i].id < rows[j].id
UniqueIds == \A i, j \in DOMAIN rows : rows[i].id = rows[j].id => i = j
IndInit == rows = Gen(4) /\ nextid = Gen(1) /\ IndInv
=============================================================================
