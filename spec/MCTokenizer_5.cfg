SPECIFICATION Spec
CONSTANT MaxLen = 5
INVARIANT Total
INVARIANT Emit
CHECK_DEADLOCK FALSE
