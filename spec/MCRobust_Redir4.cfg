SPECIFICATION Spec
CONSTANT MaxLen = 4
CONSTANT Alphabet <- ARedir
INVARIANT Total
INVARIANT Emit
CHECK_DEADLOCK FALSE
