------------------------------ MODULE Multiline ------------------------------
(* Typing one command over several physical lines at the prompt (prompt/multilines.rs::EnterFunction,
   shell.rs::trim_multiline_prompts).

   Enter on a buffer that parse_line finds incomplete (open quote, backslash at the end, pipe at the
   end: Tokenizer!Complete) does not submit it: a newline and the sub-prompt text ">> " are inserted
   into the buffer and typing goes on.  When the buffer is complete it is accepted, and before it is
   run trim_multiline_prompts removes the inserted text with three replace-all passes, in this order:
       1.  \ NL >> SP        ->  nothing            (a continuation backslash joins the lines)
       2.  | SP* NL >> SP    ->  | SP               (a pipe at the end of a line)
       3.  NL >> SP          ->  NL                 (inside an open quote the newline is text)
   The newline is the placeholder "N" here.

   Reference (what the user means): Joined(pieces) - the physical lines joined at each boundary by
   the rule that made the earlier line incomplete.  JoinOK: the accepted, trimmed buffer equals
   Joined(pieces) whenever no piece contains a newline itself (named deviation: QuoteEdge).      *)
EXTENDS Naturals, Sequences, SequencesExt, FiniteSets, TLC

Tz == INSTANCE Tokenizer

NL == "N"
Sub == <<NL, ">", ">", " ">>
StartsAt(t, i, w) == i + Len(w) - 1 <= Len(t) /\ \A k \in 1..Len(w) : t[i + k - 1] = w[k]

\* replace_all of a fixed text
RECURSIVE ReplFixed(_, _, _, _)
ReplFixed(t, i, w, by) ==
  IF i > Len(t) THEN <<>>
  ELSE IF StartsAt(t, i, w) THEN by \o ReplFixed(t, i + Len(w), w, by)
  ELSE <<t[i]>> \o ReplFixed(t, i + 1, w, by)
\* pass 2: `|`, any number of blanks, then the inserted text  (leftmost match at each `|`, blanks greedy)
RECURSIVE SkipBlanks(_, _)
SkipBlanks(t, i) == IF i <= Len(t) /\ t[i] = " " THEN SkipBlanks(t, i + 1) ELSE i
RECURSIVE ReplPipe(_, _)
ReplPipe(t, i) ==
  IF i > Len(t) THEN <<>>
  ELSE IF t[i] = "|" /\ StartsAt(t, SkipBlanks(t, i + 1), Sub)
       THEN <<"|", " ">> \o ReplPipe(t, SkipBlanks(t, i + 1) + Len(Sub))
  ELSE <<t[i]>> \o ReplPipe(t, i + 1)

Trim(buf) ==
  LET p1 == ReplFixed(buf, 1, <<"\\">> \o Sub, <<>>)
      p2 == ReplPipe(p1, 1)
  IN ReplFixed(p2, 1, Sub, <<NL>>)

\* ---- the editor: pieces typed, Enter after each
RECURSIVE BufferOf(_, _)
BufferOf(pieces, k) == IF k = 1 THEN pieces[1] ELSE BufferOf(pieces, k - 1) \o Sub \o pieces[k]
\* the typing is consistent with the editor: Enter after piece k did not submit (the buffer so far is incomplete) for k < n,
\* and submits after the last
Typed(pieces) == /\ \A k \in 1..(Len(pieces) - 1) : ~Tz!Complete(BufferOf(pieces, k))
                 /\ Tz!Complete(BufferOf(pieces, Len(pieces)))

\* ---- reference: join by the reason the line was incomplete
RECURSIVE TrailingBs(_)
TrailingBs(t) == IF t # <<>> /\ t[Len(t)] = "\\" THEN 1 + TrailingBs(SubSeq(t, 1, Len(t) - 1)) ELSE 0
RECURSIVE DropTrailingBlanks(_)
DropTrailingBlanks(t) == IF t # <<>> /\ t[Len(t)] = " " THEN DropTrailingBlanks(SubSeq(t, 1, Len(t) - 1)) ELSE t
EndsWithPipe(t) == LET u == DropTrailingBlanks(t) IN u # <<>> /\ u[Len(u)] = "|"
InQuote(a) == Tz!Read(a).mode # "U"
JoinTwo(a, b) == IF InQuote(a) THEN a \o <<NL>> \o b                           \* the newline is part of the quoted text
                 ELSE IF a # <<>> /\ a[Len(a)] = "\\" THEN SubSeq(a, 1, Len(a) - 1) \o b
                 ELSE IF EndsWithPipe(a) THEN DropTrailingBlanks(a) \o <<" ">> \o b
                 ELSE a \o <<NL>> \o b
RECURSIVE Joined(_, _)
Joined(pieces, k) == IF k = 1 THEN pieces[1] ELSE JoinTwo(Joined(pieces, k - 1), pieces[k])

NoSubInside(pieces) == \A k \in 1..Len(pieces) : \A i \in 1..Len(pieces[k]) : pieces[k][i] # NL
\* named deviation QuoteEdge: the three passes do not know about quotes - a physical line that ends in a backslash or in a pipe
\* (and blanks) while a quote is open loses that backslash / its newline although both are quoted text (`'a\` Enter `b'` runs as
\* 'ab'; found by TLC as `'|` Enter ` ` Enter `'`)
QuoteEdge(pieces) == \E k \in 1..(Len(pieces) - 1) :
                       LET j == Joined(pieces, k) IN InQuote(j) /\ ((j # <<>> /\ j[Len(j)] = "\\") \/ EndsWithPipe(j))
\* (the theorem is stated for lines whose only backslashes are continuation backslashes at the end of a physical line: an escaped
\* operator character in the middle is the subject of the tokenizer findings of C01)
OnlyContinuationBackslashes(pieces) == \A k \in 1..Len(pieces) : \A i \in 1..(Len(pieces[k]) - 1) : pieces[k][i] # "\\"
JoinOK(pieces) == (Typed(pieces) /\ NoSubInside(pieces) /\ ~QuoteEdge(pieces) /\ OnlyContinuationBackslashes(pieces)) => Trim(BufferOf(pieces, Len(pieces))) = Joined(pieces, Len(pieces))
=============================================================================
