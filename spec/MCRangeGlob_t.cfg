SPECIFICATION Spec
CONSTANTS Lo = 0 Hi = 9 Shift = 4 Steps = {99, 0, 1, 2, 5} MaxPop = 5
CONSTANT Pool <- PoolQ
CONSTANT Patterns <- PatsQ
INVARIANT Emit
INVARIANT RangeOK
INVARIANT GlobSubset
CHECK_DEADLOCK FALSE
