---- MODULE MCScriptStatus ----
EXTENDS ScriptStatus, Json
C(st) == [k |-> "c", st |-> st]
FB == [f \in {"f1", "f-2", "f_3"} |->
         IF f = "f1" THEN <<C("z")>> ELSE IF f = "f-2" THEN <<C("nz")>> ELSE <<C("nz"), C("z")>>]
SB == [s \in {"s1", "s2", "s3"} |->
         IF s = "s1" THEN <<C("nz")>> ELSE IF s = "s3" THEN <<C("nz"), C("z")>>      \* s3: fails, then succeeds
         ELSE <<C("z"), [k |-> "exit", n |-> 4], C("z")>>]
FP == { <<"z","z","z">>, <<"nz","z","z">>, <<"z","nz","z">>, <<"z","z","nz">> }
NoLegacy == {}
AllLegacy == {"funcstatus0", "sete_local"}
Case == [prog |-> prog, ev |-> Ref.ev, status |-> Ref.status, n |-> Ref.n]
Emit == done => PrintT(<<"REPLAY", ToJson(Case)>>)
====
