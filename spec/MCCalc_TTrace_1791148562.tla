---- MODULE MCCalc_TTrace_1791148562 ----
EXTENDS Sequences, TLCExt, Toolbox, Naturals, TLC, MCCalc

_expression ==
    LET MCCalc_TEExpression == INSTANCE MCCalc_TEExpression
    IN MCCalc_TEExpression!expression
----

_trace ==
    LET MCCalc_TETrace == INSTANCE MCCalc_TETrace
    IN MCCalc_TETrace!trace
----

_inv ==
    ~(
        TLCGet("level") = Len(_TETrace)
        /\
        pr = (2)
        /\
        pl = (1)
        /\
        done = (TRUE)
        /\
        ts = (<<"2", "^", "7", "^", "7">>)
    )
----

_init ==
    /\ done = _TETrace[1].done
    /\ pl = _TETrace[1].pl
    /\ pr = _TETrace[1].pr
    /\ ts = _TETrace[1].ts
----

_next ==
    /\ \E i,j \in DOMAIN _TETrace:
        /\ \/ /\ j = i + 1
              /\ i = TLCGet("level")
        /\ done  = _TETrace[i].done
        /\ done' = _TETrace[j].done
        /\ pl  = _TETrace[i].pl
        /\ pl' = _TETrace[j].pl
        /\ pr  = _TETrace[i].pr
        /\ pr' = _TETrace[j].pr
        /\ ts  = _TETrace[i].ts
        /\ ts' = _TETrace[j].ts

\* Uncomment the ASSUME below to write the states of the error trace
\* to the given file in Json format. Note that you can pass any tuple
\* to `JsonSerialize`. For example, a sub-sequence of _TETrace.
    \* ASSUME
    \*     LET J == INSTANCE Json
    \*         IN J!JsonSerialize("MCCalc_TTrace_1791148562.json", _TETrace)

=============================================================================

 Note that you can extract this module `MCCalc_TEExpression`
  to a dedicated file to reuse `expression` (the module in the 
  dedicated `MCCalc_TEExpression.tla` file takes precedence 
  over the module `MCCalc_TEExpression` below).

---- MODULE MCCalc_TEExpression ----
EXTENDS Sequences, TLCExt, Toolbox, Naturals, TLC, MCCalc

expression == 
    [
        \* To hide variables of the `MCCalc` spec from the error trace,
        \* remove the variables below.  The trace will be written in the order
        \* of the fields of this record.
        done |-> done
        ,pl |-> pl
        ,pr |-> pr
        ,ts |-> ts
        
        \* Put additional constant-, state-, and action-level expressions here:
        \* ,_stateNumber |-> _TEPosition
        \* ,_doneUnchanged |-> done = done'
        
        \* Format the `done` variable as Json value.
        \* ,_doneJson |->
        \*     LET J == INSTANCE Json
        \*     IN J!ToJson(done)
        
        \* Lastly, you may build expressions over arbitrary sets of states by
        \* leveraging the _TETrace operator.  For example, this is how to
        \* count the number of times a spec variable changed up to the current
        \* state in the trace.
        \* ,_doneModCount |->
        \*     LET F[s \in DOMAIN _TETrace] ==
        \*         IF s = 1 THEN 0
        \*         ELSE IF _TETrace[s].done # _TETrace[s-1].done
        \*             THEN 1 + F[s-1] ELSE F[s-1]
        \*     IN F[_TEPosition - 1]
    ]

=============================================================================



Parsing and semantic processing can take forever if the trace below is long.
 In this case, it is advised to uncomment the module below to deserialize the
 trace from a generated binary file.

\*
\*---- MODULE MCCalc_TETrace ----
\*EXTENDS IOUtils, TLC, MCCalc
\*
\*trace == IODeserialize("MCCalc_TTrace_1791148562.bin", TRUE)
\*
\*=============================================================================
\*

---- MODULE MCCalc_TETrace ----
EXTENDS TLC, MCCalc

trace == 
    <<
    ([pr |-> 0,pl |-> 0,done |-> FALSE,ts |-> <<"2">>]),
    ([pr |-> 0,pl |-> 0,done |-> FALSE,ts |-> <<"2", "^", "7">>]),
    ([pr |-> 0,pl |-> 0,done |-> FALSE,ts |-> <<"2", "^", "7", "^", "7">>]),
    ([pr |-> 2,pl |-> 1,done |-> TRUE,ts |-> <<"2", "^", "7", "^", "7">>])
    >>
----


=============================================================================

---- CONFIG MCCalc_TTrace_1791148562 ----
CONSTANTS
    Operands = { "0" , "1" , "2" , "3" , "7" }
    MaxOps = 2

INVARIANT
    _inv

CHECK_DEADLOCK
    \* CHECK_DEADLOCK off because of PROPERTY or INVARIANT above.
    FALSE

INIT
    _init

NEXT
    _next

CONSTANT
    _TETrace <- _trace

ALIAS
    _expression
=============================================================================
\* Generated on Sun Oct 04 21:16:04 UTC 2026