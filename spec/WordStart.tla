------------------------------ MODULE WordStart ------------------------------
(* completers::escaped_word_start transcribed statement by statement: where the word under the
   cursor begins, i.e. which part of the line TAB replaces (C20).  Positions are counted in
   characters (the code counts bytes; the harness converts).  RefStart is the same question
   answered by the reference reader: the position after the last blank that is neither quoted nor
   escaped.  StartAgrees compares the two.                                                   *)
EXTENDS Naturals, Sequences, SequencesExt

W0 == [start |-> 0, bs |-> FALSE, space |-> FALSE, quote |-> ""]
StepW(s, i, c) ==      \* i = 0-based index of c
  LET s1 == IF s.space THEN [s EXCEPT !.space = FALSE, !.start = i] ELSE s IN
  IF c = "\\" THEN [s1 EXCEPT !.bs = TRUE]
  ELSE IF c = " " /\ ~s1.bs /\ s1.quote = "" THEN [s1 EXCEPT !.space = TRUE]
  ELSE LET s2 == IF s1.quote = "" /\ ~s1.bs /\ c \in {"\"", "'"} THEN [s1 EXCEPT !.quote = c]
                 ELSE IF s1.quote # "" /\ ~s1.bs /\ s1.quote = c THEN [s1 EXCEPT !.quote = ""]
                 ELSE s1
       IN [s2 EXCEPT !.bs = FALSE]
RECURSIVE RunW(_, _, _)
RunW(s, line, i) == IF i > Len(line) THEN s ELSE RunW(StepW(s, i - 1, line[i]), line, i + 1)
Start(line) == LET s == RunW(W0, line, 1) IN IF s.space THEN Len(line) ELSE s.start

\* reference: quote / escape tracking as the reference reader does it (a backslash escapes exactly the next character,
\* except inside single quotes; inside double quotes it escapes too)
R0 == [start |-> 0, mode |-> "U", bsq |-> FALSE]     \* bsq: a backslash was seen inside single quotes
StepRef(s, i, c) ==
  CASE s.mode = "E"  -> [s EXCEPT !.mode = "U"]
    [] s.mode = "DE" -> [s EXCEPT !.mode = "D"]
    [] s.mode = "S"  -> IF c = "'" THEN [s EXCEPT !.mode = "U"] ELSE IF c = "\\" THEN [s EXCEPT !.bsq = TRUE] ELSE s
    [] s.mode = "D"  -> IF c = "\"" THEN [s EXCEPT !.mode = "U"] ELSE IF c = "\\" THEN [s EXCEPT !.mode = "DE"] ELSE s
    [] OTHER -> IF c = "\\" THEN [s EXCEPT !.mode = "E"]
                ELSE IF c = "'" THEN [s EXCEPT !.mode = "S"]
                ELSE IF c = "\"" THEN [s EXCEPT !.mode = "D"]
                ELSE IF c = " " THEN [s EXCEPT !.start = i + 1]
                ELSE s
RECURSIVE RunRef(_, _, _)
RunRef(s, line, i) == IF i > Len(line) THEN s ELSE RunRef(StepRef(s, i - 1, line[i]), line, i + 1)
RefStart(line) == RunRef(R0, line, 1).start
StartAgrees(line) == Start(line) = RefStart(line)
BackslashInSingleQuotes(line) == RunRef(R0, line, 1).bsq
=============================================================================
