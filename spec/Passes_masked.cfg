SPECIFICATION Spec
CONSTANTS Mode = "masked" MaxAtoms = 3
INVARIANT NoHiddenCommand
INVARIANT Exact
CHECK_DEADLOCK FALSE
