SPECIFICATION Spec
CONSTANT Mode = "once"
CONSTANT MaxSegs = 3
CONSTANT ValsA <- VA_all
CONSTANT ValsB <- VB_all
INVARIANT Exact
INVARIANT Progress
INVARIANT Emit
PROPERTY Terminates
CHECK_DEADLOCK FALSE
