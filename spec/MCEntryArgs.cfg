SPECIFICATION Spec
CONSTANT Mode = "splice"
INVARIANT PassOK
INVARIANT Emit
CHECK_DEADLOCK FALSE
