----------------------------- MODULE ScriptStatus -----------------------------
(* Script arguments, functions, `source`, exit statuses, `exit N`, `set -e` (property C15).
   A program is a sequence of top-level statements:
     [k |-> "c",  st]         an external command with status class st ("z" / "nz")
     [k |-> "call", f]        a call of function f (functions are defined at the top of the script)
     [k |-> "src", s]         `source` of file s
     [k |-> "exit", n]        exit n
     [k |-> "sete"]           set -e
     [k |-> "if", cst, st]    if <condition with status cst> ; <one command with status st> ; fi
     [k |-> "for", pat]       for v in <words> ; <one command whose status in iteration j is pat[j]> ; done
   Function and file bodies are sequences of "c" and "exit" statements (constants FBody, SBody).
   Reference (the property): the status after a statement is that of the last command executed;
   a function call's and a source's status is that of the last command they executed; `exit n`
   ends everything with n; after `set -e` the first failing command -- wherever it runs: top
   level, function, sourced file, if-body -- ends the script with its status (a failing *condition*
   does not).  The script's exit status is the status at the end.
   Implementation-shaped: the constant Legacy re-enables what the pinned code does differently:
     "funcstatus0"  a function call always yields status 0 (core.rs::try_run_func)
     "sete_local"   a `set -e` failure inside a function / if-body only leaves that construct
                    (scripting.rs::run_exp returns from one nesting level)                  *)
EXTENDS Naturals, Sequences, FiniteSets, TLC

CONSTANTS MaxStmts, Funcs, Files, FBody, SBody, Legacy, ForPats

Stmts == {[k |-> "c", st |-> s] : s \in {"z", "nz"}}
         \cup {[k |-> "call", f |-> f] : f \in Funcs}
         \cup {[k |-> "src", s |-> s] : s \in Files}
         \cup {[k |-> "exit", n |-> n] : n \in {0, 4}}
         \cup {[k |-> "sete"]}
         \cup {[k |-> "if", cst |-> c, st |-> s] : c \in {"z", "nz"}, s \in {"z", "nz"}}
         \cup {[k |-> "for", pat |-> p] : p \in ForPats}

VARIABLES prog, done
vars == <<prog, done>>
Init == prog = <<>> /\ done = FALSE
Add(s) == ~done /\ Len(prog) < MaxStmts /\ prog' = Append(prog, s) /\ UNCHANGED done
Finish == ~done /\ Len(prog) >= 1 /\ done' = TRUE /\ UNCHANGED prog
Next == (\E s \in Stmts : Add(s)) \/ Finish
Spec == Init /\ [][Next]_vars

S0 == [ev |-> <<>>, status |-> "z", n |-> 0, exited |-> FALSE, sete |-> FALSE, stop |-> FALSE]
\* run one command: event, status, set -e
Cmd(s, id, frame, st, ref) ==
  LET s1 == [s EXCEPT !.ev = Append(@, [id |-> id, frame |-> frame]), !.status = st, !.n = IF st = "z" THEN 0 ELSE 1]
  IN IF s.sete /\ st = "nz"
     THEN (IF ref THEN [s1 EXCEPT !.exited = TRUE] ELSE [s1 EXCEPT !.stop = TRUE])
     ELSE s1
\* a body of "c" / "exit" statements run in frame `frame`; `ref` = reference semantics
RECURSIVE Body(_, _, _, _, _, _)
Body(s, body, j, idp, frame, ref) ==
  IF j > Len(body) \/ s.exited \/ s.stop THEN s
  ELSE LET b == body[j] IN
       IF b.k = "c" THEN Body(Cmd(s, <<idp, j>>, frame, b.st, ref), body, j + 1, idp, frame, ref)
       ELSE Body([s EXCEPT !.exited = TRUE, !.status = "n", !.n = b.n], body, j + 1, idp, frame, ref)

Step(s, st, i, ref) ==
  CASE st.k = "c"    -> LET r == Cmd(s, <<i, 0>>, "script", st.st, ref) IN
                        IF r.stop THEN [r EXCEPT !.exited = TRUE, !.stop = FALSE] ELSE r      \* top level: the script ends
    [] st.k = "exit" -> [s EXCEPT !.exited = TRUE, !.status = "n", !.n = st.n]
    [] st.k = "sete" -> [s EXCEPT !.sete = TRUE, !.status = "z", !.n = 0]
    [] st.k = "call" -> LET r == Body(s, FBody[st.f], 1, i, st.f, ref)
                            r2 == IF ~ref /\ "funcstatus0" \in Legacy /\ ~r.exited THEN [r EXCEPT !.status = "z", !.n = 0] ELSE r
                        IN IF r2.stop
                           THEN (IF "sete_local" \in Legacy THEN [r2 EXCEPT !.stop = FALSE]
                                 ELSE [r2 EXCEPT !.stop = FALSE, !.exited = TRUE])
                           ELSE (IF ~ref /\ r2.sete /\ r2.status = "nz" /\ ~r2.exited THEN [r2 EXCEPT !.exited = TRUE] ELSE r2)
    [] st.k = "src"  -> LET r == Body(s, SBody[st.s], 1, i, st.s, ref) IN
                        IF r.stop THEN [r EXCEPT !.stop = FALSE, !.exited = TRUE] ELSE r     \* the status check after `source` ends the script
    [] st.k = "if"   -> LET s1 == [s EXCEPT !.ev = Append(@, [id |-> <<i, 9>>, frame |-> "cond"])] IN
                        IF st.cst = "nz" THEN s1
                        ELSE LET r == Cmd(s1, <<i, 1>>, "script", st.st, ref) IN
                             IF r.stop THEN (IF "sete_local" \in Legacy THEN [r EXCEPT !.stop = FALSE]
                                             ELSE [r EXCEPT !.stop = FALSE, !.exited = TRUE])
                             ELSE r
\* for loop: the body command runs once per word; iteration j has status pat[j]
RECURSIVE Loop(_, _, _, _, _)
Loop(s, pat, j, i, ref) ==
  IF j > Len(pat) \/ s.exited \/ s.stop THEN s
  ELSE LET r == Cmd(s, <<i, j>>, "script", pat[j], ref) IN
       IF r.stop /\ ~ref /\ "sete_local" \in Legacy THEN Loop([r EXCEPT !.stop = FALSE], pat, j + 1, i, ref)   \* the pinned loop goes on
       ELSE Loop(r, pat, j + 1, i, ref)
StepAll(s, st, i, ref) ==
  IF st.k = "for"
  THEN LET r == Loop(s, st.pat, 1, i, ref) IN IF r.stop THEN [r EXCEPT !.stop = FALSE, !.exited = TRUE] ELSE r
  ELSE Step(s, st, i, ref)
RECURSIVE Run(_, _, _)
Run(s, i, ref) == IF i > Len(prog) \/ s.exited THEN s ELSE Run(StepAll(s, prog[i], i, ref), i + 1, ref)
Ref  == Run(S0, 1, TRUE)
Impl == Run(S0, 1, FALSE)
Agree == done => Ref.ev = Impl.ev /\ Ref.status = Impl.status /\ Ref.n = Impl.n
=============================================================================
