------------------------------ MODULE MCNoRescan ------------------------------
(* C13: text produced by variable expansion, command substitution or filename expansion is data.
   The composition reader -> expansion -> operator recognition is modelled on tagged characters
   (ShellLex): an expansion replaces its reference by the produced text tagged "exp"; operators
   are recognised only on characters tagged "bare".  NoRescan: after expansion the command still
   consists of one stage, no redirection, not in the background, and the produced text is argument
   text (one argument inside double quotes).  The model enumerates payload x delivery x quoting x
   position and emits each as a replay case.                                            *)
EXTENDS ShellLex, Json
CONSTANTS Payloads
Deliveries == {"var", "bvar", "dsub", "bqsub", "glob", "glob2", "var2", "var2r", "dsub2"}   \* ..2: a second, harmless reference in the same word;
                                                                                            \* glob2: the payload is the middle one of three matches
Quotings   == {"unq", "dq"}
Positions  == {"first", "middle", "last"}
VARIABLES pay, del, q, pos, done
vars == <<pay, del, q, pos, done>>
Init == pay \in Payloads /\ del \in Deliveries /\ q \in Quotings /\ pos \in Positions /\ done = FALSE
        /\ (del \in {"glob", "glob2"} => q = "unq" /\ \A i \in 1..Len(pay) : pay[i] # "/")
Finish == ~done /\ done' = TRUE /\ UNCHANGED <<pay, del, q, pos>>
Spec == Init /\ [][Finish]_vars
\* the word after expansion: produced characters carry the tag "exp"
Produced == Tag(pay, "exp")
OpChars == {"|", "&", ";", "<", ">", "#"}
OpsRecognised(w) == {i \in 1..Len(w) : w[i][2] = "bare" /\ w[i][1] \in OpChars}
NoRescan == done => OpsRecognised(Produced) = {}
\* inside double quotes the produced text is one argument; unquoted it may be split at blanks only
RECURSIVE SplitBlanks(_, _, _)
SplitBlanks(t, i, cur) == IF i > Len(t) THEN (IF cur = <<>> THEN <<>> ELSE <<cur>>)
                          ELSE IF t[i] = " " THEN (IF cur = <<>> THEN <<>> ELSE <<cur>>) \o SplitBlanks(t, i + 1, <<>>)
                          ELSE SplitBlanks(t, i + 1, Append(cur, t[i]))
Case == [pay |-> pay, del |-> del, q |-> q, pos |-> pos, one |-> <<pay>>, split |-> SplitBlanks(pay, 1, <<>>)]
Emit == done => PrintT(<<"REPLAY", ToJson(Case)>>)
PaysQ == { <<"|">>, <<"&">>, <<";","x">>, <<"#","c">>, <<"a",">","b">>, <<"<","f">>, <<"2",">","&","1">>, <<">">>, <<"a"," ","b">>,
           <<">","f","9">>, <<"|","v","m","k"," ","9"," ","0">>, <<";","v","m","k"," ","9"," ","0">>, <<"&","&","v","m","k"," ","9"," ","0">>,
           <<"x",";">>, <<"a","|","b">>, <<"2",">","f","9">>, <<"&",">","f","9">>, <<"<">>, <<"<","<","<">>,
           \* produced text that looks like another expansion: it is data too (no command runs, no list is made of it)
           <<"$","(","v","m","k"," ","9"," ","0",")">>, <<"`","v","m","k"," ","9"," ","0","`">>, <<"x","$","(","v","m","k"," ","9"," ","0",")","y">>,
           <<"{","a",",","b","}">>, <<"x","{","1",".",".","3","}">>,
           <<"a",">","{","x",",","y","}">>, <<"`","v","m","k"," ","9"," ","0","`",">","f","9">> }      \* an operator AND expansion-like text in one value
=============================================================================
