---- MODULE MCEnvDir0 ----
EXTENDS EnvDir
====
