---- MODULE MCEnvDir0 ----
EXTENDS EnvDir
ShapesSmall == {<<"A">>, <<"A", "B">>, <<"B", "AB", "A">>, <<"A", "A">>}
PairsSmall == {<<"A", "B">>, <<"A", "A">>}
====
