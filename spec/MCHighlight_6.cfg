SPECIFICATION Spec
CONSTANT MaxLen = 6
INVARIANT Emit
INVARIANT PartitionOK
INVARIANT GreenOK
CHECK_DEADLOCK FALSE
