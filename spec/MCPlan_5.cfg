SPECIFICATION Spec
CONSTANT MaxLen = 5
CONSTANT Alphabet <- AlphaFull
INVARIANT Emit
INVARIANT T1
INVARIANT T2
INVARIANT T3
CHECK_DEADLOCK FALSE
