SPECIFICATION Spec
CONSTANT JobDefs <- JD_2p1
CONSTANT MaxEvents = 6
CONSTANT MaxBuiltins = 1
CONSTANT Legacy <- NoDrain
VIEW view
INVARIANT TableMatchesLive
INVARIANT StatusMatches
INVARIANT UniqueIds
INVARIANT IdsSmallestFree
INVARIANT ReturnedWhenDue
INVARIANT StatusOfLast
INVARIANT NoOverWait
INVARIANT PollOnlyWhenDue
INVARIANT NoStuckEvent
INVARIANT TtyAtPrompt
INVARIANT TtyInFg
CHECK_DEADLOCK FALSE
