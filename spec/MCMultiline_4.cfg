SPECIFICATION Spec
CONSTANTS MaxPiece = 3 MaxPieces = 2
INVARIANT Emit
INVARIANT JoinTheorem
CHECK_DEADLOCK FALSE
