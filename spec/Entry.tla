------------------------------- MODULE Entry -------------------------------
(* C16: the five entry points of the shell as pre-processing pipelines in front of the
   one reader / list runner.

     -c            : the text as given
     prompt        : multi-line prompt trimming, !! expansion, then the text
     script / function body / sourced file :
                     every line goes through the positional-parameter pass
                     (scripting.rs::expand_args) and only then to run_command_line

   The property: for every entry e, Read(Pre(e, line)) = Read(line) -- quoting, escapes
   and list operators survive the pass.  Two models of the pass:

     "rerender" - the pinned code: tokenize the whole line, substitute in the tokens,
                  re-render the tokens to text (parse_line -> tokens_to_line).  The
                  tokens remember only one separator per token, so the escape marks of an
                  unquoted word are forgotten (named deviation ForgetEscapes).
     "splice"   - the repaired design: walk the text once, replace positional references
                  where they stand (not inside '..' or `..`, not after a backslash), copy
                  everything else verbatim.                                              *)
EXTENDS ShellLex

Digits == {"0", "1", "2"}

\* ---------------------------------------------------------------- the "splice" pass
\* a positional reference at position i of the line:  $N  ${N}  $@  ${@}  (regex \$\{?([0-9]+|@)\}?)
At(line, i) == IF i <= Len(line) THEN line[i] ELSE ""
RECURSIVE DigitsFrom(_, _)
DigitsFrom(line, i) == IF At(line, i) \in Digits THEN 1 + DigitsFrom(line, i + 1) ELSE 0
KeyStart(line, i) == IF At(line, i + 1) = "{" THEN i + 2 ELSE i + 1
KeyLen(line, i)   == LET k == KeyStart(line, i) IN IF At(line, k) = "@" THEN 1 ELSE DigitsFrom(line, k)
IsRef(line, i)    == At(line, i) = "$" /\ KeyLen(line, i) > 0
RefLen(line, i)   == LET k == KeyStart(line, i) n == KeyLen(line, i) IN
                     (k - i) + n + (IF At(line, k + n) = "}" THEN 1 ELSE 0)
DigitVal(d) == CASE d = "0" -> 0 [] d = "1" -> 1 [] OTHER -> 2
RECURSIVE NumOf(_, _, _)
NumOf(line, k, n) == IF n = 0 THEN 0 ELSE NumOf(line, k, n - 1) * 10 + DigitVal(line[k + n - 1])
JoinArgs(args) == IF Len(args) < 2 THEN <<>>
                  ELSE FoldLeft(LAMBDA acc, j : acc \o (IF j = 2 THEN <<>> ELSE <<" ">>) \o args[j], <<>>, [j \in 1 .. Len(args) - 1 |-> j + 1])
\* args[1] is $0 (the script name), args[2] is $1, ...
RefValue(line, i, args) ==
  LET k == KeyStart(line, i) n == KeyLen(line, i) IN
  IF At(line, k) = "@" THEN JoinArgs(args)
  ELSE LET v == NumOf(line, k, n) IN IF v + 1 <= Len(args) THEN args[v + 1] ELSE <<>>
EscDq(t) == FoldLeft(LAMBDA acc, c : IF c = "\"" THEN acc \o <<"\\", c>> ELSE Append(acc, c), <<>>, t)

RECURSIVE Splice(_, _, _, _)
Splice(line, i, q, args) ==
  IF i > Len(line) THEN <<>>
  ELSE LET c == line[i] IN
    IF c = "\\" /\ q # "'"
    THEN <<c>> \o (IF i + 1 <= Len(line) THEN <<line[i + 1]>> ELSE <<>>) \o Splice(line, i + 2, q, args)
    ELSE IF IsRef(line, i) /\ q \notin {"'", "`"}
    THEN (IF q = "\"" THEN EscDq(RefValue(line, i, args)) ELSE RefValue(line, i, args))
         \o Splice(line, i + RefLen(line, i), q, args)
    ELSE LET nq == IF q = "" THEN (IF c \in {"'", "\"", "`"} THEN c ELSE "")
                   ELSE (IF c = q THEN "" ELSE q)
         IN <<c>> \o Splice(line, i + 1, nq, args)

\* ---------------------------------------------------------------- the "rerender" pass (pinned)
\* what the tokenizer remembers of a word: one separator and the text
TokOf(w) == LET t == Untag(w) IN
  IF Len(w) = 0 THEN [sep |-> "\"", text |-> t]                 \* an empty word can only have been written as quotes
  ELSE IF \A i \in 1..Len(w) : w[i][2] = "sq" THEN [sep |-> "'", text |-> t]
  ELSE IF \A i \in 1..Len(w) : w[i][2] = "dq" THEN [sep |-> "\"", text |-> t]
  ELSE [sep |-> "", text |-> t]                                   \* ForgetEscapes
\* tokens_to_line / wrap_sep_string: an unquoted token is written as it is, a quoted one between its
\* separators with the separator character escaped
RenderTok(k) == IF k.sep = "" THEN k.text
                ELSE <<k.sep>> \o FoldLeft(LAMBDA acc, c : IF c = k.sep THEN acc \o <<"\\", c>> ELSE Append(acc, c), <<>>, k.text)
                     \o <<k.sep>>
RenderStage(st) == FoldLeft(LAMBDA acc, w : (IF acc = <<>> THEN <<>> ELSE acc \o <<" ">>) \o RenderTok(TokOf(w)), <<>>, st.words)
RenderSeg(sg)   == FoldLeft(LAMBDA acc, st : (IF acc = <<>> THEN <<>> ELSE acc \o <<" ", "|", " ">>) \o RenderStage(st), <<>>, sg.stages)
OpChars(op) == CASE op = ";" -> <<" ", ";", " ">> [] op = "&&" -> <<" ", "&", "&", " ">>
                 [] op = "||" -> <<" ", "|", "|", " ">> [] OTHER -> <<>>
ReRender(line) == FoldLeft(LAMBDA acc, sg : acc \o RenderSeg(sg) \o OpChars(sg.op), <<>>, Read(line).segs)

\* ---------------------------------------------------------------- the entry points
Entries == {"c", "prompt", "script", "function", "source"}
HasNewline(line) == \E i \in 1..Len(line) : line[i] = "N"
HasBangBang(line) == \E i \in 1..Len(line) - 1 : line[i] = "!" /\ line[i + 1] = "!"
Pre(e, line, args, mode) ==
  CASE e = "c" -> line
    [] e = "prompt" -> line          \* for lines without a newline and without !! (the generators' fragment)
    [] OTHER -> IF mode = "splice" THEN Splice(line, 1, "", args) ELSE ReRender(line)

\* the reading of a line; "escaped inside double quotes" (dqe) counts as "inside double quotes" here
NormWord(w)  == [i \in 1..Len(w) |-> <<w[i][1], IF w[i][2] = "dqe" THEN "dq" ELSE w[i][2]>>]
NormStage(t) == [t EXCEPT !.words = [i \in 1..Len(t.words) |-> NormWord(t.words[i])]]
NormSeg(g)   == [g EXCEPT !.stages = [i \in 1..Len(g.stages) |-> NormStage(g.stages[i])]]
Meaning(line) == LET sg == Read(line).segs IN [i \in 1..Len(sg) |-> NormSeg(sg[i])]
EntryEquiv(line, args, mode) == \A e \in Entries : Meaning(Pre(e, line, args, mode)) = Meaning(line)
=============================================================================
