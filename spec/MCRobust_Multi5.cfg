SPECIFICATION Spec
CONSTANT MaxLen = 5
CONSTANT Alphabet <- AMulti
INVARIANT Total
INVARIANT Emit
CHECK_DEADLOCK FALSE
