SPECIFICATION Spec
CONSTANT MaxR = 2
CONSTANT Kinds = {"ext", "bout", "berr"}
CONSTANT Positions = {"only", "first", "middle", "last"}
INVARIANT Emit
INVARIANT Conservation
INVARIANT NoRedirNoTouch
INVARIANT LeftToRight
CHECK_DEADLOCK FALSE
