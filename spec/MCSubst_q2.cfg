SPECIFICATION Spec
CONSTANT Outputs <- OutsQ
CONSTANT Kinds = {"simple"}
CONSTANT Ctxs = {"unq", "dq"}
CONSTANT TwoSubs = {TRUE}
INVARIANT Emit
CHECK_DEADLOCK FALSE
