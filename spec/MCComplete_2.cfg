SPECIFICATION Spec
CONSTANT MaxLen = 2
CONSTANT Alphabet <- NameAlphabet
CONSTANT Mode = "inverse"
INVARIANT InverseOK
INVARIANT Emit
CHECK_DEADLOCK FALSE
