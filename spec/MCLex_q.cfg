SPECIFICATION Spec
CONSTANT MaxLen = 2
CONSTANT Alphabet <- FullAlphabet
CONSTANT Styles <- AllStyles
INVARIANT Correct
INVARIANT Emit
CHECK_DEADLOCK FALSE
