SPECIFICATION TSpec
CONSTANT MaxN = 99
CONSTANT MinN = 1
CONSTANT OnSkip = "continue"
CONSTRAINT Track
INVARIANT TRanIsPrefix
INVARIANT TCorrect
INVARIANT TAfterSemi
INVARIANT TFirstRuns
POSTCONDITION Accepted
CHECK_DEADLOCK FALSE
