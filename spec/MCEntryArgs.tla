---------------------------- MODULE MCEntryArgs ----------------------------
(* C16 / C15, the positional-parameter pass itself: a reference to a positional parameter
   in each quote context, next to a word whose escapes and quotes must survive the pass.
   The expected reading is written down directly (not through the pass): inside double
   quotes the value is one piece of the word whatever it contains, inside single quotes
   and after a backslash the reference is literal text, unquoted a simple value is
   spliced into the word.                                                           *)
EXTENDS Entry, Json
CONSTANT Mode

S(t) == t
Refs  == { <<"$","1">>, <<"$","{","1","}">>, <<"$","2">>, <<"$","{","2","}">>, <<"$","@">>, <<"$","{","@","}">>,
           <<"$","0">>, <<"$","1","0">>, <<"$","{","1","0","}">> }
Pres  == { <<>>, <<"a">>, <<"-",">">> }
Posts == { <<>>, <<"b">>, <<".","x">> }
Ctxs  == {"bare", "dq", "sq", "esc", "dqesc"}
Nbs   == { <<"a","\\",";","b">>, <<"'","q",";","r","'">>, <<"\"","x"," ","y","\"">>, <<"\\","&","\\","&">>, <<"\\","'">>,
           <<"a","\\"," ","b">>, <<"\\","\\">> }
NbWord(n) == CASE n = <<"a","\\",";","b">> -> << <<"a","bare">>, <<";","esc">>, <<"b","bare">> >>
               [] n = <<"'","q",";","r","'">> -> Tag(<<"q",";","r">>, "sq")
               [] n = <<"\"","x"," ","y","\"">> -> Tag(<<"x"," ","y">>, "dq")
               [] n = <<"\\","&","\\","&">> -> Tag(<<"&","&">>, "esc")
               [] n = <<"\\","'">> -> Tag(<<"'">>, "esc")
               [] n = <<"a","\\"," ","b">> -> << <<"a","bare">>, <<" ","esc">>, <<"b","bare">> >>
               [] OTHER -> Tag(<<"\\">>, "esc")
SimpleVals == { <<"v">>, <<>>, <<"v","w">> }
DqVals     == SimpleVals \cup { <<"v"," ","w">>, <<"x","\"","y">>, <<"a",";","b">>, <<"'">> }

VARIABLES ctx, ref, pre, post, nb, v1, v2
vars == <<ctx, ref, pre, post, nb, v1, v2>>
Init == /\ ctx \in Ctxs /\ ref \in Refs /\ pre \in Pres /\ post \in Posts /\ nb \in Nbs
        /\ v1 \in (IF ctx = "bare" THEN SimpleVals ELSE DqVals)
        /\ v2 \in (IF ctx = "bare" THEN SimpleVals ELSE {<<"z">>, <<>>})
        /\ (ctx # "bare" => pre # <<"-",">">>)        \* an unquoted > is a redirection, not part of this model
        /\ (ctx = "bare" => pre # <<"-",">">>)
        /\ ~(ref \in { <<"$","@">>, <<"$","{","@","}">> } /\ v1 = <<>> /\ v2 = <<>>)   \* "$@" of empty arguments: not defined by the statement
Next == UNCHANGED vars
Spec == Init /\ [][Next]_vars

Args == << <<"s","c">>, v1, v2 >>
Core == pre \o ref \o post
Word == CASE ctx = "bare" -> Core
          [] ctx = "dq"   -> <<"\"">> \o Core \o <<"\"">>
          [] ctx = "sq"   -> <<"'">> \o Core \o <<"'">>
          [] ctx = "esc"  -> pre \o <<"\\">> \o ref \o post
          [] ctx = "dqesc" -> <<"\"">> \o pre \o <<"\\">> \o ref \o post \o <<"\"">>
Line == <<"v","p","a"," ">> \o nb \o <<" ">> \o Word \o <<" ","z">>

\* the value the reference stands for
IsAt  == ref \in { <<"$","@">>, <<"$","{","@","}">> }
Idx   == CASE ref \in { <<"$","1">>, <<"$","{","1","}">> } -> 1
           [] ref \in { <<"$","2">>, <<"$","{","2","}">> } -> 2
           [] ref = <<"$","0">> -> 0
           [] OTHER -> 10
Val   == IF IsAt THEN v1 \o <<" ">> \o v2
         ELSE IF Idx = 0 THEN <<"s","c">> ELSE IF Idx = 1 THEN v1 ELSE IF Idx = 2 THEN v2 ELSE <<>>
B(t) == Tag(t, "bare")
\* expected words of the argument under test (a sequence of 0..n words)
ExpWords ==
  CASE ctx = "sq"  -> << Tag(Core, "sq") >>
    [] ctx = "esc" -> << B(pre) \o << <<"$", "esc">> >> \o B(Tail(ref)) \o B(post) >>
    [] ctx = "dq"  -> << Tag(pre \o Val \o post, "dq") >>
    [] ctx = "dqesc" -> << Tag(Core, "dq") >>            \* the escaped $ is literal text inside the double quotes
    [] OTHER -> IF IsAt
                THEN LET ps == SelectSeq(<< pre \o v1, v2 \o post >>, LAMBDA t : t # <<>>) IN [i \in 1..Len(ps) |-> B(ps[i])]
                ELSE IF pre \o Val \o post = <<>> THEN <<>> ELSE << B(pre \o Val \o post) >>
Expected == << [stages |-> << [words |-> << B(<<"v","p","a">>), NbWord(nb) >> \o ExpWords \o << B(<<"z">>) >>, redirs |-> 0] >>,
                op |-> "", bg |-> FALSE] >>

PassOK == \A e \in {"script", "function", "source"} : Meaning(Pre(e, Line, Args, Mode)) = Expected
Str(s) == FoldLeft(LAMBDA a, c : a \o c, "", s)
Case == [line |-> Str(Line), args |-> <<Str(v1), Str(v2)>>, ctx |-> ctx, ref |-> Str(ref),
         spliced |-> Str(Splice(Line, 1, "", Args)),      \* what the repaired pass must hand to the list runner (conformance)
         argv |-> [i \in 1..Len(Expected[1].stages[1].words) |-> Str(Untag(Expected[1].stages[1].words[i]))]]
Emit == PrintT(<<"REPLAY", ToJson(Case)>>)
=============================================================================
