----------------------------- MODULE MCPipeScen -----------------------------
(* C02 scenario generator and reference outcome.  A scenario is a pipeline of n stages; every
   stage has a kind, the first a payload class, the last an exit class, and the stages finish
   in a prescribed order (rank).  Expected(…) is the reference semantics of C02:
     - status  = the last stage's exit status (128 + signal when it was killed)
     - exact   = TRUE when the chain is producer, filters, consumer without early exits: the
                 last stage must then receive exactly the bytes produced
     - starts  = which stages are external programs that must report exactly one start       *)
EXTENDS Naturals, Sequences, FiniteSets, TLC, Json
CONSTANTS MaxN, Payloads, Exits
FirstKinds == {"prod", "builtin", "notfound", "none"}
MidKinds   == {"filt", "early", "notfound", "builtin"}
LastKinds  == {"cons", "early", "none"}
VARIABLES kinds, payload, exit, rank, done
vars == <<kinds, payload, exit, rank, done>>
Init == kinds = <<>> /\ payload \in Payloads /\ exit \in Exits /\ rank = <<>> /\ done = FALSE
Add(k) == /\ ~done /\ Len(kinds) < MaxN
          /\ kinds' = Append(kinds, k) /\ UNCHANGED <<payload, exit, rank, done>>
\* ranks: a permutation of 1..n chosen when the scenario is finished
Perms(n) == {f \in [1..n -> 1..n] : \A i, j \in 1..n : i # j => f[i] # f[j]}
Finish(f) == /\ ~done /\ Len(kinds) >= 1
             /\ kinds[1] \in FirstKinds \/ Len(kinds) = 1
             /\ rank' = f /\ done' = TRUE /\ UNCHANGED <<kinds, payload, exit>>
KindOK(i, k, n) == IF n = 1 THEN k \in {"prod", "none", "cons"}
                   ELSE IF i = 1 THEN k \in FirstKinds ELSE IF i = n THEN k \in LastKinds ELSE k \in MidKinds
WellFormed == \A i \in 1..Len(kinds) : KindOK(i, kinds[i], Len(kinds))
Next == (\E k \in FirstKinds \cup MidKinds \cup LastKinds : Add(k))
        \/ (\E f \in Perms(Len(kinds)) : Finish(f) /\ WellFormed)
Spec == Init /\ [][Next]_vars
n == Len(kinds)
Exact == /\ n >= 2 /\ kinds[1] = "prod" /\ kinds[n] = "cons"
         /\ \A i \in 2..(n-1) : kinds[i] = "filt"
StatusOf(e) == CASE e = "ok" -> 0 [] e = "e3" -> 3 [] e = "e255" -> 255 [] e = "k9" -> 137 [] e = "k15" -> 143
External(k) == k \in {"prod", "filt", "cons", "early", "none"}
Case == [kinds |-> kinds, payload |-> payload, exit |-> exit, rank |-> rank,
         status |-> IF External(kinds[n]) THEN StatusOf(exit) ELSE 0,
         exact |-> Exact, starts |-> [i \in 1..n |-> External(kinds[i])]]
Emit == done => PrintT(<<"REPLAY", ToJson(Case)>>)
\* sanity of the reference itself
StatusRange == done => Case.status \in 0..255
=============================================================================
