----------------------------- MODULE MCSplitter -----------------------------
EXTENDS Splitter, Json
CONSTANTS MaxLen
SplitAlphabet == {"a", " ", "'", "\"", "`", "\\", ";", "&", "|", "#", "U"}
VARIABLES txt, done
vars == <<txt, done>>
Init == txt = <<>> /\ done = FALSE
Add(c) == ~done /\ Len(txt) < MaxLen /\ txt' = Append(txt, c) /\ UNCHANGED done
Finish == ~done /\ done' = TRUE /\ UNCHANGED txt
Next == (\E c \in SplitAlphabet : Add(c)) \/ Finish
Spec == Init /\ [][Next]_vars
Str(s) == FoldLeft(LAMBDA a, c : a \o c, "", s)
Case == LET cm == Cmds(txt) IN [s |-> Str(txt), cmds |-> [k \in 1..Len(cm) |-> Str(cm[k])], agrees |-> SplitAgrees(txt)]
Emit == done => PrintT(<<"REPLAY", ToJson(Case)>>)
\* on lines whose quotes are balanced and that have no backslash, comment or backquote the splitter finds exactly the reader's operators
PlainLine(t) == /\ \A i \in 1..Len(t) : t[i] \notin {"\\", "#", "`"}
            /\ Read(t).mode = "U"
PlainAgrees == done /\ PlainLine(txt) => SplitAgrees(txt)
=============================================================================
