SPECIFICATION Spec
CONSTANT MaxLen = 4
INVARIANT Total
INVARIANT Emit
CHECK_DEADLOCK FALSE
