SPECIFICATION Spec
CONSTANT MaxLen = 5
INVARIANT Emit
INVARIANT PlainAgrees
CHECK_DEADLOCK FALSE
