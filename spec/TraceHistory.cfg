SPECIFICATION Spec
CONSTRAINT Track
CHECK_DEADLOCK FALSE
