------------------------------- MODULE Launch -------------------------------
(* How run_pipeline puts the stages of one pipeline into a process group of their own
   and hands the terminal to it (core.rs: fork loop; property C07 "every pipeline runs in
   its own process group led by its first stage", "the terminal belongs to the foreground
   job while it runs").

   Kernel rules modelled: setpgid(p, g) succeeds iff g = p (p becomes a group leader) or
   some live process is already in group g; tcsetpgrp(g) succeeds iff group g exists.
   Each stage is forked by the shell in order; the child then runs its own start-up steps
   concurrently with the shell and with its siblings:

     Fork(i)            shell   forks stage i (the child starts in the shell's group)
     ParentSetpgid(i)   shell   setpgid(pid_i, pid_1)      - only in Mode "both"
     GiveTerminal       shell   tcsetpgrp(pid_1) after forking stage 1 (foreground job)
     ChildSetpgid(i)    stage   setpgid(0, pid_1)          (i = 1: setpgid(0, own pid))
     ChildExec(i)       stage   the program starts; from here on it can be observed

   Mode "child-only" is core.rs as pinned (only the children call setpgid): a later stage
   can reach its setpgid before the first stage has created the group, the call fails and
   the stage stays in the shell's group - found on the real binary by a C07 session and
   reproduced on demand with the schedule point child0_pre_setpgid.
   Mode "both" is the repaired code: the shell makes the same call right after each fork. *)
EXTENDS Naturals, FiniteSets
CONSTANTS N, Mode        \* number of stages; "child-only" | "both"
Stages == 1..N
ShellGroup == 0
Leader == 1              \* the group id of the job is the pid of stage 1 (pids are the stage numbers)
VARIABLES forked,        \* number of stages forked so far
          pset,          \* stages for which the shell has made its setpgid call
          group,         \* stage -> group it is in
          cpc,           \* stage -> "unborn" | "start" | "grouped" | "execd"
          tty,           \* foreground group of the terminal
          gave           \* the shell has called tcsetpgrp
vars == <<forked, pset, group, cpc, tty, gave>>

GroupExists(g) == \E s \in Stages : cpc[s] # "unborn" /\ group[s] = g
Setpgid(s, g) == IF g = s \/ GroupExists(g) THEN [group EXCEPT ![s] = g] ELSE group    \* EPERM: unchanged

Init == forked = 0 /\ pset = {} /\ group = [s \in Stages |-> ShellGroup] /\ cpc = [s \in Stages |-> "unborn"]
        /\ tty = ShellGroup /\ gave = FALSE
\* the shell's steps are sequential: fork i, (setpgid i), (give terminal after stage 1), fork i+1, ...
ShellReady == forked = Cardinality(pset) \/ Mode = "child-only"
Fork == /\ forked < N /\ (Mode = "both" => forked \in {Cardinality(pset)})
        /\ (forked = 1 => gave)
        /\ forked' = forked + 1 /\ cpc' = [cpc EXCEPT ![forked + 1] = "start"]
        /\ UNCHANGED <<pset, group, tty, gave>>
ParentSetpgid == /\ Mode = "both" /\ forked > Cardinality(pset)
                 /\ group' = Setpgid(forked, Leader) /\ pset' = pset \cup {forked}
                 /\ UNCHANGED <<forked, cpc, tty, gave>>
GiveTerminal == /\ forked = 1 /\ ~gave /\ (Mode = "both" => 1 \in pset)
                /\ gave' = TRUE /\ tty' = IF GroupExists(Leader) THEN Leader ELSE tty
                /\ UNCHANGED <<forked, pset, group, cpc>>
ChildSetpgid(s) == /\ cpc[s] = "start"
                   /\ group' = Setpgid(s, Leader) /\ cpc' = [cpc EXCEPT ![s] = "grouped"]
                   /\ UNCHANGED <<forked, pset, tty, gave>>
ChildExec(s) == /\ cpc[s] = "grouped" /\ cpc' = [cpc EXCEPT ![s] = "execd"]
                /\ UNCHANGED <<forked, pset, group, tty, gave>>
Next == Fork \/ ParentSetpgid \/ GiveTerminal \/ (\E s \in Stages : ChildSetpgid(s) \/ ChildExec(s))
Spec == Init /\ [][Next]_vars

\* C07: once a stage runs its program it is in the job's own group, led by the first stage
OwnGroup == \A s \in Stages : cpc[s] = "execd" => group[s] = Leader
\* C07: once the shell has handed over the terminal, the job owns it
TerminalGiven == gave => tty = Leader
AllStarted == \A s \in Stages : cpc[s] = "execd"
=============================================================================
