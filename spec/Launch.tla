------------------------------- MODULE Launch -------------------------------
(* How run_pipeline puts the stages of one pipeline into a process group of their own
   and hands the terminal to it (core.rs: fork loop; property C07 "every pipeline runs in
   its own process group led by its first stage", "the terminal belongs to the foreground
   job while it runs").

   Kernel rules modelled: setpgid(p, g) succeeds iff g = p (p becomes a group leader) or
   some live process is already in group g; tcsetpgrp(g) succeeds iff group g exists.
   Each stage is forked by the shell in order; the child then runs its own start-up steps
   concurrently with the shell and with its siblings:

     Fork(i)            shell   forks stage i (the child starts in the shell's group)
     ParentSetpgid(i)   shell   setpgid(pid_i, pid_1)      - only in Mode "both"
     GiveTerminal       shell   tcsetpgrp(pid_1) after forking stage 1 (foreground job)
     ChildSetpgid(i)    stage   setpgid(0, pid_1)          (i = 1: setpgid(0, own pid))
     ChildExec(i)       stage   the program starts; from here on it can be observed

   Mode "child-only" is core.rs as pinned (only the children call setpgid): a later stage
   can reach its setpgid before the first stage has created the group, the call fails and
   the stage stays in the shell's group - found on the real binary by a C07 session and
   reproduced on demand with the schedule point child0_pre_setpgid.
   Mode "both" is the repaired code: the shell makes the same call right after each fork.

   The terminal: TtyMode "parent-only" is core.rs as pinned - only the shell calls tcsetpgrp, so the
   first stage's program can start (and read the terminal: SIGTTIN, the job is stopped) before the
   terminal is its group's; found by a C16 prompt run (status 149) and reproduced on demand with the
   schedule point parent_after_fork0.  TtyMode "both" is the repaired code: the first stage gives the
   terminal to its own group before it runs its program (ChildTakeTerminal).  SIGCHLD is blocked
   while a command line runs (main.rs), so a stage that has ended stays a zombie - its group goes on
   existing - until the shell waits for the job after the launch (ChildGone); the shell then takes
   the terminal back if its own tcsetpgrp call had succeeded (run_pipeline's term_given).        *)
EXTENDS Naturals, FiniteSets
CONSTANTS N, Mode,       \* number of stages; "child-only" | "both"
          TtyMode        \* "parent-only" | "both"
Stages == 1..N
ShellGroup == 0
Leader == 1              \* the group id of the job is the pid of stage 1 (pids are the stage numbers)
VARIABLES forked,        \* number of stages forked so far
          pset,          \* stages for which the shell has made its setpgid call
          group,         \* stage -> group it is in
          cpc,           \* stage -> "unborn" | "start" | "grouped" | "execd"
          tty,           \* foreground group of the terminal
          gave,          \* the shell has called tcsetpgrp
          tgiven,        \* run_pipeline's term_given: the shell will take the terminal back after the job
          finished       \* the shell has waited for the job and is about to show the prompt
vars == <<forked, pset, group, cpc, tty, gave, tgiven, finished>>

GroupExists(g) == \E s \in Stages : cpc[s] \notin {"unborn", "gone"} /\ group[s] = g
Setpgid(s, g) == IF g = s \/ GroupExists(g) THEN [group EXCEPT ![s] = g] ELSE group    \* EPERM: unchanged

Init == forked = 0 /\ pset = {} /\ group = [s \in Stages |-> ShellGroup] /\ cpc = [s \in Stages |-> "unborn"]
        /\ tty = ShellGroup /\ gave = FALSE /\ tgiven = FALSE /\ finished = FALSE
\* the shell's steps are sequential: fork i, (setpgid i), (give terminal after stage 1), fork i+1, ...
ShellReady == forked = Cardinality(pset) \/ Mode = "child-only"
Fork == /\ forked < N /\ (Mode = "both" => forked \in {Cardinality(pset)})
        /\ (forked = 1 => gave)
        /\ forked' = forked + 1 /\ cpc' = [cpc EXCEPT ![forked + 1] = "start"]
        /\ UNCHANGED <<pset, group, tty, gave, tgiven, finished>>
ParentSetpgid == /\ Mode = "both" /\ forked > Cardinality(pset)
                 /\ group' = Setpgid(forked, Leader) /\ pset' = pset \cup {forked}
                 /\ UNCHANGED <<forked, cpc, tty, gave, tgiven, finished>>
GiveTerminal == /\ forked = 1 /\ ~gave /\ (Mode = "both" => 1 \in pset)
                /\ gave' = TRUE /\ tty' = IF GroupExists(Leader) THEN Leader ELSE tty
                /\ tgiven' = GroupExists(Leader)
                /\ UNCHANGED <<forked, pset, group, cpc, finished>>
ChildSetpgid(s) == /\ cpc[s] = "start"
                   /\ group' = Setpgid(s, Leader)
                   /\ cpc' = [cpc EXCEPT ![s] = IF s = 1 /\ TtyMode = "both" THEN "grouped1" ELSE "grouped"]
                   /\ UNCHANGED <<forked, pset, tty, gave, tgiven, finished>>
\* the first stage: tcsetpgrp(own group) right after its setpgid (the group exists: it is in it)
ChildTakeTerminal == /\ cpc[1] = "grouped1" /\ tty' = group[1] /\ cpc' = [cpc EXCEPT ![1] = "grouped"]
                     /\ UNCHANGED <<forked, pset, group, gave, tgiven, finished>>
ChildExec(s) == /\ cpc[s] = "grouped" /\ cpc' = [cpc EXCEPT ![s] = "execd"]
                /\ UNCHANGED <<forked, pset, group, tty, gave, tgiven, finished>>
\* the program has ended and the shell's wait reaps it - only after the launch: until then it is a zombie and its group exists
Launched == forked = N /\ gave /\ (Mode = "both" => Cardinality(pset) = N)
ChildGone(s) == /\ Launched /\ cpc[s] = "execd" /\ cpc' = [cpc EXCEPT ![s] = "gone"]
                /\ UNCHANGED <<forked, pset, group, tty, gave, tgiven, finished>>
\* every stage has been forked and has ended: the shell takes the terminal back (execute.rs) and shows the prompt
ShellFinish == /\ ~finished /\ Launched /\ \A s \in Stages : cpc[s] = "gone"
               /\ finished' = TRUE /\ tty' = IF tgiven THEN ShellGroup ELSE tty
               /\ UNCHANGED <<forked, pset, group, cpc, gave, tgiven>>
Next == Fork \/ ParentSetpgid \/ GiveTerminal \/ ChildTakeTerminal \/ ShellFinish
        \/ (\E s \in Stages : ChildSetpgid(s) \/ ChildExec(s) \/ ChildGone(s))
Spec == Init /\ [][Next]_vars

\* C07: once a stage runs its program it is in the job's own group, led by the first stage
OwnGroup == \A s \in Stages : cpc[s] = "execd" => group[s] = Leader
\* C07: once the shell has handed over the terminal, the job owns it
TerminalGiven == gave /\ ~finished /\ GroupExists(Leader) => tty = Leader
\* C07: no program of the foreground job runs while the terminal is not its group's
RunsOwningTerminal == \A s \in Stages : cpc[s] = "execd" /\ group[s] = Leader => tty = Leader
\* C07: the terminal is the shell's again whenever the prompt returns
PromptOwnsTerminal == finished => tty = ShellGroup
AllStarted == \A s \in Stages : cpc[s] = "execd"
=============================================================================
