----------------------------- MODULE MCJobSim -----------------------------
(* Behaviour generator for the C06 replay: JobControl plus a history variable that records
   every step (action label, kernel truth, the model's table and parked maps).  One REPLAY
   line is printed per walk when it reaches length WalkLen.  Used with -simulate (random
   walks at bounds the exhaustive runs cannot reach) and, for tiny bounds, exhaustively
   (every behaviour up to WalkLen).                                               *)
EXTENDS MCJobControl, Json
CONSTANT WalkLen
VARIABLE hist
svars == <<vars, hist>>

Snap == [act |-> last, kst |-> kst, krep |-> krep, jobs |-> jobs, reapm |-> reapm, stopm |-> stopm,
         contm |-> contm, killm |-> killm, mode |-> mode, tty |-> tty]
Idle == /\ last' = [a |-> "idle"]
        /\ UNCHANGED <<kst, krep, jobs, reapm, stopm, contm, killm, mode, fg, pend, tty, known, launched, nev, nbi, retok, stok, idok>>
SInit == Init /\ hist = <<>>
SNext == /\ Len(hist) < WalkLen
         /\ (Next \/ Idle)
         /\ hist' = Append(hist, Snap')
SSpec == SInit /\ [][SNext]_svars
Emit == Len(hist) = WalkLen => PrintT(<<"REPLAY", ToJson(hist)>>)
\* the repaired design must satisfy the properties on every generated walk as well
=============================================================================
