SPECIFICATION Spec
CONSTANTS
  MaxLines = 5
  MaxAns = 1
  ForCounts = {0, 1, 2}
  MinLines = 1
INVARIANT Agree
INVARIANT Emit
CHECK_DEADLOCK FALSE
