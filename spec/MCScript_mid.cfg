SPECIFICATION Spec
CONSTANTS
  MaxLines = 7
  MaxAns = 1
  ForCounts = {2}
  MinLines = 7
INVARIANT Agree
INVARIANT Emit
CHECK_DEADLOCK FALSE
