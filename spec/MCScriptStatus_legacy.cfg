SPECIFICATION Spec
CONSTANTS
  MaxStmts = 3
  Funcs = {"f1", "f-2", "f_3"}
  Files = {"s1", "s2", "s3"}
  FBody <- FB
  SBody <- SB
  ForPats <- FP
  Legacy <- AllLegacy
INVARIANT Agree
INVARIANT Emit
CHECK_DEADLOCK FALSE
