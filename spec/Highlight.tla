------------------------------ MODULE Highlight ------------------------------
(* highlight.rs::CicadaHighlighter::highlight transcribed statement by statement: how the line
   editor colours the line while it is typed.  The tokens come from parse_line (Tokenizer.tla);
   find_token_range_heuristic maps each token back to a range of the line by looking for its
   separator and text after the current position; the first word of every command segment is
   green when it names a command (builtin / alias / program on PATH: IsCommand abstracts the
   lookup - in the enumerations only `cd` is one).

   Positions are character positions (0-based, end exclusive) - the code works on byte offsets,
   the conformance harness converts; the alphabet has no multi-byte white space (the code mixes a
   byte offset with a character index there).

   What the editor relies on (Partition): the styled ranges are in order, adjacent, and cover
   exactly the line - otherwise it would drop, duplicate or mis-slice text (named deviation: a range
   may be empty - the empty word of `''` right before a different quote, found by TLC as `''"''`).  And
   (OnlyFirstWords) a green range is a whole command word.                                 *)
EXTENDS Naturals, Sequences, SequencesExt, FiniteSets, TLC

Tz == INSTANCE Tokenizer

IsWs(c) == c \in {" ", "T"}
IsCommand(w) == w = <<"c", "d">>
StartsWith(t, i, w) == i + Len(w) - 1 <= Len(t) /\ \A k \in 1..Len(w) : t[i + k - 1] = w[k]     \* t[i..] starts with w (i 1-based)
SepSeq(sp) == IF sp = "" THEN <<>> ELSE <<sp>>

\* find_token_range_heuristic(line, start, token): start is a 0-based position; result <<from, to>> (0-based, end exclusive) or <<>>
FindRange(line, start, tok) ==
  LET nonws == {p \in (start + 1)..Len(line) : ~IsWs(line[p])} IN
  IF nonws = {} THEN <<>>
  ELSE LET p    == CHOOSE q \in nonws : \A r \in nonws : q <= r          \* 1-based index of the first non-blank
           sep  == SepSeq(tok.sep)
           w    == tok.text
           off1 == IF sep # <<>> /\ StartsWith(line, p, sep) THEN Len(sep) ELSE 0
       IN IF StartsWith(line, p + off1, w)
          THEN LET off2 == off1 + Len(w)
                   l    == off2 + (IF sep # <<>> /\ StartsWith(line, p + off2, sep) THEN Len(sep) ELSE 0)
               IN <<p - 1, p - 1 + l>>
          ELSE IF w = <<>> /\ sep # <<>> /\ StartsWith(line, p, sep) /\ StartsWith(line, p + Len(sep), sep)
               THEN <<p - 1, p - 1 + off1 + 2 * Len(sep)>>
          ELSE IF StartsWith(line, p, w) THEN <<p - 1, p - 1 + Len(w)>>
          ELSE <<>>

R(a, b, g) == [from |-> a, to |-> b, green |-> g]
SegEnd(w) == w \in {<<"|">>, <<"&", "&">>, <<"|", "|">>, <<";">>}

RECURSIVE Walk(_, _, _, _, _, _)
Walk(line, toks, i, cur, startseg, acc) ==
  IF i > Len(toks) THEN (IF cur < Len(line) THEN Append(acc, R(cur, Len(line), FALSE)) ELSE acc)
  ELSE LET r == FindRange(line, cur, toks[i]) IN
       IF r = <<>> THEN (IF cur < Len(line) THEN Append(acc, R(cur, Len(line), FALSE)) ELSE acc)
       ELSE LET w     == toks[i].text
                acc1  == IF r[1] > cur THEN Append(acc, R(cur, r[1], FALSE)) ELSE acc
                green == startseg /\ w # <<>> /\ IsCommand(w)
                seg1  == IF startseg /\ w # <<>> THEN FALSE ELSE startseg
                seg2  == IF SegEnd(w) THEN TRUE ELSE seg1
            IN Walk(line, toks, i + 1, r[2], seg2, Append(acc1, R(r[1], r[2], green)))

Styles(line) ==
  IF line = <<>> THEN <<>>
  ELSE LET toks == Tz!Tokens(line) IN
       IF toks = <<>> THEN <<R(0, Len(line), FALSE)>>
       ELSE Walk(line, toks, 1, 0, TRUE, <<>>)

Partition(line) ==
  LET s == Styles(line) IN
  line # <<>> => /\ s # <<>> /\ s[1].from = 0 /\ s[Len(s)].to = Len(line)
                 /\ \A k \in 1..Len(s) : s[k].from <= s[k].to
                 /\ \A k \in 2..Len(s) : s[k].from = s[k - 1].to
\* a green range is a command word, possibly with quote characters or an escaping backslash around it (`\cd` after an escaped `|`:
\* found by TLC at length 6)
OnlyFirstWords(line) ==
  \A k \in 1..Len(Styles(line)) :
    LET r == Styles(line)[k] IN
    r.green => SelectSeq(SubSeq(line, r.from + 1, r.to), LAMBDA c : c \notin {"'", "\"", "\\"}) = <<"c", "d">>
=============================================================================
