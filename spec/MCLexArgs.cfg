SPECIFICATION Spec
CONSTANT MaxArgs = 6
CONSTANT MaxLen = 8
INVARIANT Correct
INVARIANT Emit
CHECK_DEADLOCK FALSE
