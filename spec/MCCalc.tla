-------------------------------- MODULE MCCalc --------------------------------
(* every expression  n1 op1 n2 .. opk n(k+1)  (k <= MaxOps) over the operands, optionally with one
   parenthesised sub-range, with the reference value                                       *)
EXTENDS Calc, Json
CONSTANTS Operands, MaxOps
VARIABLES ts, pl, pr, done          \* tokens without parentheses; paren group around operands pl..pr (0 = none)
vars == <<ts, pl, pr, done>>
Init == ts \in {<<n>> : n \in Operands} /\ pl = 0 /\ pr = 0 /\ done = FALSE
NOps == (Len(ts) - 1) \div 2
Add(op, n) == ~done /\ NOps < MaxOps /\ ts' = ts \o <<op, n>> /\ UNCHANGED <<pl, pr, done>>
Finish(a, b) == /\ ~done /\ NOps >= 1 /\ done' = TRUE /\ pl' = a /\ pr' = b /\ UNCHANGED ts
                /\ (a = 0 /\ b = 0) \/ (1 <= a /\ a < b /\ b <= NOps + 1 /\ ~(a = 1 /\ b = NOps + 1))
Next == (\E op \in Ops, n \in Operands : Add(op, n)) \/ (\E a, b \in 0..(MaxOps + 1) : Finish(a, b))
Spec == Init /\ [][Next]_vars
\* insert the parentheses: operand k sits at token 2k-1
WithParens == IF pl = 0 THEN ts
              ELSE SubSeq(ts, 1, 2 * pl - 2) \o <<"(">> \o SubSeq(ts, 2 * pl - 1, 2 * pr - 1) \o <<")">> \o SubSeq(ts, 2 * pr, Len(ts))
E == Eval(WithParens)
Case == [toks |-> WithParens, v |-> E.v, exact |-> E.exact]
Emit == done => PrintT(<<"REPLAY", ToJson(Case)>>)
\* theorems of the reference: ^ is right-associative and binds tighter than * ; * tighter than +
Prec1 == Eval(<<"2", "+", "3", "*", "2">>).v = 8 /\ Eval(<<"2", "*", "3", "^", "2">>).v = 18 /\ Eval(<<"2", "^", "3", "^", "2">>).v = 512
Prec2 == Eval(<<"7", "-", "2", "-", "1">>).v = 4 /\ Eval(<<"7", "/", "2">>).v = 3 /\ Eval(<<"0", "-", "7", "/", "2">>).v = -3 /\ Eval(<<"(", "0", "-", "7", ")", "/", "2">>).v = -3
=============================================================================
