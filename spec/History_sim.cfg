SPECIFICATION Spec
CONSTANTS Texts = {"t1", "t2", "t3", "t4", "t5", "t6", "t7", "t8", "t9"} TypedTexts = {"vpa k", " vpa lead", "vpa 'q q'", "vpa a%b", "vpa a_b", "vpa U"}
  Pats = {"p1", "p2", "p3", "p4", "p5", "p6"} Dirs = {"d1", "d2", "d3"} WalkLen = 14 MaxRows = 10
INVARIANT UniqueIds
INVARIANT OrderKept
INVARIANT Emit
CHECK_DEADLOCK FALSE
