SPECIFICATION SSpec
CONSTANTS Names = {"A"} Values = {"x", "v w"} MaxOps = 999 WalkLen = 4
INVARIANT SAgree
INVARIANT Emit
CONSTANT ReadShapes <- ShapesAll
CONSTANT ReadMax = 1
CONSTANT PairShapes <- PairsOne
CHECK_DEADLOCK FALSE
