SPECIFICATION SSpec
CONSTANTS Names = {"A"} Values = {"x", "v w"} MaxOps = 999 WalkLen = 4
INVARIANT SAgree
INVARIANT Emit
CHECK_DEADLOCK FALSE
