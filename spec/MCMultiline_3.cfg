SPECIFICATION Spec
CONSTANTS MaxPiece = 2 MaxPieces = 3
INVARIANT Emit
INVARIANT JoinTheorem
CHECK_DEADLOCK FALSE
