------------------------------- MODULE History -------------------------------
(* History database shared by several shell processes (property C18).
   rows is the table: a sequence of [id, text, dir] in insertion order.  Operations:
     Add(t, d)      `history add` run by a short-lived shell process whose working directory is d
     Typed(t)       a line typed at the prompt of the interactive session: recorded unless it starts
                    with a blank or repeats the line recorded last by that session
     List, Search(pat)   never change rows
     Delete(ids)    removes exactly the rows with those ids
   Texts, patterns and directory names are opaque values: that no operation other than Delete
   removes or changes a row, and that every Add / recorded Typed appends exactly one row with the
   text unchanged, IS the injection-freedom statement.                                    *)
EXTENDS Naturals, Sequences, FiniteSets, TLC, Json
CONSTANTS Texts, TypedTexts, Pats, Dirs, WalkLen, MaxRows
VARIABLES rows, nextid, lastrec, hist
vars == <<rows, nextid, lastrec, hist>>
Init == rows = <<>> /\ nextid = 1 /\ lastrec = "" /\ hist = <<>>
Ids == {rows[i].id : i \in 1..Len(rows)}
Snapshot(r) == [i \in 1..Len(r) |-> [id |-> r[i].id, text |-> r[i].text]]
Rec(op) == hist' = Append(hist, op)
Add(t, d) == /\ Len(rows) < MaxRows
             /\ rows' = Append(rows, [id |-> nextid, text |-> t, dir |-> d]) /\ nextid' = nextid + 1
             /\ Rec([op |-> "add", text |-> t, dir |-> d, rows |-> Snapshot(rows')]) /\ UNCHANGED lastrec
LeadingBlank(t) == t \in {" vpa lead", " "}
Typed(t) == /\ Len(rows) < MaxRows
            /\ IF LeadingBlank(t) \/ t = lastrec
               THEN UNCHANGED <<rows, nextid, lastrec>>
               ELSE rows' = Append(rows, [id |-> nextid, text |-> t, dir |-> "session"]) /\ nextid' = nextid + 1 /\ lastrec' = t
            /\ Rec([op |-> "typed", text |-> t, recorded |-> ~(LeadingBlank(t) \/ t = lastrec), rows |-> Snapshot(rows')])
List == UNCHANGED <<rows, nextid, lastrec>> /\ Rec([op |-> "list", rows |-> Snapshot(rows)])
Search(p) == UNCHANGED <<rows, nextid, lastrec>> /\ Rec([op |-> "search", pat |-> p, rows |-> Snapshot(rows)])
Delete(S) == /\ S # {} /\ S \subseteq Ids
             /\ rows' = SelectSeq(rows, LAMBDA r : r.id \notin S)
             /\ Rec([op |-> "delete", ids |-> S, rows |-> Snapshot(rows')]) /\ UNCHANGED <<nextid, lastrec>>
Next == /\ Len(hist) < WalkLen
        /\ \/ \E t \in Texts, d \in Dirs : Add(t, d)
           \/ \E t \in TypedTexts : Typed(t)
           \/ List
           \/ \E p \in Pats : Search(p)
           \/ \E S \in SUBSET Ids : Cardinality(S) <= 2 /\ Delete(S)
Spec == Init /\ [][Next]_vars
\* reference theorems
AppendOnly == [][(\A i \in 1..Len(rows) : \E j \in 1..Len(rows') : rows'[j] = rows[i]) \/ hist'[Len(hist')].op = "delete"]_vars
UniqueIds == \A i, j \in 1..Len(rows) : rows[i].id = rows[j].id => i = j
OrderKept == \A i, j \in 1..Len(rows) : i < j => rows[i].id < rows[j].id
Emit == Len(hist) = WalkLen => PrintT(<<"REPLAY", ToJson(hist)>>)
=============================================================================
