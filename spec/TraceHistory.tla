----------------------------- MODULE TraceHistory -----------------------------
(* Validation of recorded history sessions: after every operation an independent SQLite client
   read the table; each record carries the operation, the rows it observed afterwards (rowid, text)
   and, for list / search, what the shell printed.  The model state is the table itself; every
   operation must transform it as History prescribes and the observation must equal it.     *)
EXTENDS Naturals, Sequences, FiniteSets, TLC, Json, IOUtils, TLCExt
Rec == ndJsonDeserialize(IOEnv.TRACE)
VARIABLES l, rows, lastrec
vars == <<l, rows, lastrec>>
Init == TLCSet(1, 1) /\ l = 1 /\ rows = <<>> /\ lastrec = ""
Ev == Rec[l]
Is(o) == l <= Len(Rec) /\ Ev.op = o /\ l' = l + 1
Texts(r) == [i \in 1..Len(r) |-> r[i].text]
IdsOf(r) == {r[i].id : i \in 1..Len(r)}
Reset == Is("reset") /\ rows' = <<>> /\ lastrec' = ""
\* exactly one new row, text unchanged, appended after all others, every old row untouched
Appended(t) == /\ Len(Ev.rows) = Len(rows) + 1
               /\ \A i \in 1..Len(rows) : Ev.rows[i] = rows[i]
               /\ Ev.rows[Len(Ev.rows)].text = t
               /\ Ev.rows[Len(Ev.rows)].id \notin IdsOf(rows)
               /\ \A i \in 1..Len(rows) : Ev.rows[Len(Ev.rows)].id > rows[i].id
Add == Is("add") /\ Appended(Ev.text) /\ rows' = Ev.rows /\ UNCHANGED lastrec
Typed == /\ Is("typed")
         /\ IF Ev.lead \/ Ev.text = lastrec
            THEN Ev.rows = rows /\ UNCHANGED <<rows, lastrec>>
            ELSE Appended(Ev.text) /\ rows' = Ev.rows /\ lastrec' = Ev.text
List == /\ Is("list") /\ Ev.rows = rows /\ UNCHANGED <<rows, lastrec>>
        /\ Ev.listed = Texts(rows)                                   \* a fresh process lists every row, in order
Search == /\ Is("search") /\ Ev.rows = rows /\ UNCHANGED <<rows, lastrec>>
          /\ Ev.ok                                                     \* no error
          /\ \A i \in 1..Len(rows) : Ev.contains[i] => \E k \in 1..Len(Ev.listed) : Ev.listed[k] = rows[i].text
Delete == /\ Is("delete")
          /\ Ev.rows = SelectSeq(rows, LAMBDA r : \A k \in 1..Len(Ev.ids) : r.id # Ev.ids[k])
          /\ rows' = Ev.rows /\ UNCHANGED lastrec
Next == Reset \/ Add \/ Typed \/ List \/ Search \/ Delete
Spec == Init /\ [][Next]_vars
Track == IF l > TLCGet(1) THEN TLCSet(1, l) /\ PrintT(<<"L", l>>) ELSE TRUE
Accepted == TRUE
=============================================================================
