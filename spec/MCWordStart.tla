---------------------------- MODULE MCWordStart ----------------------------
EXTENDS WordStart, Json, TLC
CONSTANTS MaxLen
WAlphabet == {"a", " ", "'", "\"", "\\", "U"}
VARIABLES txt, done
vars == <<txt, done>>
Init == txt = <<>> /\ done = FALSE
Add(c) == ~done /\ Len(txt) < MaxLen /\ txt' = Append(txt, c) /\ UNCHANGED done
Finish == ~done /\ done' = TRUE /\ UNCHANGED txt
Next == (\E c \in WAlphabet : Add(c)) \/ Finish
Spec == Init /\ [][Next]_vars
Str(s) == FoldLeft(LAMBDA a, c : a \o c, "", s)
Case == [s |-> Str(txt), start |-> Start(txt), ref |-> RefStart(txt)]
Emit == done => PrintT(<<"REPLAY", ToJson(Case)>>)
\* without an escaped backslash (\\) and without a backslash inside single quotes the code's answer is the reference's;
\* the two exceptions are deviations of the code (it lets a backslash escape the next character everywhere and never
\* un-sets that state on a second backslash)
NoDoubleBackslash(t) == \A i \in 1..Len(t) - 1 : ~(t[i] = "\\" /\ t[i + 1] = "\\")
AgreesUnlessDoubleBackslash == done /\ NoDoubleBackslash(txt) /\ ~BackslashInSingleQuotes(txt) => StartAgrees(txt)
=============================================================================
