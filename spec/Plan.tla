-------------------------------- MODULE Plan --------------------------------
(* The whole front end of the shell as one function of the characters of a line: what
   execute::run_command_line hands to the executor for a line that needs no expansion.

       line --line_to_cmds--> commands and list operators            (Splitter.tla)
            --parse_line----> tokens [sep, text] of each command      (Tokenizer.tla)
            --drain_env_tokens--> leading NAME=value words become the command's environment
            --background----> a final unquoted `&` word
            --split_tokens_by_pipes--> the stages
            --Command::from_tokens--> `<` / `<<<` and their word (redirect_from)
            --tokens_to_redirections--> argument tokens and output redirections   (RedirParse.tla)

   The glue (types.rs::CommandLine::from_line, drain_env_tokens, split_tokens_by_pipes,
   Command::from_tokens) is transcribed here statement by statement; the three parsers are the
   existing transcriptions.  do_expansion is the identity on the alphabets used (no $ ` * ? [ ~ {,
   no arithmetic, no alias defined).  Bound to the code by conformance: for every enumerated line
   the real line_to_cmds + CommandLine::from_line must return exactly PlanOf(line).

   Reference theorems (checked by TLC on every enumerated line):
     QuotedLineIsOneCommand  a line that is one quoted string (no backslash inside double quotes) is one command with
                             exactly that argument text: nothing inside it is an operator, a redirection or an assignment
     PlainWords              a line of plain words is one command with exactly those words as arguments
     EnvOnlyLeading          an assignment-shaped word after the command word stays an argument, a leading one becomes
                             the environment of the command and is no argument                                *)
EXTENDS Naturals, Sequences, SequencesExt, FiniteSets, TLC

Sp == INSTANCE Splitter
Tz == INSTANCE Tokenizer
Rp == INSTANCE RedirParse

Tok(sp, tx) == [sep |-> sp, text |-> tx]
ListOps == {<<";">>, <<"&", "&">>, <<"|", "|">>}

\* ---- drain_env_tokens
NameCh(c) == c \in {"a", "b", "2", "1", "_"}
HasEq(t) == \E k \in 1..Len(t) : t[k] = "="
EqPos(t) == CHOOSE k \in 1..Len(t) : t[k] = "=" /\ \A j \in 1..(k - 1) : t[j] # "="
IsAssign(t) == HasEq(t) /\ EqPos(t) >= 2 /\ \A j \in 1..(EqPos(t) - 1) : NameCh(t[j])
Unquote(v) == IF Len(v) >= 2 /\ v[1] = "\"" /\ v[Len(v)] = "\"" THEN SubSeq(v, 2, Len(v) - 1)
              ELSE IF Len(v) >= 2 /\ v[1] = "'" /\ v[Len(v)] = "'" THEN SubSeq(v, 2, Len(v) - 1)
              ELSE v
RECURSIVE NLeadingEnv(_, _)
NLeadingEnv(toks, i) == IF i <= Len(toks) /\ toks[i].sep = "" /\ IsAssign(toks[i].text) THEN NLeadingEnv(toks, i + 1) ELSE i - 1
\* the assignments in order (a later one of the same name replaces the earlier: a map in the code)
EnvPairs(toks) == [i \in 1..NLeadingEnv(toks, 1) |->
                     <<SubSeq(toks[i].text, 1, EqPos(toks[i].text) - 1), Unquote(SubSeq(toks[i].text, EqPos(toks[i].text) + 1, Len(toks[i].text)))>>]
AfterEnv(toks) == SubSeq(toks, NLeadingEnv(toks, 1) + 1, Len(toks))

\* ---- background
IsBg(toks) == Len(toks) > 1 /\ toks[Len(toks)] = Tok("", <<"&">>)
AfterBg(toks) == IF IsBg(toks) THEN SubSeq(toks, 1, Len(toks) - 1) ELSE toks

\* ---- split_tokens_by_pipes: <<>> when a stage is empty
IsPipe(t) == t = Tok("", <<"|">>)
RECURSIVE SplitFrom(_, _, _, _)
SplitFrom(toks, i, cur, acc) ==
  IF i > Len(toks) THEN (IF cur = <<>> THEN <<>> ELSE Append(acc, cur))
  ELSE IF IsPipe(toks[i]) THEN (IF cur = <<>> THEN <<>> ELSE SplitFrom(toks, i + 1, <<>>, Append(acc, cur)))
  ELSE SplitFrom(toks, i + 1, Append(cur, toks[i]), acc)
SplitPipes(toks) == SplitFrom(toks, 1, <<>>, <<>>)

\* ---- Command::from_tokens: the input-redirection loop
IsRF(t, op) == t.sep = "" /\ t.text = op
LT == <<"<">>
HS == <<"<", "<", "<">>
HasRF(toks) == \E i \in 1..Len(toks) : IsRF(toks[i], LT) \/ IsRF(toks[i], HS)
RemoveIdx(toks, i) == SubSeq(toks, 1, i - 1) \o SubSeq(toks, i + 1, Len(toks))
\* the repaired loop: the leftmost input redirection of either spelling is taken in every round, so the last one on the line
\* wins (the pinned code took the leftmost `<` and then the leftmost `<<<` in every round: `cmd <<< w < f` read w)
RECURSIVE RFLoop(_)
RFLoop(s) ==
  IF HasRF(s.toks)
  THEN LET i  == CHOOSE k \in 1..Len(s.toks) : (IsRF(s.toks[k], LT) \/ IsRF(s.toks[k], HS))
                                                /\ \A j \in 1..(k - 1) : ~(IsRF(s.toks[j], LT) \/ IsRF(s.toks[j], HS))
           op == s.toks[i].text
           t1 == RemoveIdx(s.toks, i)
       IN RFLoop(IF Len(t1) >= i THEN [toks |-> RemoveIdx(t1, i), typ |-> op, val |-> t1[i].text]
                 ELSE [toks |-> t1, typ |-> op, val |-> s.val])
  ELSE s

FromTokens(toks) ==
  LET s == RFLoop([toks |-> toks, typ |-> <<>>, val |-> <<>>])
      p == Rp!Parse(s.toks)
  IN IF ~p.ok THEN [ok |-> FALSE, err |-> p.err]
     ELSE [ok |-> TRUE, tokens |-> p.tokens, redirs |-> p.redirs, from |-> IF s.typ = <<>> THEN <<>> ELSE <<s.typ, s.val>>]

\* ---- CommandLine::from_line
RECURSIVE Build(_, _, _)
Build(stages, i, acc) ==
  IF i > Len(stages) THEN [ok |-> TRUE, commands |-> acc]
  ELSE LET c == FromTokens(stages[i]) IN
       IF ~c.ok THEN [ok |-> FALSE, err |-> c.err]
       ELSE IF c.tokens = <<>> THEN [ok |-> FALSE, err |-> "syntax error: command expected"]
       ELSE Build(stages, i + 1, Append(acc, c))
FromLine(seg) ==
  LET toks == Tz!Tokens(seg)
      rest == AfterEnv(toks)
      b    == Build(SplitPipes(AfterBg(rest)), 1, <<>>)
  IN IF ~b.ok THEN b
     ELSE [ok |-> TRUE, commands |-> b.commands, envs |-> EnvPairs(toks), background |-> IsBg(rest)]

PlanOf(line) ==
  LET segs == Sp!Cmds(line)
      cmds == SelectSeq(segs, LAMBDA t : t \notin ListOps)
  IN [segs |-> segs, plans |-> [k \in 1..Len(cmds) |-> FromLine(cmds[k])]]

\* ---- reference theorems
NoneOf(t, S) == \A i \in 1..Len(t) : t[i] \notin S
\* 'text' / "text" (text without quotes, and without backslash for the double-quoted form): one command, one argument
QuotedLineIsOneCommand(line) ==
  LET q == line[1] inner == SubSeq(line, 2, Len(line) - 1) IN
  (Len(line) >= 3 /\ q \in {"'", "\""} /\ line[Len(line)] = q /\ NoneOf(inner, {"'", "\"", "`"}) /\ (q = "\"" => NoneOf(inner, {"\\"})))
    => LET p == PlanOf(line) IN
       /\ p.segs = <<line>> /\ Len(p.plans) = 1 /\ p.plans[1].ok
       /\ Len(p.plans[1].commands) = 1 /\ p.plans[1].commands[1].tokens = <<Tok(q, inner)>>
       /\ p.plans[1].commands[1].redirs = <<>> /\ p.plans[1].commands[1].from = <<>>
       /\ p.plans[1].envs = <<>> /\ ~p.plans[1].background
\* blank-separated words of a line
RECURSIVE WordsFrom(_, _, _, _)
WordsFrom(t, i, cur, acc) ==
  IF i > Len(t) THEN (IF cur = <<>> THEN acc ELSE Append(acc, cur))
  ELSE IF t[i] = " " THEN WordsFrom(t, i + 1, <<>>, IF cur = <<>> THEN acc ELSE Append(acc, cur))
  ELSE WordsFrom(t, i + 1, Append(cur, t[i]), acc)
Words(t) == WordsFrom(t, 1, <<>>, <<>>)
PlainWords(line) ==
  (NoneOf(line, {"'", "\"", "`", "\\", "|", "&", ";", ">", "<", "=", "#", "2", "1"}) /\ Words(line) # <<>>)
    => LET p == PlanOf(line) w == Words(line) IN
       /\ Len(p.plans) = 1 /\ p.plans[1].ok /\ Len(p.plans[1].commands) = 1
       /\ p.plans[1].commands[1].tokens = [k \in 1..Len(w) |-> Tok("", w[k])]
       /\ p.plans[1].commands[1].redirs = <<>> /\ p.plans[1].envs = <<>> /\ ~p.plans[1].background
EnvOnlyLeading(line) ==
  LET w == Words(line) IN
  (NoneOf(line, {"'", "\"", "`", "\\", "|", "&", ";", ">", "<", "#"}) /\ Len(w) >= 2)
    => LET p == PlanOf(line) n == NLeadingEnv([k \in 1..Len(w) |-> Tok("", w[k])], 1) IN
       /\ Len(p.plans) = 1
       /\ (n < Len(w) => /\ p.plans[1].ok
                         /\ p.plans[1].commands[1].tokens = [k \in 1..(Len(w) - n) |-> Tok("", w[n + k])]
                         /\ Len(p.plans[1].envs) = n)
=============================================================================
