----------------------------- MODULE MCLexArgs -----------------------------
(* C01, argument lists: 0..MaxArgs arguments of up to MaxLen characters, each in its own
   style, written character by character (in -simulate mode this is the random
   generator for lines beyond the exhaustive bound of MCLex).  Same theorem.      *)
EXTENDS ShellLex, Json
CONSTANTS MaxArgs, MaxLen
Alphabet == Meta \cup Plain
Styles == {"sq", "dq", "bs"}
Ctxs == {"end", "pipe", "semi", "and", "or"}
VARIABLES args, cur, style, ctx, tight, done
vars == <<args, cur, style, ctx, tight, done>>

Init == args = <<>> /\ cur = <<>> /\ style \in Styles /\ ctx = "" /\ tight = FALSE /\ done = FALSE
Add(c) == /\ ~done /\ Len(cur) < MaxLen /\ OkChar(c, style)
          /\ cur' = Append(cur, c) /\ UNCHANGED <<args, style, ctx, tight, done>>
EndArg(s) == /\ ~done /\ Len(args) < MaxArgs - 1 /\ OkText(cur, style)
             /\ args' = Append(args, [txt |-> cur, style |-> style]) /\ cur' = <<>> /\ style' = s
             /\ UNCHANGED <<ctx, tight, done>>
Finish(x, tg, keep) ==
          /\ ~done /\ (x = "end" => ~tg)
          /\ (keep => OkText(cur, style))
          /\ args' = IF keep THEN Append(args, [txt |-> cur, style |-> style]) ELSE args
          /\ (~keep => cur = <<>>)
          /\ ctx' = x /\ tight' = tg /\ done' = TRUE /\ UNCHANGED <<cur, style>>
Next == (\E c \in Alphabet : Add(c)) \/ (\E s \in Styles : EndArg(s))
        \/ (\E x \in Ctxs, tg \in BOOLEAN, keep \in BOOLEAN : Finish(x, tg, keep))
Spec == Init /\ [][Next]_vars

Cmd == <<"v", "p", "a">>
Z   == <<"z">>
Sp  == <<" ">>
HeadTxt == FoldLeft(LAMBDA acc, a : acc \o Sp \o Render(a.txt, a.style), Cmd, args)
OpText == CASE ctx = "pipe" -> <<"|">> [] ctx = "semi" -> <<";">> [] ctx = "and" -> <<"&", "&">>
            [] ctx = "or" -> <<"|", "|">> [] OTHER -> <<>>
TailTxt == IF ctx = "end" THEN <<>>
           ELSE (IF tight THEN <<>> ELSE Sp) \o OpText \o (IF tight THEN <<>> ELSE Sp) \o Cmd \o Sp \o Z
Line == HeadTxt \o TailTxt
B(t) == Tag(t, "bare")
HeadWords == <<B(Cmd)>> \o [i \in 1..Len(args) |-> Tagged(args[i].txt, args[i].style)]
St(ws) == [words |-> ws, redirs |-> 0]
TailStage == St(<<B(Cmd), B(Z)>>)
Expected ==
  CASE ctx = "end"  -> << [stages |-> <<St(HeadWords)>>, op |-> "", bg |-> FALSE] >>
    [] ctx = "pipe" -> << [stages |-> <<St(HeadWords), TailStage>>, op |-> "", bg |-> FALSE] >>
    [] OTHER -> << [stages |-> <<St(HeadWords)>>, op |-> (IF ctx = "semi" THEN ";" ELSE IF ctx = "and" THEN "&&" ELSE "||"), bg |-> FALSE],
                   [stages |-> <<TailStage>>, op |-> "", bg |-> FALSE] >>
Correct == done => LET r == Read(Line) IN r.segs = Expected /\ r.mode = "U"
Case == [line |-> Line, args |-> args, ctx |-> ctx, tight |-> tight,
         segs |-> [i \in 1..Len(Expected) |->
                     [op |-> Expected[i].op,
                      stages |-> [j \in 1..Len(Expected[i].stages) |-> ArgvOf(Expected[i].stages[j])]]]]
Emit == done => PrintT(<<"REPLAY", ToJson(Case)>>)
=============================================================================
