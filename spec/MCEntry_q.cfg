SPECIFICATION Spec
CONSTANT MaxLen = 2
CONSTANT Alphabet <- FullAlphabet
CONSTANT Styles <- AllStyles
CONSTANT Mode = "splice"
INVARIANT Correct
INVARIANT EquivOK
INVARIANT Verbatim
CHECK_DEADLOCK FALSE
