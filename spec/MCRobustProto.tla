--------------------------- MODULE MCRobustProto ---------------------------
EXTENDS Robust
CONSTANT MaxServed
Bound == served <= MaxServed /\ probes <= MaxServed
=============================================================================
