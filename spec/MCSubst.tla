------------------------------- MODULE MCSubst -------------------------------
(* C11: command substitution splices the command's output in literally, exactly once.
   Reference: a word is  pre ++ $(cmd1) ++ mid ++ [$(cmd2)] ++ post ; its value is the
   concatenation with each substitution replaced by TrimNL(output) -- trailing newlines removed,
   everything else (including $1, ${x}, backslashes, braces, *, leading blanks) kept literally;
   each inner command runs exactly once.  The model enumerates spelling, position, context,
   inner-command kind and output text and emits every combination with its expected value.   *)
EXTENDS Naturals, Sequences, FiniteSets, TLC, Json
CONSTANTS Outputs,      \* set of output texts (sequences of characters, "N" = newline)
          Kinds, Ctxs, TwoSubs
RECURSIVE TrimNL(_)
TrimNL(t) == IF Len(t) > 0 /\ t[Len(t)] = "N" THEN TrimNL(SubSeq(t, 1, Len(t) - 1)) ELSE t
Spellings == {"dollar", "bq"}
Shapes    == {"whole", "start", "mid", "end"}
VARIABLES sp, shape, ctx, kind, o1, o2, two, done
vars == <<sp, shape, ctx, kind, o1, o2, two, done>>
Init == /\ sp \in Spellings /\ shape \in Shapes /\ ctx \in Ctxs /\ kind \in Kinds
        /\ o1 \in Outputs /\ two \in TwoSubs /\ o2 \in (IF two THEN Outputs ELSE {<<>>}) /\ done = FALSE
Finish == ~done /\ done' = TRUE /\ UNCHANGED <<sp, shape, ctx, kind, o1, o2, two>>
Spec == Init /\ [][Finish]_vars
Pre  == IF shape \in {"mid", "end"} THEN <<"p", "-">> ELSE <<>>
Post == IF shape \in {"mid", "start"} THEN <<"-", "q">> ELSE <<>>
Mid  == <<"+">>
\* what the inner command prints: nothing for a command that is not found or cannot be parsed
Out1 == IF kind \in {"notfound", "invalid"} THEN <<>> ELSE o1
Value == Pre \o TrimNL(Out1) \o (IF two THEN Mid \o TrimNL(o2) ELSE <<>>) \o Post
Runs  == IF kind \in {"notfound", "invalid"} THEN 0 ELSE 1
Case == [sp |-> sp, shape |-> shape, ctx |-> ctx, kind |-> kind, o1 |-> o1, o2 |-> o2, two |-> two,
         pre |-> Pre, post |-> Post, value |-> Value, runs1 |-> Runs]
Emit == done => PrintT(<<"REPLAY", ToJson(Case)>>)
\* theorems of the reference
OnlyTrailingNewlines == done => (Len(Out1) > 0 /\ Out1[1] # "N" => Len(TrimNL(Out1)) > 0)
Idempotent == done => TrimNL(TrimNL(o1)) = TrimNL(o1)
OutsQ == { <<"x">>, <<>>, <<"x","N","N">>, <<"a","$","1","b">>, <<"$","{","x","}">>, <<"$","n","a","m","e">>, <<"a","\\","b">>,
           <<"a"," ","b">>, <<"{","a",",","b","}">>, <<"*">> , <<"{","1",".",".","3","}">>, <<"x","{","a",",","b","}">>, <<"$","(","v","m","k"," ","9"," ","0",")">> }   \* text that looks like another expansion
OutsT == OutsQ \cup { <<" ","l">>, <<"t"," ","N">>, <<"x","N","y","N">>, <<"$","0">>, <<"\\","1">>, <<"$","$">>, <<"(",")">>, <<"&">>, <<"'">>, <<"\"">>, <<"'","q","'">> }
KQ == {"simple", "pipeline", "failing", "notfound", "invalid", "builtin"}
CQ == {"unq", "dq", "assign", "here"}
=============================================================================
