SPECIFICATION Spec
CONSTANT MaxWords = 3
CONSTANT MaxLen = 2
INVARIANT Emit
INVARIANT Thm1
INVARIANT Thm2
INVARIANT Thm3
CHECK_DEADLOCK FALSE
