SPECIFICATION Spec
CONSTANT MaxLen = 4
CONSTANT Alphabet <- AArith
INVARIANT Total
INVARIANT Emit
CHECK_DEADLOCK FALSE
