SPECIFICATION Spec
CONSTANTS
  N = 1
  Kinds <- K1x
  Units = 2
  Cap = 1
  DropParentCloseW = FALSE
  FailAt = 0
  LateFail = "clean"
  HereAt = 1
  HereUnits = 2
  SigpipeMode = "default"
  CapRedirect = FALSE
  CapCloseMode = "always"
  CapReadMode = "concurrent"
  Capture = FALSE
INVARIANT ShellAlive
INVARIANT ExecFds
INVARIANT ShellFdsRestored
INVARIANT NoForeignEnds
INVARIANT Delivery
INVARIANT FaultClean
PROPERTY Termination
CHECK_DEADLOCK FALSE
