---- MODULE MCPipeline ----
EXTENDS Pipeline
K2 == <<"prod", "cons">>
K3 == <<"prod", "filt", "cons">>
K3e == <<"prod", "early", "cons">>
K4 == <<"prod", "filt", "filt", "cons">>
K1e == <<"eprod">>
K2e == <<"prod", "eprod">>
K4e == <<"prod", "filt", "early", "cons">>
====
