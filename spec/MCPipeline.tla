---- MODULE MCPipeline ----
EXTENDS Pipeline
K2 == <<"prod", "cons">>
K3 == <<"prod", "filt", "cons">>
K3e == <<"prod", "early", "cons">>
K4 == <<"prod", "filt", "filt", "cons">>
K1e == <<"eprod">>
K2e == <<"prod", "eprod">>
K2h == <<"prod", "cons">>
K1c == <<"cons">>
K1x == <<"early">>
K4e == <<"prod", "filt", "early", "cons">>
====
