----------------------------- MODULE Tokenizer -----------------------------
(* parsers::parser_line::parse_line transcribed statement by statement (implementation-shaped):
   the hand-written tokenizer whose only memory of quoting is one separator per token.

   State (the Rust locals):  sep, sep2 (sep_second), tok (token), bs (has_backslash),
   paren (met_parenthesis), nr (new_round), skip (skip_next), dollar (has_dollar),
   pli (parens_left_ignored), made (sep_made), semi (semi_ok), res (result), stop (the `break`
   at an inline comment).  Tokens(line) folds Step over the characters; the branch for lines that
   are arithmetic (tools::is_arithmetic) is not modelled - the enumerations use no digits.

   The module is bound to the code by conformance: for every enumerated string the real
   parse_line must return exactly Tokens(line) and Complete(line) (drift = 0 is required of the
   unchanged tree; drift is a finding about the model, never by itself a property violation).
   AgreesWithReader compares the token texts with the words of the reference reader (ShellLex):
   where they differ the tokenizer has a deviation; the classes are listed by the driver and
   correspond to the recorded C01 / C20 findings.                                          *)
EXTENDS ShellLex

T(sp, tx) == [sep |-> sp, text |-> tx]
S0 == [sep |-> "", sep2 |-> "", tok |-> <<>>, bs |-> FALSE, paren |-> FALSE, nr |-> TRUE, skip |-> FALSE,
       dollar |-> FALSE, pli |-> FALSE, made |-> "", semi |-> FALSE, res |-> <<>>, stop |-> FALSE]

NameChar(c) == c \in {"a", "b", "e", "_", "0", "1", "2", "9", "A"}
\* libs::re::re_contains(&token, r"^[a-zA-Z0-9_]+=.*$")
IsEnvTok(t) == \E k \in 1..Len(t) : t[k] = "=" /\ k > 1 /\ \A j \in 1..(k - 1) : NameChar(t[j])

\* result.push of the current token with the separator the code chooses
PushMade(s) == IF s.sep = "" /\ s.made # "" THEN [s EXCEPT !.res = Append(@, T(s.made, s.tok)), !.made = ""]
               ELSE [s EXCEPT !.res = Append(@, T(s.sep, s.tok))]
PushMadeEmptySep(s) == IF s.sep = "" /\ s.made # "" THEN [s EXCEPT !.res = Append(@, T(s.made, s.tok)), !.made = ""]
                       ELSE [s EXCEPT !.res = Append(@, T("", s.tok))]
Reset(s) == [s EXCEPT !.sep = "", !.sep2 = "", !.tok = <<>>, !.nr = TRUE]
PipeTok == T("", <<"|">>)

\* the tail of the loop body: `c` is a quote character
OnQuote(s0, c) ==
  LET s == IF s0.sep # c /\ s0.semi THEN [Reset(PushMade(s0)) EXCEPT !.semi = FALSE] ELSE s0 IN
  IF s.sep # c /\ s.paren THEN [s EXCEPT !.tok = Append(@, c)]
  ELSE IF s.sep = "" /\ s.sep2 # "" /\ s.sep2 # c THEN [s EXCEPT !.tok = Append(@, c)]
  ELSE IF s.sep = ""
       THEN IF ~IsEnvTok(s.tok) /\ c \in {"'", "\""} THEN [s EXCEPT !.sep = c]
            ELSE [s EXCEPT !.tok = Append(@, c), !.sep2 = IF @ = "" THEN c ELSE IF @ = c THEN "" ELSE @]
  ELSE IF s.sep = c THEN [s EXCEPT !.semi = TRUE]
  ELSE [s EXCEPT !.tok = Append(@, c)]

OnBlank(s) ==
  IF s.semi THEN [Reset(PushMade(s)) EXCEPT !.semi = FALSE]
  ELSE IF s.paren THEN [s EXCEPT !.tok = Append(@, " ")]
  ELSE IF s.sep = "\\" THEN [s EXCEPT !.res = Append(@, T("\\", s.tok)), !.tok = <<>>, !.nr = TRUE]
  ELSE IF s.sep = ""
       THEN IF s.sep2 = "" THEN [PushMadeEmptySep(s) EXCEPT !.tok = <<>>, !.nr = TRUE]
            ELSE [s EXCEPT !.tok = Append(@, " ")]
  ELSE [s EXCEPT !.tok = Append(@, " ")]

OnPipe(s) ==      \* returns <<handled, state>>
  IF s.semi THEN <<TRUE, [Reset([PushMade(s) EXCEPT !.res = Append(@, PipeTok)]) EXCEPT !.semi = FALSE]>>
  ELSE IF ~s.paren /\ s.sep2 = "" /\ s.sep = ""
       THEN <<TRUE, Reset([PushMadeEmptySep(s) EXCEPT !.res = Append(@, PipeTok)])>>
  ELSE <<FALSE, s>>

InRound(s, c) ==      \* new_round = false: pipe / blank / quote / other
  IF c = "|" /\ OnPipe(s)[1] THEN OnPipe(s)[2]
  ELSE IF c = " " THEN OnBlank(s)
  ELSE IF c \in {"'", "\"", "`"} THEN OnQuote(s, c)
  ELSE [s EXCEPT !.tok = Append(@, c)]

NewRound(s, c, nxt) ==
  IF c = " " THEN s
  ELSE IF c \in {"\"", "'", "`"} THEN [s EXCEPT !.sep = c, !.nr = FALSE]
  ELSE LET s0 == [s EXCEPT !.sep = ""] IN
       IF c = "#" THEN [s0 EXCEPT !.stop = TRUE]
       ELSE IF c = "|"
            THEN IF nxt = "|" THEN [s0 EXCEPT !.res = Append(@, T("", <<"|", "|">>)), !.skip = TRUE]
                 ELSE [s0 EXCEPT !.res = Append(@, PipeTok)]
       ELSE [s0 EXCEPT !.tok = Append(@, c), !.nr = FALSE]

AfterParens(s, c, nxt) ==
  IF c = "\\" THEN (IF s.sep = "'" \/ s.sep2 # "" THEN [s EXCEPT !.tok = Append(@, c)] ELSE [s EXCEPT !.bs = TRUE])
  ELSE IF s.nr THEN NewRound(s, c, nxt)
  ELSE InRound(s, c)

Step(s, c, nxt, last) ==
  IF s.stop THEN s
  ELSE IF s.skip THEN [s EXCEPT !.skip = FALSE]
  ELSE IF s.bs /\ s.sep = "" /\ c \in {">", "<"}
       THEN [s EXCEPT !.made = "'", !.tok = Append(@, c), !.bs = FALSE, !.nr = FALSE]
  ELSE IF s.bs /\ s.sep = "\"" /\ c # "\""
       THEN [s EXCEPT !.tok = @ \o <<"\\", c>>, !.bs = FALSE]
  ELSE IF s.bs
       THEN IF s.nr /\ s.sep = "" /\ c \in {"|", "$"} /\ s.tok = <<>>
            THEN [s EXCEPT !.sep = "\\", !.tok = <<c>>, !.nr = FALSE, !.bs = FALSE]
            ELSE [s EXCEPT !.tok = Append(@, c), !.nr = FALSE, !.bs = FALSE]
  ELSE LET s1 == IF c = "$" THEN [s EXCEPT !.dollar = TRUE] ELSE s IN
       IF c = "(" /\ s1.sep = ""
       THEN IF ~s1.dollar /\ s1.tok = <<>> THEN [s1 EXCEPT !.pli = TRUE]
            ELSE AfterParens([s1 EXCEPT !.paren = TRUE], c, nxt)
       ELSE IF c = ")"
            THEN IF s1.pli /\ ~s1.dollar /\ (last \/ nxt = " ") THEN s1
                 ELSE AfterParens(IF s1.sep = "" THEN [s1 EXCEPT !.paren = FALSE] ELSE s1, c, nxt)
       ELSE AfterParens(s1, c, nxt)

RECURSIVE Run(_, _, _)
Run(s, line, i) == IF i > Len(line) THEN s
                   ELSE Run(Step(s, line[i], IF i < Len(line) THEN line[i + 1] ELSE "", i = Len(line)), line, i + 1)
Final(line) == Run(S0, line, 1)
Tokens(line) == LET s == Final(line) IN
                IF s.tok # <<>> \/ s.semi
                THEN Append(s.res, IF s.sep = "" /\ s.made # "" THEN T(s.made, s.tok) ELSE T(s.sep, s.tok))
                ELSE s.res
Complete(line) == LET s == Final(line) tk == Tokens(line) IN
                  /\ ~(tk # <<>> /\ tk[Len(tk)] = PipeTok)
                  /\ (s.sep # "" => s.semi)
                  /\ ~s.bs

\* ---- against the reference reader (one command, no list operators): the texts of the tokens vs the words
RefTexts(line) ==
  LET r == Read(line) IN
  IF Len(r.segs) # 1 THEN <<>>
  ELSE LET st == r.segs[1].stages IN
       FoldLeft(LAMBDA acc, j : acc \o (IF j > 1 THEN << <<"|">> >> ELSE <<>>) \o [k \in 1..Len(st[j].words) |-> Untag(st[j].words[k])],
                <<>>, [j \in 1..Len(st) |-> j])
TokTexts(line) == LET tk == Tokens(line) IN [k \in 1..Len(tk) |-> tk[k].text]
AgreesWithReader(line) == TokTexts(line) = RefTexts(line)
=============================================================================
