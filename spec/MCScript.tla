---- MODULE MCScript ----
EXTENDS Script, Json
Case == [lines |-> [i \in 1..Len(lines) |-> [k |-> lines[i].k, n |-> lines[i].n]],
         ans |-> [i \in 1..Len(lines) |-> answ[i]], out |-> Expected]
Emit == done => PrintT(<<"REPLAY", ToJson(Case)>>)
====
