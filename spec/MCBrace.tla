------------------------------- MODULE MCBrace -------------------------------
(* every string over {a, b, {, }, ,} up to MaxLen, with its reference expansion; strings on which
   the property is not specific (unbalanced braces, groups without a comma) are emitted as
   negatives (the implementation must merely not crash / hang).                          *)
EXTENDS WordExpand, Json
CONSTANT MaxLen
Alphabet == {"a", "b", "{", "}", ","}
VARIABLES t, done
vars == <<t, done>>
Init == t = <<>> /\ done = FALSE
Add(c) == ~done /\ Len(t) < MaxLen /\ t' = Append(t, c) /\ UNCHANGED done
Finish == ~done /\ Len(t) >= 1 /\ done' = TRUE /\ UNCHANGED t
Next == (\E c \in Alphabet : Add(c)) \/ Finish
Spec == Init /\ [][Next]_vars
Exp == BraceExpand(t)
Case == [t |-> t, balanced |-> Balanced(t), words |-> Exp]
Emit == done => PrintT(<<"REPLAY", ToJson(Case)>>)
\* theorems of the reference: the expansion of a string without groups is itself; the number of
\* words of  pre{x,y}  is the sum over the alternatives; expansion never loses the non-brace characters' order
NoGroupIdentity == done /\ (\A i \in 1..Len(t) : ~IsGroup(t, i)) => Exp = <<t>>
NonEmpty == done => Len(Exp) >= 1
=============================================================================
