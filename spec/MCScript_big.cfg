SPECIFICATION Spec
CONSTANTS
  MaxLines = 8
  MaxAns = 1
  ForCounts = {0, 1, 2}
  MinLines = 7
INVARIANT Agree
INVARIANT Emit
CHECK_DEADLOCK FALSE
