-------------------------------- MODULE Script --------------------------------
(* Scripts as line sequences (property C14).  The writer builds every line sequence that the
   block grammar admits (non-empty bodies, else / else if only inside an open if, break / continue
   only inside a loop); Parse turns the lines into an AST by recursive descent; BSeq / BNode / ...
   is the structured big-step semantics of the property (conditions decided by a programmed
   answer sequence per condition that ends in failure, so every while terminates; `for` binds its
   words in order; break / continue act on the innermost loop); RunExp / RunIf / RunFor / RunWhile
   is a one-to-one transcription of the recursive functions of scripting.rs with their
   (continue, break) return flags and the in_loop argument.  Agree: both produce the same event
   sequence for every script and every answer assignment.                            *)
EXTENDS Naturals, Sequences, FiniteSets, TLC

CONSTANTS MaxLines, MaxAns,  \* script length bound; answers per condition before it fails for good
          ForCounts,         \* word counts a for loop may have
          MinLines           \* shortest script the writer may finish (1 for exhaustive runs)

Kinds == {"c", "br", "co", "if", "ei", "el", "fi", "wh", "fo", "dn"}

VARIABLES answ,    \* the answer assignment chosen when the script is finished (for the emitted replay case)
          lines,   \* sequence of [k |-> kind, n |-> for-count]
          stack,   \* nesting: sequence of [t |-> "if"|"else"|"loop", len |-> body length so far]
          done
vars == <<lines, stack, done, answ>>

Init == lines = <<>> /\ stack = <<>> /\ done = FALSE /\ answ = <<>>

Top == stack[Len(stack)]
Bump(s) == IF s = <<>> THEN s ELSE [s EXCEPT ![Len(s)].len = @ + 1]
InLoop == \E i \in 1..Len(stack) : stack[i].t = "loop"
Pop(s) == SubSeq(s, 1, Len(s) - 1)

Add(k, n) ==
  /\ ~done /\ Len(lines) < MaxLines
  /\ lines' = Append(lines, [k |-> k, n |-> n])
  /\ done' = FALSE /\ UNCHANGED answ
  /\ CASE k = "c" -> stack' = Bump(stack)
       [] k \in {"br", "co"} -> InLoop /\ stack' = Bump(stack)
       [] k = "if" -> stack' = Append(Bump(stack), [t |-> "if", len |-> 0])
       [] k \in {"wh", "fo"} -> stack' = Append(Bump(stack), [t |-> "loop", len |-> 0])
       [] k = "ei" -> stack # <<>> /\ Top.t = "if" /\ Top.len > 0 /\ stack' = [stack EXCEPT ![Len(stack)].len = 0]
       [] k = "el" -> stack # <<>> /\ Top.t = "if" /\ Top.len > 0 /\ stack' = [stack EXCEPT ![Len(stack)] = [t |-> "else", len |-> 0]]
       [] k = "fi" -> stack # <<>> /\ Top.t \in {"if", "else"} /\ Top.len > 0 /\ stack' = Pop(stack)
       [] k = "dn" -> stack # <<>> /\ Top.t = "loop" /\ Top.len > 0 /\ stack' = Pop(stack)

CondLinesOf(ls) == {i \in 1..Len(ls) : ls[i].k \in {"if", "ei", "wh"}}
AnsSeqs == UNION {[1..m -> {0, 1}] : m \in 0..MaxAns}
Finish(a) == /\ ~done /\ stack = <<>> /\ Len(lines) >= MinLines /\ done' = TRUE
             /\ answ' = [i \in 1..MaxLines |-> IF i \in CondLinesOf(lines) THEN a[i] ELSE <<>>]
             /\ UNCHANGED <<lines, stack>>

Next == (\E k \in Kinds \ {"fo"} : Add(k, 0)) \/ (\E n \in ForCounts : Add("fo", n))
        \/ (\E a \in [CondLinesOf(lines) -> AnsSeqs] : Finish(a))
Spec == Init /\ [][Next]_vars

\* ---------------- parse: lines -> AST (recursive descent) ----------------
\* ParseBody(i) parses items from line i until a closer (ei/el/fi/dn) or end; returns [body, next]
RECURSIVE ParseBody(_, _), ParseIf(_, _), ParseArms(_, _, _)
ParseBody(ls, i) ==
  IF i > Len(ls) \/ ls[i].k \in {"ei", "el", "fi", "dn"} THEN [body |-> <<>>, next |-> i]
  ELSE LET l == ls[i] IN
       IF l.k \in {"c", "br", "co"} THEN
            LET r == ParseBody(ls, i + 1) IN [body |-> <<[k |-> l.k, id |-> i]>> \o r.body, next |-> r.next]
       ELSE IF l.k \in {"wh", "fo"} THEN
            LET b == ParseBody(ls, i + 1)            \* b.next is the "dn"
                r == ParseBody(ls, b.next + 1)
            IN [body |-> <<[k |-> l.k, id |-> i, n |-> l.n, body |-> b.body]>> \o r.body, next |-> r.next]
       ELSE \* "if"
            LET a == ParseArms(ls, i, <<>>)          \* a.next is just after "fi"
                r == ParseBody(ls, a.next)
            IN [body |-> <<[k |-> "if", id |-> i, arms |-> a.arms, els |-> a.els, haselse |-> a.haselse]>> \o r.body, next |-> r.next]
ParseArms(ls, i, arms) ==   \* i points at "if" or "ei" head
  LET b == ParseBody(ls, i + 1)
      arms2 == Append(arms, [c |-> i, body |-> b.body])
      closer == ls[b.next]
  IN IF closer.k = "ei" THEN ParseArms(ls, b.next, arms2)
     ELSE IF closer.k = "el" THEN
          LET e == ParseBody(ls, b.next + 1) IN [arms |-> arms2, els |-> e.body, haselse |-> TRUE, next |-> e.next + 1]
     ELSE [arms |-> arms2, els |-> <<>>, haselse |-> FALSE, next |-> b.next + 1]
ParseIf(ls, i) == ParseArms(ls, i, <<>>)

\* ---------------- oracle: answers for condition evaluations ----------------
\* st.used[c] = how many times condition c was evaluated; answer = ans[c][used+1] or 1 (fail) when exhausted
Answer(ans, st, c) == IF st.used[c] < Len(ans[c]) THEN ans[c][st.used[c] + 1] ELSE 1
Use(st, c) == [st EXCEPT !.used[c] = @ + 1, !.out = Append(@, <<"cond", c>>)]
Mark(st, id) == [st EXCEPT !.out = Append(@, <<"cmd", id, st.v>>)]
Bind(st, it) == [st EXCEPT !.v = it]

\* ---------------- reference: structured big-step semantics ----------------
\* returns [st, sig] with sig in {"none","brk","cont"}; loops consume brk/cont
RECURSIVE BSeq(_, _, _, _, _), BNode(_, _, _, _), BArms(_, _, _, _, _), BWhile(_, _, _, _), BFor(_, _, _, _, _)
BSeq(ans, body, i, st, inloop) ==
  IF i > Len(body) THEN [st |-> st, sig |-> "none"]
  ELSE LET r == BNode(ans, body[i], st, inloop) IN
       IF r.sig # "none" THEN r ELSE BSeq(ans, body, i + 1, r.st, inloop)
BNode(ans, nd, st, inloop) ==
  CASE nd.k = "c" -> [st |-> Mark(st, nd.id), sig |-> "none"]
    [] nd.k = "br" -> [st |-> st, sig |-> IF inloop THEN "brk" ELSE "none"]
    [] nd.k = "co" -> [st |-> st, sig |-> IF inloop THEN "cont" ELSE "none"]
    [] nd.k = "if" -> BArms(ans, nd, 1, st, inloop)
    [] nd.k = "wh" -> [st |-> BWhile(ans, nd, st, 0), sig |-> "none"]
    [] nd.k = "fo" -> [st |-> BFor(ans, nd, st, 1, 0), sig |-> "none"]
BArms(ans, nd, j, st, inloop) ==
  IF j > Len(nd.arms) THEN (IF nd.haselse THEN BSeq(ans, nd.els, 1, st, inloop) ELSE [st |-> st, sig |-> "none"])
  ELSE LET c == nd.arms[j].c
           a == Answer(ans, st, c)
           st1 == Use(st, c)
       IN IF a = 0 THEN BSeq(ans, nd.arms[j].body, 1, st1, inloop) ELSE BArms(ans, nd, j + 1, st1, inloop)
BWhile(ans, nd, st, fuel) ==
  LET a == Answer(ans, st, nd.id)
      st1 == Use(st, nd.id)
  IN IF a # 0 THEN st1
     ELSE LET r == BSeq(ans, nd.body, 1, st1, TRUE) IN
          IF r.sig = "brk" THEN r.st ELSE BWhile(ans, nd, r.st, fuel + 1)
BFor(ans, nd, st, it, fuel) ==
  IF it > nd.n THEN st
  ELSE LET r == BSeq(ans, nd.body, 1, Bind(st, it), TRUE) IN
       IF r.sig = "brk" THEN r.st ELSE BFor(ans, nd, r.st, it + 1, fuel)

\* ---------------- transcription of scripting.rs (cont, brk) flags ----------------
RECURSIVE RunExp(_, _, _, _, _), RunIf(_, _, _, _, _, _, _), RunWhile(_, _, _), RunFor(_, _, _, _)
\* run_exp: returns [st, cont, brk]
RunExp(ans, body, i, st, inloop) ==
  IF i > Len(body) THEN [st |-> st, cont |-> FALSE, brk |-> FALSE]
  ELSE LET nd == body[i] IN
    CASE nd.k = "c" -> RunExp(ans, body, i + 1, Mark(st, nd.id), inloop)
      [] nd.k = "co" -> IF inloop THEN [st |-> st, cont |-> TRUE, brk |-> FALSE] ELSE RunExp(ans, body, i + 1, st, inloop)
      [] nd.k = "br" -> IF inloop THEN [st |-> st, cont |-> FALSE, brk |-> TRUE] ELSE RunExp(ans, body, i + 1, st, inloop)
      [] nd.k = "if" -> LET r == RunIf(ans, nd, 1, st, inloop, FALSE, FALSE) IN
                        IF r.cont THEN [st |-> r.st, cont |-> TRUE, brk |-> FALSE]
                        ELSE IF r.brk THEN [st |-> r.st, cont |-> FALSE, brk |-> TRUE]
                        ELSE RunExp(ans, body, i + 1, r.st, inloop)
      [] nd.k = "fo" -> RunExp(ans, body, i + 1, RunFor(ans, nd, st, 1), inloop)
      [] nd.k = "wh" -> RunExp(ans, body, i + 1, RunWhile(ans, nd, st), inloop)
\* run_exp_if over branches j = 1..arms (+ else): met_continue/met_break overwritten per branch, break at first passed
RunIf(ans, nd, j, st, inloop, mc, mb) ==
  IF j > Len(nd.arms) THEN
       IF nd.haselse THEN LET r == RunExp(ans, nd.els, 1, st, inloop) IN [st |-> r.st, cont |-> r.cont, brk |-> r.brk]
       ELSE [st |-> st, cont |-> mc, brk |-> mb]
  ELSE LET c == nd.arms[j].c
           a == Answer(ans, st, c)
           st1 == Use(st, c)
       IN IF a = 0 THEN LET r == RunExp(ans, nd.arms[j].body, 1, st1, inloop) IN [st |-> r.st, cont |-> r.cont, brk |-> r.brk]
          ELSE RunIf(ans, nd, j + 1, st1, inloop, FALSE, FALSE)
RunWhile(ans, nd, st) ==
  LET a == Answer(ans, st, nd.id)
      st1 == Use(st, nd.id)
  IN IF a # 0 THEN st1
     ELSE LET r == RunExp(ans, nd.body, 1, st1, TRUE) IN
          IF r.brk THEN r.st ELSE RunWhile(ans, nd, r.st)
RunFor(ans, nd, st, it) ==
  IF it > nd.n THEN st
  ELSE LET r == RunExp(ans, nd.body, 1, Bind(st, it), TRUE) IN
       IF r.brk THEN r.st ELSE RunFor(ans, nd, r.st, it + 1)

\* ---------------- theorem ----------------
Ast == ParseBody(lines, 1).body
St0 == [used |-> [i \in 1..MaxLines |-> 0], out |-> <<>>, v |-> 0]
Expected == BSeq(answ, Ast, 1, St0, FALSE).st.out
Agree == done => Expected = RunExp(answ, Ast, 1, St0, FALSE).st.out
\* exactly the first passing arm of an if runs: between two evaluations of conditions of the same if
\* nothing of an earlier arm's body is executed after a later arm's condition (implied by Agree);
\* every while re-tests: the number of evaluations of a while condition is its iterations + 1
=============================================================================
