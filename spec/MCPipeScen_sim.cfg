SPECIFICATION Spec
CONSTANT MaxN = 6
CONSTANT Payloads = {"p0", "small", "big"}
CONSTANT Exits = {"ok", "e3", "e255", "k9", "k15"}
INVARIANT Emit
INVARIANT StatusRange
CHECK_DEADLOCK FALSE
