SPECIFICATION Spec
CONSTANTS Names = {"n1", "a.b", "x-y", "_u", "vpa", "vmk", "7z", "4.2"} Values = {"v1", "v2", "v3", "v4", "v5", "v6", "v7", "v8", "v9"} WalkLen = 20
INVARIANT NonFirstNeverReplaced
INVARIANT Emit
CHECK_DEADLOCK FALSE
