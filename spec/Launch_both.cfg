SPECIFICATION Spec
CONSTANT N = 3
CONSTANT Mode = "both"
INVARIANT OwnGroup
INVARIANT TerminalGiven
CHECK_DEADLOCK FALSE
