SPECIFICATION TSpec
CONSTANTS
  JobDefs <- JDFromTrace
  MaxEvents <- Big
  MaxBuiltins <- Big
  Legacy <- NoLegacyT
CONSTRAINT Track
POSTCONDITION Accepted
CHECK_DEADLOCK FALSE
