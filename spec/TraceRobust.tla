---------------------------- MODULE TraceRobust ----------------------------
(* Trace validation for C05: the submissions and answers recorded by the in-process stage
   sweep, the process-level runs and the pty sessions must be a behaviour of Robust in
   which the failure actions Crash / Hang / DeadProbe never occur (NeverDead is evaluated in
   every state).  A "reset" record starts a new shell (new worker / process / session).  *)
EXTENDS Robust, Json, IOUtils, TLCExt, TLC
VARIABLE l
Rec == ndJsonDeserialize(IOEnv.TRACE)
tvars == <<vars, l>>
TInit == TLCSet(1, 1) /\ l = 1 /\ Init
IsEvent(e) == l <= Len(Rec) /\ Rec[l].e = e /\ l' = l + 1
TReset    == IsEvent("reset") /\ st \in {"ready", "dead", "stuck"} /\ st' = "ready" /\ UNCHANGED <<served, probes>>
TSubmit   == IsEvent("submit") /\ Submit
TReturn   == IsEvent("return") /\ Return(Rec[l].o)
TSentinel == IsEvent("sentinel") /\ (IF Rec[l].ok THEN Sentinel ELSE DeadProbe)
TCrash    == IsEvent("crash") /\ Crash
THang     == IsEvent("hang") /\ Hang
TNext == TReset \/ TSubmit \/ TReturn \/ TSentinel \/ TCrash \/ THang
TSpec == TInit /\ [][TNext]_tvars
Track == IF l > TLCGet(1) THEN TLCSet(1, l) /\ (IF l % 5000 = 1 \/ l > Len(Rec) THEN PrintT(<<"L", l>>) ELSE TRUE) ELSE TRUE
Accepted == \/ TLCGet(1) = Len(Rec) + 1
            \/ PrintT(<<"REJECT", TLCGet(1)>>) /\ FALSE
=============================================================================
