--------------------------- MODULE MCJobControl ---------------------------
EXTENDS JobControl
\* job configurations; pids are deliberately not monotonic
JD_1x3  == << [pids |-> <<12, 11, 13>>, bg |-> FALSE] >>
JD_2p1  == << [pids |-> <<12, 11>>, bg |-> FALSE], [pids |-> <<21>>, bg |-> TRUE] >>
JD_2p2  == << [pids |-> <<12, 11>>, bg |-> FALSE], [pids |-> <<22, 21>>, bg |-> TRUE] >>
JD_1p2b == << [pids |-> <<31>>, bg |-> TRUE], [pids |-> <<12, 11>>, bg |-> FALSE] >>
JD_3    == << [pids |-> <<12, 11>>, bg |-> FALSE], [pids |-> <<21>>, bg |-> TRUE], [pids |-> <<32, 31, 33>>, bg |-> TRUE] >>
AllLegacy == {"count", "bsearch", "stale", "sets", "fgcont", "contall", "nopoll", "nodrain"}
NoDrain   == {"nodrain"}
NoLegacy  == {}
=============================================================================
