SPECIFICATION Spec
CONSTANTS Lo = 0 Hi = 5 Shift = 2 Steps = {99, 0, 1, 2, 5} MaxPop = 3
CONSTANT Pool <- PoolQ
CONSTANT Patterns <- PatsQ
INVARIANT Emit
INVARIANT RangeOK
INVARIANT GlobSubset
CHECK_DEADLOCK FALSE
