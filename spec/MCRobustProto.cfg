SPECIFICATION Spec
CONSTANT MaxServed = 3
CONSTRAINT Bound
INVARIANT NeverDead
PROPERTY Responsive
CHECK_DEADLOCK FALSE
