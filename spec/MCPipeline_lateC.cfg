SPECIFICATION Spec
CONSTANTS
  N = 3
  Kinds <- K3
  Units = 2
  Cap = 1
  DropParentCloseW = FALSE
  FailAt = 3
  LateFail = "clean"
  HereAt = 0
  HereUnits = 0
  SigpipeMode = "ignored"
  CapRedirect = FALSE
  CapCloseMode = "always"
  CapReadMode = "concurrent"
  Capture = TRUE
INVARIANT ShellAlive
INVARIANT ExecFds
INVARIANT ShellFdsRestored
INVARIANT NoForeignEnds
INVARIANT Delivery
INVARIANT FaultClean
PROPERTY Termination
CHECK_DEADLOCK FALSE
