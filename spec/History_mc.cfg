SPECIFICATION Spec
CONSTANTS Texts = {"t1", "t2"} TypedTexts = {"vpa k", " vpa lead"} Pats = {"p1"} Dirs = {"d1", "d2"} WalkLen = 5 MaxRows = 4
INVARIANT UniqueIds
INVARIANT OrderKept
PROPERTY AppendOnly
CHECK_DEADLOCK FALSE
