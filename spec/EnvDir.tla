-------------------------------- MODULE EnvDir --------------------------------
(* Variables, exported environment and working directory (property C09).
   Implementation-shaped state: shv (Shell.envs), penv (the process environment), cwd, prevdir,
   pwdvar, with the lookup orders as coded:
     set_env(n, v)      : if n is in the process environment -> update it there, else shv[n] := v
     expansion of $n    : process environment first, then shv
     child environment  : the process environment (+ the prefix assignments of that command)
     unset n            : removes n from both
     export n=v         : penv[n] := v   (shv is left alone -- a stale shadowed copy may remain)
     read names <<< line: set_env for every name with the fields of the line, remainder in the last
     cd arg             : resolve against cwd (or $HOME / prevdir), must exist and be a directory,
                          canonicalize (symlinks resolved), chdir; prevdir and $PWD change only when
                          the directory really changed
   Reference (the property): one table name -> [val, exported]; `n=v` keeps the exported flag,
   `export` sets it, `unset` removes the entry; expansions see every entry, children only exported
   ones; `cd -` goes to the directory in effect before the last change.
   Invariant Agree: after every history the coded lookups equal the reference.          *)
EXTENDS Naturals, Sequences, FiniteSets, TLC

CONSTANTS Names, Values, MaxOps,
          ReadShapes,         \* the name lists `read` is used with (sequences over Names)
          ReadMax,            \* the input line holds 0..ReadMax fields (<= 4)
          PairShapes          \* the name pairs used by the two-word forms (pairs over Names)
Unset == "<unset>"
Dirs == {"R", "A", "B", "H"}                 \* R/ , R/a , R/a/b , R/h ($HOME)
Parent(d) == CASE d = "B" -> "A" [] d = "A" -> "R" [] d = "H" -> "R" [] OTHER -> "R"
CdArgs == {"absA", "absB", "relb", "rela", "up", "absL", "rell", "home", "dash", "file", "missing", "dot"}

VARIABLES shv, penv, cwd, prevdir, pwdvar,          \* implementation-shaped
          ref, rcwd, rprev,                        \* reference
          nops, last, laststatus
vars == <<shv, penv, cwd, prevdir, pwdvar, ref, rcwd, rprev, nops, last, laststatus>>

Init == /\ shv = [n \in Names |-> Unset] /\ penv = [n \in Names |-> Unset]
        /\ cwd = "A" /\ prevdir = "" /\ pwdvar = "A"
        /\ ref = [n \in Names |-> [val |-> Unset, exp |-> FALSE]] /\ rcwd = "A" /\ rprev = ""
        /\ nops = 0 /\ last = [op |-> "init"] /\ laststatus = 0

\* ---- coded lookups ----
SetEnv(sv, pe, n, v) == IF pe[n] # Unset THEN <<sv, [pe EXCEPT ![n] = v]>> ELSE <<[sv EXCEPT ![n] = v], pe>>
SeenByExpansion(n) == IF penv[n] # Unset THEN penv[n] ELSE shv[n]
SeenByChild(n)     == penv[n]
\* ---- reference lookups ----
RefExpansion(n) == ref[n].val
RefChild(n)     == IF ref[n].exp THEN ref[n].val ELSE Unset
RefAssign(r, n, v) == [r EXCEPT ![n] = [val |-> v, exp |-> r[n].exp]]

Tick(l, st) == nops < MaxOps /\ nops' = nops + 1 /\ last' = l /\ laststatus' = st
DirsUnch == UNCHANGED <<cwd, prevdir, pwdvar, rcwd, rprev>>

Assign(n, v) == /\ Tick([op |-> "assign", n |-> n, v |-> v], 0)
                /\ LET r == SetEnv(shv, penv, n, v) IN shv' = r[1] /\ penv' = r[2]
                /\ ref' = RefAssign(ref, n, v) /\ DirsUnch
\* NAME=v cmd : only that command's environment (observed in the record of that command itself)
Prefix(n, v) == /\ Tick([op |-> "prefix", n |-> n, v |-> v], 0)
                /\ UNCHANGED <<shv, penv, ref>> /\ DirsUnch
Export(n, v) == /\ Tick([op |-> "export", n |-> n, v |-> v], 0)
                /\ penv' = [penv EXCEPT ![n] = v] /\ UNCHANGED shv
                /\ ref' = [ref EXCEPT ![n] = [val |-> v, exp |-> TRUE]] /\ DirsUnch
UnsetVar(n)  == /\ Tick([op |-> "unset", n |-> n], 0)
                /\ penv' = [penv EXCEPT ![n] = Unset] /\ shv' = [shv EXCEPT ![n] = Unset]
                /\ ref' = [ref EXCEPT ![n] = [val |-> Unset, exp |-> FALSE]] /\ DirsUnch
\* two words of one kind on one line: `n1=v1 n2=v2` (both become shell variables), `n1=v1 n2=v2 cmd` (both only in that command's
\* environment), `export n1=v1 n2=v2` - the words are applied left to right, so a name written twice keeps the second value
Assign2(n1, v1, n2, v2) ==
  /\ Tick([op |-> "assign2", n1 |-> n1, v1 |-> v1, n2 |-> n2, v2 |-> v2], 0)
  /\ LET r1 == SetEnv(shv, penv, n1, v1) r2 == SetEnv(r1[1], r1[2], n2, v2) IN shv' = r2[1] /\ penv' = r2[2]
  /\ ref' = RefAssign(RefAssign(ref, n1, v1), n2, v2) /\ DirsUnch
Prefix2(n1, v1, n2, v2) == /\ Tick([op |-> "prefix2", n1 |-> n1, v1 |-> v1, n2 |-> n2, v2 |-> v2], 0)
                           /\ UNCHANGED <<shv, penv, ref>> /\ DirsUnch
Export2(n1, v1, n2, v2) ==
  /\ Tick([op |-> "export2", n1 |-> n1, v1 |-> v1, n2 |-> n2, v2 |-> v2], 0)
  /\ penv' = [[penv EXCEPT ![n1] = v1] EXCEPT ![n2] = v2] /\ UNCHANGED shv
  /\ ref' = [[ref EXCEPT ![n1] = [val |-> v1, exp |-> TRUE]] EXCEPT ![n2] = [val |-> v2, exp |-> TRUE]] /\ DirsUnch

\* read n_1 .. n_k <<< "f_1 .. f_m": n_i := f_i for i < k (the empty string when the line has fewer fields), n_k := the
\* remaining fields f_k .. f_m joined by one blank (empty when none is left) - builtins/read.rs assigns in this order with
\* set_env, so a name that occurs twice keeps its last assignment.  The line is a prefix of the fixed fields x y z w.
Fields == <<"x", "y", "z", "w">>
JoinFrom(i, m) == IF i > m THEN ""
                  ELSE CASE i = 1 /\ m = 1 -> "x" [] i = 1 /\ m = 2 -> "x y" [] i = 1 /\ m = 3 -> "x y z" [] i = 1 /\ m = 4 -> "x y z w"
                         [] i = 2 /\ m = 2 -> "y" [] i = 2 /\ m = 3 -> "y z" [] i = 2 /\ m = 4 -> "y z w"
                         [] i = 3 /\ m = 3 -> "z" [] i = 3 /\ m = 4 -> "z w" [] OTHER -> "w"
ReadVals(k, m) == [i \in 1..k |-> IF i < k THEN (IF i <= m THEN Fields[i] ELSE "") ELSE JoinFrom(k, m)]
RECURSIVE SetAll(_, _, _, _, _)
SetAll(sv, pe, ns, vs, i) == IF i > Len(ns) THEN <<sv, pe>>
                             ELSE LET r == SetEnv(sv, pe, ns[i], vs[i]) IN SetAll(r[1], r[2], ns, vs, i + 1)
RECURSIVE RefAll(_, _, _, _)
RefAll(r, ns, vs, i) == IF i > Len(ns) THEN r ELSE RefAll(RefAssign(r, ns[i], vs[i]), ns, vs, i + 1)
ReadN(ns, m) == /\ Tick([op |-> "read", ns |-> ns, m |-> m], 0)
                /\ LET vs == ReadVals(Len(ns), m)
                       r == SetAll(shv, penv, ns, vs, 1)
                   IN shv' = r[1] /\ penv' = r[2] /\ ref' = RefAll(ref, ns, vs, 1)
                /\ DirsUnch

\* ---- cd ----
Target(from, prev, a) ==
  CASE a = "absA" -> "A" [] a = "absB" -> "B" [] a = "absL" -> "B"          \* /l is a symlink to /a/b
    [] a = "relb" -> IF from = "A" THEN "B" ELSE "fail"
    [] a = "rela" -> IF from = "R" THEN "A" ELSE "fail"
    [] a = "rell" -> IF from = "R" THEN "B" ELSE "fail"
    [] a = "up"   -> Parent(from)
    [] a = "home" -> "H"
    [] a = "dash" -> IF prev = "" THEN "fail" ELSE prev
    [] a = "dot"  -> from
    [] OTHER -> "fail"                                                        \* a file, a missing name
Cd(a) == /\ (a = "up" => cwd # "R")
         /\ LET t == Target(cwd, prevdir, a) rt == Target(rcwd, rprev, a) IN
            /\ Tick([op |-> "cd", a |-> a], IF t = "fail" THEN 1 ELSE 0)
            /\ IF t = "fail" THEN UNCHANGED <<cwd, prevdir, pwdvar>>
               ELSE /\ cwd' = t
                    /\ prevdir' = IF t # cwd THEN cwd ELSE prevdir
                    /\ pwdvar'  = IF t # cwd THEN t ELSE pwdvar
            /\ IF rt = "fail" THEN UNCHANGED <<rcwd, rprev>>
               ELSE rcwd' = rt /\ rprev' = IF rt # rcwd THEN rcwd ELSE rprev
         /\ UNCHANGED <<shv, penv, ref>>

Next == \/ \E n \in Names, v \in Values : Assign(n, v) \/ Prefix(n, v) \/ Export(n, v)
        \/ \E n \in Names : UnsetVar(n)
        \/ \E ns \in ReadShapes, m \in 0..ReadMax : ReadN(ns, m)
        \/ \E pr \in PairShapes, v \in Values : Assign2(pr[1], "x", pr[2], v) \/ Prefix2(pr[1], "x", pr[2], v) \/ Export2(pr[1], "x", pr[2], v)
        \/ \E a \in CdArgs : Cd(a)
Spec == Init /\ [][Next]_vars

Agree == /\ \A n \in Names : SeenByExpansion(n) = RefExpansion(n) /\ SeenByChild(n) = RefChild(n)
         /\ cwd = rcwd /\ pwdvar = rcwd
FailedCdChangesNothing == last.op = "cd" /\ laststatus = 1 => TRUE
=============================================================================
