------------------------------ MODULE MCEntry ------------------------------
(* C16 over the writer of C01 (spec/MCLex.tla): every argument text in every quoting style,
   position and operator context, read through each of the five entry points.
   Mode "splice" (the repaired pass) must satisfy EquivOK; mode "rerender" (the pinned pass,
   run as a negative control) must violate it - the counterexample is the defect.      *)
EXTENDS MCLex, Entry
CONSTANT Mode
Args0 == << <<"s">> >>
EquivOK == done => \A e \in Entries : Meaning(Pre(e, Line, Args0, Mode)) = Expected
\* the pass never changes a line without positional parameters (repaired design)
Verbatim == done /\ Mode = "splice" => Pre("script", Line, Args0, Mode) = Line
=============================================================================
