SPECIFICATION Spec
CONSTANT MaxLen = 4
CONSTANT Alphabet <- AQuote
INVARIANT Total
INVARIANT Emit
CHECK_DEADLOCK FALSE
