SPECIFICATION Spec
CONSTANT MaxLen = 10
CONSTANT Alphabet <- AAll
INVARIANT Total
INVARIANT Emit
INVARIANT EmitSim
CHECK_DEADLOCK FALSE
