SPECIFICATION Spec
CONSTANT JobDefs <- JD_1x3
CONSTANT MaxEvents = 7
CONSTANT MaxBuiltins = 1
CONSTANT Legacy <- NoLegacy
VIEW view
INVARIANT TableMatchesLive
INVARIANT StatusMatches
INVARIANT UniqueIds
INVARIANT IdsSmallestFree
INVARIANT ReturnedWhenDue
INVARIANT StatusOfLast
INVARIANT NoOverWait
INVARIANT PollOnlyWhenDue
INVARIANT NoStuckEvent
INVARIANT TtyAtPrompt
INVARIANT TtyInFg
CHECK_DEADLOCK FALSE
