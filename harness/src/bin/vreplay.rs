// vreplay - in-process replayer linked against the hooked cicada library.
// Worker protocol: one JSON case per stdin line, one JSON result per stdout line
// (flushed), so the Python supervisor can watchdog each case and restart the worker.
use cicada::verif_hooks as vhk;
use cicada::verif_hooks::x;
use serde_json::{json, Value};
use std::io::{BufRead, Write};
use std::panic::{catch_unwind, AssertUnwindSafe};

fn toks(t: &x::types::Tokens) -> Value {
    Value::Array(t.iter().map(|(a, b)| json!([a, b])).collect())
}

fn plan_line(sh: &mut x::shell::Shell, line: &str) -> Value {
    let segs = x::parser_line::line_to_cmds(line);
    let mut plans = Vec::new();
    for seg in &segs {
        if seg == ";" || seg == "&&" || seg == "||" {
            continue;
        }
        match x::types::CommandLine::from_line(seg, sh) {
            Ok(cl) => {
                let cmds: Vec<Value> = cl
                    .commands
                    .iter()
                    .map(|c| {
                        json!({
                            "tokens": toks(&c.tokens),
                            "redirects_to": c.redirects_to.iter().map(|r| json!([r.0, r.1, r.2])).collect::<Vec<_>>(),
                            "redirect_from": match &c.redirect_from { Some(t) => json!([t.0, t.1]), None => Value::Null },
                        })
                    })
                    .collect();
                let mut envs: Vec<(String, String)> = cl.envs.iter().map(|(k, v)| (k.clone(), v.clone())).collect();
                envs.sort();
                plans.push(json!({"ok": true, "commands": cmds, "envs": envs, "background": cl.background}));
            }
            Err(e) => plans.push(json!({"ok": false, "err": e})),
        }
    }
    json!({"segs": segs, "plans": plans})
}

fn panic_msg(e: Box<dyn std::any::Any + Send>) -> String {
    if let Some(s) = e.downcast_ref::<&str>() {
        s.to_string()
    } else if let Some(s) = e.downcast_ref::<String>() {
        s.clone()
    } else {
        "panic".to_string()
    }
}

// ---- C05: every pure stage, each under catch_unwind ----
fn stages(sh: &mut x::shell::Shell, line: &str, cheap_only: bool) -> Value {
    let mut failed: Vec<Value> = Vec::new();
    macro_rules! stage {
        ($name:expr, $body:expr) => {
            if let Err(e) = catch_unwind(AssertUnwindSafe(|| $body)) {
                failed.push(json!({"stage": $name, "panic": panic_msg(e)}));
            }
        };
    }
    stage!("line_to_cmds", { x::parser_line::line_to_cmds(line); });
    stage!("parse_line", { x::parser_line::parse_line(line); });
    stage!("tokens_to_line", {
        let li = x::parser_line::parse_line(line);
        x::parser_line::tokens_to_line(&li.tokens);
    });
    stage!("tokens_to_redirections", {
        let li = x::parser_line::parse_line(line);
        let _ = x::parser_line::tokens_to_redirections(&li.tokens);
    });
    stage!("is_arithmetic", { x::tools::is_arithmetic(line); });
    stage!("escaped_word_start", {
        for (i, _) in line.char_indices() {
            x::completers::escaped_word_start(&line[..i]);
        }
        x::completers::escaped_word_start(line);
    });
    stage!("trim_multiline_prompts", { x::shell::trim_multiline_prompts(line); });
    stage!("locust", { let _ = x::locust::parse_lines(line); });
    if !cheap_only {
        stage!("command_from_tokens", {
            let li = x::parser_line::parse_line(line);
            let _ = x::types::Command::from_tokens(li.tokens);
        });
        stage!("from_line", {
            for seg in x::parser_line::line_to_cmds(line) {
                let _ = x::types::CommandLine::from_line(&seg, sh);
            }
        });
        stage!("calculator", {
            if x::tools::is_arithmetic(line) {
                let _ = x::core::run_calculator(line);
            }
        });
        stage!("complete_path", {
            let _ = x::completers_path::complete_path(line, false);
        });
        stage!("extend_bangbang", {
            let mut l = line.to_string();
            x::tools::extend_bangbang(sh, &mut l);
        });
        stage!("is_shell_altering_command", { x::tools::is_shell_altering_command(line); });
    }
    let complete = catch_unwind(AssertUnwindSafe(|| x::parser_line::parse_line(line).is_complete)).unwrap_or(false);
    json!({"failed": failed, "complete": complete})
}


// ---- C16: the script path's re-rendering of a line vs the line itself, at token level ----
fn seg_tokens(line: &str) -> Value {
    let mut out = Vec::new();
    for seg in x::parser_line::line_to_cmds(line) {
        if seg == ";" || seg == "&&" || seg == "||" {
            out.push(json!({"op": seg}));
        } else {
            let li = x::parser_line::parse_line(&seg);
            out.push(json!({"tokens": toks(&li.tokens), "complete": li.is_complete}));
        }
    }
    Value::Array(out)
}

fn rerender(line: &str, case: &Value) -> Value {
    let mut args = vec!["script".to_string()];
    if let Some(a) = case.get("args").and_then(|v| v.as_array()) {
        args = vec!["sc".to_string()];
        for x in a {
            args.push(x.as_str().unwrap_or("").to_string());
        }
    }
    let re = x::scripting::verif_expand_args(line, &args);
    let li = x::parser_line::parse_line(line);
    json!({"rendered": re, "whole_tokens": toks(&li.tokens), "direct": seg_tokens(line), "via_script": seg_tokens(&re)})
}


// ---- C20: the completer's insertion spliced the way the line editor does, then planned ----
fn lcp(items: &[String]) -> String {
    if items.is_empty() {
        return String::new();
    }
    let first: Vec<char> = items[0].chars().collect();
    let mut n = first.len();
    for it in &items[1..] {
        let cs: Vec<char> = it.chars().collect();
        let mut k = 0;
        while k < n && k < cs.len() && cs[k] == first[k] {
            k += 1;
        }
        n = k;
    }
    first[..n].iter().collect()
}

fn complete_case(sh: &mut x::shell::Shell, case: &Value) -> Value {
    let line = case.get("line").and_then(|v| v.as_str()).unwrap_or("");
    let for_dir = case.get("for_dir").and_then(|v| v.as_bool()).unwrap_or(false);
    if let Some(d) = case.get("cwd").and_then(|v| v.as_str()) {
        if std::env::set_current_dir(d).is_err() {
            return json!({"tool_error": format!("cannot chdir to {}", d)});
        }
    }
    let ws = x::completers::escaped_word_start(line);
    if ws > line.len() || !line.is_char_boundary(ws) {
        return json!({"word_start": ws, "bad_word_start": true});
    }
    let word = &line[ws..];
    let comps = x::completers_path::complete_path(word, for_dir);
    let list: Vec<Value> = comps.iter().map(|c| json!({"completion": c.completion, "suffix": format!("{:?}", c.suffix),
        "display": c.display})).collect();
    let mut spliced = Value::Null;
    let mut plan = Value::Null;
    if comps.len() == 1 {
        let mut s = format!("{}{}", &line[..ws], comps[0].completion);
        let sfx = format!("{:?}", comps[0].suffix);
        if sfx == "Default" {
            s.push(' ');
        } else if sfx.starts_with("Some(") {
            if let Some(c) = sfx.chars().nth(6) {
                s.push(c);
            }
        }
        plan = plan_line(sh, &s);
        spliced = json!(s);
    } else if comps.len() > 1 {
        let items: Vec<String> = comps.iter().map(|c| c.completion.clone()).collect();
        spliced = json!(format!("{}{}", &line[..ws], lcp(&items)));
    }
    json!({"word_start": ws, "word": word, "completions": list, "spliced": spliced, "plan": plan})
}

// ---- C06: replay of JobControl paths through the fake kernel ----
fn job_snapshot(sh: &x::shell::Shell) -> Value {
    let mut m = serde_json::Map::new();
    let mut ids: Vec<&i32> = sh.jobs.keys().collect();
    ids.sort();
    for id in ids {
        let j = &sh.jobs[id];
        let mut st: Vec<i32> = j.pids_stopped.iter().cloned().collect();
        st.sort();
        m.insert(id.to_string(), json!({"id": j.id, "gid": j.gid, "pids": j.pids, "stp": st, "status": j.status, "bg": j.is_bg}));
    }
    Value::Object(m)
}

fn push_reports(v: &Value) {
    if let Some(a) = v.as_array() {
        for r in a {
            let pid = r[0].as_i64().unwrap_or(0) as i32;
            let kind = r[1].as_i64().unwrap_or(0) as i32;
            let val = r[2].as_i64().unwrap_or(0) as i32;
            vhk::fake_push((pid, kind, val));
        }
    }
}

fn jobs_case(case: &Value) -> Value {
    let mut sh = x::shell::Shell::new();
    vhk::install_fake_kernel();
    let mut out: Vec<Value> = Vec::new();
    let empty = Vec::new();
    for call in case.get("calls").and_then(|c| c.as_array()).unwrap_or(&empty) {
        vhk::fake_reset_flags();
        let op = call.get("op").and_then(|v| v.as_str()).unwrap_or("");
        let mut status: Value = Value::Null;
        let mut newid: Value = Value::Null;
        let r = catch_unwind(AssertUnwindSafe(|| match op {
            "launch" => {
                let gid = call["gid"].as_i64().unwrap_or(0) as i32;
                let pids: Vec<i32> = call["pids"].as_array().map(|a| a.iter().map(|v| v.as_i64().unwrap_or(0) as i32).collect()).unwrap_or_default();
                let bg = call["bg"].as_bool().unwrap_or(false);
                for p in &pids {
                    sh.insert_job(gid, *p, "cmd", "Running", bg);
                }
                if let Some(j) = sh.get_job_by_gid(gid) {
                    newid = json!(j.id);
                }
                if !bg {
                    unsafe { x::shell::give_terminal_to(gid); }
                    push_reports(&call["reports"]);
                    let cr = x::jobc::wait_fg_job(&mut sh, gid, &pids);
                    status = json!(cr.status);
                    let (_, blocked, _, _) = vhk::fake_state();
                    if !blocked {
                        unsafe { x::shell::give_terminal_to(1); }
                    }
                }
            }
            "poll" => {
                push_reports(&call["reports"]);
                x::jobc::try_wait_bg_jobs(&mut sh, true, false);
            }
            "fg" | "bg" => {
                push_reports(&call["pre"]);
                vhk::fake_push((0, 9, 0));
                push_reports(&call["reports"]);
                let line = format!("{} {}", op, call["id"].as_i64().unwrap_or(0));
                if let Ok(cl) = x::types::CommandLine::from_line(&line, &mut sh) {
                    let cr = if op == "fg" {
                        x::b_fg::run(&mut sh, &cl, &cl.commands[0], false)
                    } else {
                        x::b_bg::run(&mut sh, &cl, &cl.commands[0], false)
                    };
                    status = json!(cr.status);
                }
            }
            _ => {}
        }));
        let (left, blocked, consumed, tty) = vhk::fake_state();
        let maps = x::signals::verif_snapshot_maps();
        let mut o = json!({"op": op, "jobs": job_snapshot(&sh), "maps": [maps.0, maps.1, maps.2, maps.3],
            "left": left, "blocked": blocked, "consumed": consumed, "tty": tty, "status": status, "newid": newid});
        if let Err(e) = r {
            o["panic"] = json!(panic_msg(e));
        }
        out.push(o);
    }
    vhk::remove_fake_kernel();
    json!({"calls": out})
}

fn main() {
    let args: Vec<String> = std::env::args().collect();
    let mode = args.get(1).cloned().unwrap_or_default();
    // silence panic messages of the code under test (they are data, reported in the result)
    std::panic::set_hook(Box::new(|_| {}));
    let stdin = std::io::stdin();
    // the code under test prints to stdout/stderr: keep the result channel on a private
    // descriptor and point 1 and 2 at /dev/null
    let stdout = unsafe {
        use std::os::unix::io::FromRawFd;
        let keep = libc::fcntl(1, libc::F_DUPFD_CLOEXEC, 100);
        let dn = libc::open(b"/dev/null\0".as_ptr() as *const libc::c_char, libc::O_WRONLY);
        libc::dup2(dn, 1);
        libc::dup2(dn, 2);
        libc::close(dn);
        std::sync::Mutex::new(std::fs::File::from_raw_fd(keep))
    };
    let mut sh = x::shell::Shell::new();
    let _ = &vhk::fake_kernel_installed;
    for l in stdin.lock().lines() {
        let l = match l {
            Ok(x) => x,
            Err(_) => break,
        };
        if l.trim().is_empty() {
            continue;
        }
        let case: Value = match serde_json::from_str(&l) {
            Ok(v) => v,
            Err(e) => {
                let mut o = stdout.lock().unwrap();
                let _ = writeln!(o, "{}", json!({"tool_error": format!("bad case json: {}", e)}));
                let _ = o.flush();
                continue;
            }
        };
        let id = case.get("id").cloned().unwrap_or(Value::Null);
        let line = case.get("line").and_then(|v| v.as_str()).unwrap_or("").to_string();
        let mut res = match mode.as_str() {
            "plan" => match catch_unwind(AssertUnwindSafe(|| plan_line(&mut sh, &line))) {
                Ok(v) => v,
                Err(e) => json!({"panic": panic_msg(e)}),
            },
            "jobs" => match catch_unwind(AssertUnwindSafe(|| jobs_case(&case))) {
                Ok(v) => v,
                Err(e) => json!({"panic": panic_msg(e)}),
            },
            "rerender" => match catch_unwind(AssertUnwindSafe(|| rerender(&line, &case))) {
                Ok(v) => v,
                Err(e) => json!({"panic": panic_msg(e)}),
            },
            "complete" => match catch_unwind(AssertUnwindSafe(|| complete_case(&mut sh, &case))) {
                Ok(v) => v,
                Err(e) => json!({"panic": panic_msg(e)}),
            },
            "cmds" => match catch_unwind(AssertUnwindSafe(|| json!({"cmds": x::parser_line::line_to_cmds(&line)}))) {
                Ok(v) => v,
                Err(e) => json!({"panic": panic_msg(e)}),
            },
            "wordstart" => match catch_unwind(AssertUnwindSafe(|| {
                let ws = x::completers::escaped_word_start(&line);
                let chars_before = if ws <= line.len() && line.is_char_boundary(ws) { line[..ws].chars().count() as i64 } else { -1 };
                json!({"start_bytes": ws, "start": chars_before})
            })) {
                Ok(v) => v,
                Err(e) => json!({"panic": panic_msg(e)}),
            },
            "redirparse" => match catch_unwind(AssertUnwindSafe(|| {
                let mut tokens: x::types::Tokens = Vec::new();
                if let Some(a) = case.get("tokens").and_then(|v| v.as_array()) {
                    for t in a {
                        tokens.push((t[0].as_str().unwrap_or("").to_string(), t[1].as_str().unwrap_or("").to_string()));
                    }
                }
                match x::parser_line::tokens_to_redirections(&tokens) {
                    Ok((tk, rd)) => json!({"ok": true, "out": toks(&tk), "redirs": rd.iter().map(|r| json!([r.0, r.1, r.2])).collect::<Vec<_>>()}),
                    Err(e) => json!({"ok": false, "err": e}),
                }
            })) {
                Ok(v) => v,
                Err(e) => json!({"panic": panic_msg(e)}),
            },
            "tokens" => match catch_unwind(AssertUnwindSafe(|| {
                let li = x::parser_line::parse_line(&line);
                json!({"tokens": toks(&li.tokens), "complete": li.is_complete, "arith": x::tools::is_arithmetic(&line)})
            })) {
                Ok(v) => v,
                Err(e) => json!({"panic": panic_msg(e)}),
            },
            "prompt" => match catch_unwind(AssertUnwindSafe(|| {
                // prompt::get_prompt renders $PROMPT; shell variables of the case shadow nothing (get_env: shell first)
                std::env::set_var("PROMPT", &line);
                let mut psh = x::shell::Shell::new();
                if let Some(m) = case.get("shv").and_then(|v| v.as_object()) {
                    for (k, v) in m {
                        psh.set_env(k, v.as_str().unwrap_or(""));
                    }
                }
                json!({"prompt": x::prompt::get_prompt(&psh)})
            })) {
                Ok(v) => v,
                Err(e) => json!({"panic": panic_msg(e)}),
            },
            "highlight" => match catch_unwind(AssertUnwindSafe(|| {
                use lineread::highlighting::{Highlighter, Style};
                let h = x::highlight::CicadaHighlighter;
                let st = h.highlight(&line);
                json!({"len": line.len(), "ranges": st.iter().map(|(r, s)| json!([r.start, r.end, match s { Style::Default => 0, _ => 1 }])).collect::<Vec<_>>()})
            })) {
                Ok(v) => v,
                Err(e) => json!({"panic": panic_msg(e)}),
            },
            "multiline" => match catch_unwind(AssertUnwindSafe(|| {
                let li = x::parser_line::parse_line(&line);
                json!({"complete": li.is_complete, "trimmed": x::shell::trim_multiline_prompts(&line)})
            })) {
                Ok(v) => v,
                Err(e) => json!({"panic": panic_msg(e)}),
            },
            "stages" => stages(&mut sh, &line, false),
            "cheap" => stages(&mut sh, &line, true),
            "calc" => match catch_unwind(AssertUnwindSafe(|| {
                let isa = x::tools::is_arithmetic(&line);
                let r = if isa { Some(x::core::run_calculator(&line).map_err(|e| e.to_string())) } else { None };
                json!({"is_arith": isa, "result": match r { Some(Ok(s)) => json!({"ok": s}), Some(Err(e)) => json!({"err": e}), None => Value::Null }})
            })) {
                Ok(v) => v,
                Err(e) => json!({"panic": panic_msg(e)}),
            },
            _ => json!({"tool_error": format!("unknown mode {}", mode)}),
        };
        if let Value::Object(ref mut m) = res {
            m.insert("id".to_string(), id);
        }
        let mut o = stdout.lock().unwrap();
        let _ = writeln!(o, "{}", res);
        let _ = o.flush();
    }
}
