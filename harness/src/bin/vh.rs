// vh - helper programs used as the commands of generated lines.
// The helper is selected by the basename of argv[0] (the helper directory holds
// symlinks to this binary).  Every helper appends one JSON line to $VH_LOG with a
// single O_APPEND write, so concurrent helpers never interleave.
//
//   pa ARGS..        log argv (and the variables named in $VH_ENVNAMES, cwd), exit 0
//   mk ID ST ARGS..  log marker ID with the extra args, exit ST
//   cond ID          k-th call exits the k-th status of $VH_DIR/cond.ID (last one repeats)
//   io TAG [r]       write "o:TAG\n" to fd 1 and "e:TAG\n" to fd 2 (unbuffered);
//                    with r: read stdin to EOF first and log it
//   out ID           write the bytes of $VH_DIR/out.ID to stdout, log the call
//   fds ID           log the open descriptors this program started with
//   st ID SPEC       pipeline stage, SPEC = comma separated k=v:
//                      mode=prod|filt|cons|none  n=<bytes to produce>  exit=<code>
//                      sig=<self signal at end>  early=<bytes read before exiting>
//                      linger=<ms sleep before exit>  wait=<file to wait for before exit>
//   job ID           log pid/pgid, then sleep until killed (handles nothing)
use std::io::{Read, Write};
use std::os::unix::ffi::OsStrExt;
use std::os::unix::fs::OpenOptionsExt;

fn jstr(b: &[u8]) -> serde_json::Value {
    match std::str::from_utf8(b) {
        Ok(s) => serde_json::Value::String(s.to_string()),
        Err(_) => serde_json::json!({ "bytes": b.to_vec() }),
    }
}

fn log(v: serde_json::Value) {
    if let Ok(p) = std::env::var("VH_LOG") {
        let mut line = v.to_string();
        line.push('\n');
        if let Ok(mut f) = std::fs::OpenOptions::new().append(true).create(true).custom_flags(libc::O_CLOEXEC).open(p) {
            let _ = f.write_all(line.as_bytes());
        }
    }
}

fn open_fds() -> Vec<i32> {
    let mut v = Vec::new();
    if let Ok(rd) = std::fs::read_dir("/proc/self/fd") {
        let mut names: Vec<i32> = rd.filter_map(|e| e.ok()).filter_map(|e| e.file_name().to_string_lossy().parse().ok()).collect();
        names.sort();
        // the directory handle itself shows up as one extra descriptor: drop the highest
        // one that is not 0..2 and points to /proc/<pid>/fd
        for fd in names {
            let link = std::fs::read_link(format!("/proc/self/fd/{}", fd)).map(|p| p.to_string_lossy().to_string()).unwrap_or_default();
            if link.is_empty() || (link.starts_with("/proc/") && link.ends_with("/fd")) {
                // the directory handle used for this listing (already closed again)
                continue;
            }
            v.push(fd);
        }
    }
    v
}

fn fd_targets() -> serde_json::Value {
    let mut m = serde_json::Map::new();
    for fd in open_fds() {
        let link = std::fs::read_link(format!("/proc/self/fd/{}", fd)).map(|p| p.to_string_lossy().to_string()).unwrap_or_default();
        m.insert(fd.to_string(), serde_json::Value::String(link));
    }
    serde_json::Value::Object(m)
}

fn main() {
    let fds_at_start = open_fds();
    let args: Vec<std::ffi::OsString> = std::env::args_os().collect();
    let name = std::path::Path::new(&args[0]).file_name().map(|s| s.to_string_lossy().to_string()).unwrap_or_default();
    let rest: Vec<&[u8]> = args[1..].iter().map(|a| a.as_bytes()).collect();
    let sarg = |i: usize| -> String { rest.get(i).map(|b| String::from_utf8_lossy(b).to_string()).unwrap_or_default() };
    let pid = unsafe { libc::getpid() };
    let pgid = unsafe { libc::getpgid(0) };
    let cwd = std::env::current_dir().map(|p| p.to_string_lossy().to_string()).unwrap_or_default();
    let mut envs = serde_json::Map::new();
    if let Ok(names) = std::env::var("VH_ENVNAMES") {
        for n in names.split(',') {
            if n.is_empty() {
                continue;
            }
            match std::env::var_os(n) {
                Some(v) => {
                    envs.insert(n.to_string(), jstr(v.as_bytes()));
                }
                None => {
                    envs.insert(n.to_string(), serde_json::Value::Null);
                }
            }
        }
    }
    let name = name.strip_prefix("v").unwrap_or(&name).to_string();
    match name.as_str() {
        "pa" => {
            // optional delay (only when the last argument is a lone "&"): lets a driver
            // observe whether the shell waited for this program
            if let Ok(ms) = std::env::var("VH_DELAY_IF_LAST_AMP") {
                if rest.last().map(|b| *b == b"&").unwrap_or(false) {
                    std::thread::sleep(std::time::Duration::from_millis(ms.parse().unwrap_or(0)));
                }
            }
            log(serde_json::json!({"h":"pa","argv": rest.iter().map(|b| jstr(b)).collect::<Vec<_>>(),
                "env": envs, "cwd": cwd, "pid": pid, "pgid": pgid, "ppid": unsafe { libc::getppid() }, "fds": fds_at_start}));
        }
        "mk" => {
            let st: i32 = sarg(1).parse().unwrap_or(0);
            log(serde_json::json!({"h":"mk","id": sarg(0), "st": st,
                "argv": rest.iter().skip(2).map(|b| jstr(b)).collect::<Vec<_>>(), "env": envs, "cwd": cwd, "pid": pid, "fds": fds_at_start}));
            std::process::exit(st);
        }
        "cond" => {
            let dir = std::env::var("VH_DIR").unwrap_or_else(|_| ".".into());
            let id = sarg(0);
            let seq: Vec<i32> = std::fs::read_to_string(format!("{}/cond.{}", dir, id)).unwrap_or_default()
                .split_whitespace().filter_map(|x| x.parse().ok()).collect();
            let cntf = format!("{}/cnt.{}", dir, id);
            let k: usize = std::fs::read_to_string(&cntf).ok().and_then(|s| s.trim().parse().ok()).unwrap_or(0);
            let _ = std::fs::write(&cntf, format!("{}", k + 1));
            let st = if seq.is_empty() { 1 } else if k < seq.len() { seq[k] } else { *seq.last().unwrap() };
            log(serde_json::json!({"h":"cond","id": id, "k": k, "st": st,
                "argv": rest.iter().skip(1).map(|b| jstr(b)).collect::<Vec<_>>(), "env": envs}));
            std::process::exit(st);
        }
        "io" => {
            let tag = sarg(0);
            let mut stdin_data = serde_json::Value::Null;
            if sarg(1) == "r" {
                let mut buf = Vec::new();
                let _ = std::io::stdin().read_to_end(&mut buf);
                stdin_data = jstr(&buf);
            }
            let o = format!("o:{}\n", tag);
            let e = format!("e:{}\n", tag);
            let wo = unsafe { libc::write(1, o.as_ptr() as *const libc::c_void, o.len()) };
            let we = unsafe { libc::write(2, e.as_ptr() as *const libc::c_void, e.len()) };
            log(serde_json::json!({"h":"io","tag": tag, "stdin": stdin_data, "wo": wo, "we": we, "fds": fds_at_start}));
        }
        "out" => {
            let dir = std::env::var("VH_DIR").unwrap_or_else(|_| ".".into());
            let id = sarg(0);
            let data = std::fs::read(format!("{}/out.{}", dir, id)).unwrap_or_default();
            log(serde_json::json!({"h":"out","id": id, "env": envs, "cwd": cwd,
                "argv": rest.iter().skip(1).map(|b| jstr(b)).collect::<Vec<_>>()}));
            let _ = std::io::stdout().write_all(&data);
            let _ = std::io::stdout().flush();
            if let Ok(e) = std::fs::read(format!("{}/err.{}", dir, id)) {
                let _ = std::io::stderr().write_all(&e);
            }
            let st: i32 = std::fs::read_to_string(format!("{}/st.{}", dir, id)).ok().and_then(|s| s.trim().parse().ok()).unwrap_or(0);
            std::process::exit(st);
        }
        "fds" => {
            log(serde_json::json!({"h":"fds","id": sarg(0), "fds": fds_at_start, "targets": fd_targets()}));
        }
        "st" => stage(&sarg(0), &sarg(1), fds_at_start),
        "job" => {
            log(serde_json::json!({"h":"job","id": sarg(0), "pid": pid, "pgid": pgid, "ppid": unsafe { libc::getppid() }}));
            extern "C" fn bye(_s: i32) {
                unsafe { libc::_exit(3) }
            }
            unsafe {
                libc::signal(libc::SIGUSR1, bye as usize);
            }
            loop {
                unsafe { libc::pause(); }
            }
        }
        _ => {
            eprintln!("vh: unknown helper name {:?}", name);
            std::process::exit(97);
        }
    }
}

fn stage(id: &str, spec: &str, fds_at_start: Vec<i32>) {
    let mut mode = "none".to_string();
    let mut n: usize = 0;
    let mut exit_code: i32 = 0;
    let mut sig: i32 = 0;
    let mut early: i64 = -1;
    let mut linger: u64 = 0;
    let mut waitf = String::new();
    for kv in spec.split(',') {
        let mut it = kv.splitn(2, '=');
        let k = it.next().unwrap_or("");
        let v = it.next().unwrap_or("");
        match k {
            "mode" => mode = v.to_string(),
            "n" => n = v.parse().unwrap_or(0),
            "exit" => exit_code = v.parse().unwrap_or(0),
            "sig" => sig = v.parse().unwrap_or(0),
            "early" => early = v.parse().unwrap_or(-1),
            "linger" => linger = v.parse().unwrap_or(0),
            "wait" => waitf = v.to_string(),
            _ => {}
        }
    }
    unsafe { libc::signal(libc::SIGPIPE, libc::SIG_DFL); }
    let pid = unsafe { libc::getpid() };
    log(serde_json::json!({"h":"st","id": id, "ev":"start", "pid": pid, "pgid": unsafe { libc::getpgid(0) }, "fds": fds_at_start}));
    let mut nread: usize = 0;
    let mut nwritten: usize = 0;
    let mut sum: u64 = 0;
    let mut buf = vec![0u8; 65536];
    // deterministic payload: byte i = (i * 31 + 7) % 251
    let payload = |i: usize| -> u8 { ((i * 31 + 7) % 251) as u8 };
    let write_all = |data: &[u8]| -> bool {
        let mut off = 0;
        while off < data.len() {
            let r = unsafe { libc::write(1, data[off..].as_ptr() as *const libc::c_void, data.len() - off) };
            if r <= 0 {
                return false;
            }
            off += r as usize;
        }
        true
    };
    match mode.as_str() {
        "prod" => {
            let mut i = 0;
            while i < n {
                let m = std::cmp::min(8192, n - i);
                let chunk: Vec<u8> = (i..i + m).map(payload).collect();
                if !write_all(&chunk) {
                    break;
                }
                i += m;
                nwritten = i;
            }
        }
        "filt" | "cons" => loop {
            if early >= 0 && nread as i64 >= early {
                break;
            }
            let want = if early >= 0 { std::cmp::min(buf.len(), (early as usize) - nread) } else { buf.len() };
            let r = unsafe { libc::read(0, buf.as_mut_ptr() as *mut libc::c_void, want) };
            if r <= 0 {
                break;
            }
            let r = r as usize;
            for b in &buf[..r] {
                sum = sum.wrapping_mul(1099511628211).wrapping_add(*b as u64);
            }
            nread += r;
            if mode == "filt" {
                if !write_all(&buf[..r]) {
                    break;
                }
                nwritten += r;
            }
        },
        _ => {}
    }
    if !waitf.is_empty() {
        // close our pipe ends first so neighbours see EOF / EPIPE, then wait for the file
        unsafe {
            libc::close(0);
            libc::close(1);
        }
        let mut waited = 0;
        while !std::path::Path::new(&waitf).exists() && waited < 60000 {
            std::thread::sleep(std::time::Duration::from_millis(5));
            waited += 5;
        }
    }
    if linger > 0 {
        unsafe {
            libc::close(0);
            libc::close(1);
        }
        std::thread::sleep(std::time::Duration::from_millis(linger));
    }
    log(serde_json::json!({"h":"st","id": id, "ev":"end", "pid": pid, "nread": nread, "nwritten": nwritten, "sum": sum.to_string()}));
    if sig > 0 {
        unsafe {
            libc::signal(sig, libc::SIG_DFL);
            libc::kill(pid, sig);
        }
        std::thread::sleep(std::time::Duration::from_millis(2000));
    }
    std::process::exit(exit_code);
}
