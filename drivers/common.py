"""Shared plumbing for the cicada verification checks: build, TLC runner, process-level
case runner, in-process worker supervisor, evidence and known-findings handling."""
import fcntl
import hashlib
import json
import os
import random
import re
import shutil
import signal
import subprocess
import sys
import threading
import time
from concurrent.futures import ThreadPoolExecutor

VERIF = os.path.dirname(os.path.dirname(os.path.abspath(__file__)))
REPO = os.environ.get("VERIF_REPO", "/repo")
BUILD = os.path.join(VERIF, ".build")
WORK = os.path.join(VERIF, ".work")
SPEC = os.path.join(VERIF, "spec")
HELPERS = os.path.join(BUILD, "helpers")
HARNESS_BIN = os.path.join(BUILD, "harness", "release")
CICADA = os.path.join(BUILD, "repo", "release", "cicada")
VREPLAY = os.path.join(HARNESS_BIN, "vreplay")
HELPER_NAMES = ["vpa", "vmk", "vcond", "vio", "vout", "vfds", "vst", "vjob"]
NCPU = os.cpu_count() or 4
TLA_CP = "/opt/veriftools/tla/tla2tools.jar:/opt/veriftools/tla/CommunityModules-deps.jar"


class ToolError(Exception):
    pass


_T0 = time.time()


def log(*a):
    print("[%6.1fs]" % (time.time() - _T0), *a, file=sys.stderr, flush=True)


# ----------------------------------------------------------------------------- build

def _run(cmd, cwd=None, env=None, timeout=None):
    p = subprocess.run(cmd, cwd=cwd, env=env, stdout=subprocess.PIPE, stderr=subprocess.STDOUT,
                       timeout=timeout)
    return p.returncode, p.stdout.decode("utf-8", "replace")


def build_all(need_harness=True, need_binary=True):
    """Rebuild the hooked library + harness and the cicada binary from /repo's current
    working tree (incremental).  Raises ToolError when the tree does not compile."""
    os.makedirs(BUILD, exist_ok=True)
    os.makedirs(WORK, exist_ok=True)
    lockf = open(os.path.join(BUILD, ".lock"), "w")
    fcntl.flock(lockf, fcntl.LOCK_EX)
    try:
        env = dict(os.environ)
        env.update({"CARGO_NET_OFFLINE": "true"})
        env.pop("RUSTFLAGS", None)
        t0 = time.time()
        if need_harness:
            rc, out = _run(["cargo", "build", "--release", "--offline"], cwd=os.path.join(VERIF, "harness"), env=env,
                           timeout=1800)
            if rc != 0:
                raise ToolError("harness build failed:\n" + out[-4000:])
        if need_binary:
            env2 = dict(env)
            env2.update({
                "CARGO_TARGET_DIR": os.path.join(BUILD, "repo"),
                "RUSTFLAGS": "--cfg cicada_verif",
                "CARGO_PROFILE_RELEASE_LTO": "false",
                "CARGO_PROFILE_RELEASE_STRIP": "false",
                "CARGO_PROFILE_RELEASE_OVERFLOW_CHECKS": "true",
                "CARGO_PROFILE_RELEASE_DEBUG_ASSERTIONS": "true",
                "CARGO_PROFILE_RELEASE_OPT_LEVEL": "2",
                "CARGO_PROFILE_RELEASE_CODEGEN_UNITS": "16",
                "CARGO_PROFILE_RELEASE_INCREMENTAL": "true",
            })
            rc, out = _run(["cargo", "build", "--release", "--offline", "--bin", "cicada"], cwd=REPO, env=env2,
                           timeout=1800)
            if rc != 0:
                raise ToolError("cicada build failed:\n" + out[-4000:])
        os.makedirs(HELPERS, exist_ok=True)
        vh = os.path.join(HARNESS_BIN, "vh")
        for n in HELPER_NAMES:
            p = os.path.join(HELPERS, n)
            if not os.path.islink(p) or os.readlink(p) != vh:
                if os.path.lexists(p):
                    os.unlink(p)
                os.symlink(vh, p)
        log("[build] %.1fs" % (time.time() - t0))
    finally:
        fcntl.flock(lockf, fcntl.LOCK_UN)
        lockf.close()


# ----------------------------------------------------------------------------- TLC

class TlcResult:
    def __init__(self):
        self.generated = 0
        self.distinct = 0
        self.replays = []      # parsed JSON values of REPLAY lines
        self.edges = []
        self.coverage = {}     # action name -> (distinct, total)
        self.violation = None  # text of invariant/property violation
        self.error = None
        self.raw_tail = ""
        self.all_out = ""
        self.wall = 0.0
        self.depth = 0


_RE_STATES = re.compile(r"^(\d+) states generated, (\d+) distinct states found")
_RE_COV = re.compile(r"^<(\w+) line (\d+), col (\d+) to line (\d+), col (\d+) of module (\w+)>: (\d+):(\d+)")
_RE_SIM = re.compile(r"^The number of states generated: (\d+)")


def run_tlc(module, cfg=None, workers=None, simulate=None, depth=None, seed=None, timeout=900,
            env=None, extra=None, on_replay=None, on_edge=None, deadlock=False, coverage=True, xmx="8g",
            keep_replays=True, dfs=False):
    """Run TLC on spec/<module>.tla with spec/<cfg>.cfg.  REPLAY/EDGE lines printed by the spec
    (PrintT(<<"REPLAY", json>>)) are parsed and handed to on_replay / collected."""
    os.makedirs(WORK, exist_ok=True)
    meta = os.path.join(WORK, "tlc-%s-%d-%d" % (module, os.getpid(), threading.get_ident() % 100000))
    shutil.rmtree(meta, ignore_errors=True)
    cfg = cfg or module
    if workers is None:
        workers = min(12, NCPU)
    jopts = ["-XX:+UseParallelGC", "-Xss1g", "-Xmx" + xmx]
    if dfs:
        jopts.append("-Dtlc2.tool.queue.IStateQueue=StateDeque")
    cmd = ["java"] + jopts + ["-cp", TLA_CP, "tlc2.TLC", "-workers", str(workers), "-metadir", meta, "-cleanup",
                             "-noGenerateSpecTE", "-config", cfg + ".cfg"]
    if coverage and not simulate:
        cmd += ["-coverage", "1"]
    if not deadlock:
        pass  # deadlock checking is controlled by CHECK_DEADLOCK in the cfg
    if simulate:
        cmd += ["-simulate", "num=%d" % simulate]
        if depth:
            cmd += ["-depth", str(depth)]
    if seed is not None:
        cmd += ["-seed", str(seed)]
    if extra:
        cmd += extra
    cmd.append(module + ".tla")
    e = dict(os.environ)
    e.pop("JAVA_TOOL_OPTIONS", None)
    if env:
        e.update(env)
    res = TlcResult()
    t0 = time.time()
    p = subprocess.Popen(cmd, cwd=SPEC, env=e, stdout=subprocess.PIPE, stderr=subprocess.STDOUT)
    timer = threading.Timer(timeout, lambda: p.kill())
    timer.start()
    tail = []
    marks = []
    capture_violation = None
    try:
        for raw in p.stdout:
            line = raw.decode("utf-8", "replace").rstrip("\n")
            if line.startswith('<<"REPLAY", '):
                v = _parse_print(line)
                if on_replay:
                    on_replay(v)
                if keep_replays:
                    res.replays.append(v)
                continue
            if line.startswith('<<"EDGE", '):
                v = _parse_print(line)
                if on_edge:
                    on_edge(v)
                else:
                    res.edges.append(v)
                continue
            tail.append(line)
            if line.startswith('<<"L", ') or line.startswith('<<"PROPFAIL"'):
                marks.append(line)
            if len(tail) > 400:
                del tail[:200]
            m = _RE_STATES.match(line)
            if m:
                res.generated, res.distinct = int(m.group(1)), int(m.group(2))
            m = _RE_SIM.match(line)
            if m:
                res.generated = int(m.group(1))
                res.distinct = max(res.distinct, res.generated)
            m = _RE_COV.match(line)
            if m:
                res.coverage[m.group(1)] = (int(m.group(7)), int(m.group(8)))
            if line.startswith("The depth of the complete state graph search is"):
                try:
                    res.depth = int(line.rstrip(".").split()[-1])
                except ValueError:
                    pass
            if line.startswith("Error: Invariant") or line.startswith("Error: Action property") or \
                    line.startswith("Error: Temporal properties were violated") or line.startswith("Error: Temporal property") or line.startswith("Error: Deadlock reached") \
                    or line.startswith("Error: Postcondition"):
                if capture_violation is None:
                    capture_violation = [line]
                else:
                    capture_violation.append(line)
            elif capture_violation is not None and len(capture_violation) < 5000:
                capture_violation.append(line)
            elif line.startswith("Error:") and res.error is None and capture_violation is None:
                res.error = line
    finally:
        timer.cancel()
    rc = p.wait()
    res.wall = time.time() - t0
    res.raw_tail = "\n".join(tail[-120:])
    res.all_out = "\n".join(marks)
    shutil.rmtree(meta, ignore_errors=True)
    if capture_violation:
        res.violation = "\n".join(capture_violation)
    if rc < 0:
        raise ToolError("TLC killed (timeout %ds) on %s/%s" % (timeout, module, cfg))
    if res.error and not res.violation:
        raise ToolError("TLC error on %s/%s: %s\n%s" % (module, cfg, res.error, res.raw_tail[-3000:]))
    if rc != 0 and not res.violation:
        raise ToolError("TLC exit %d on %s/%s\n%s" % (rc, module, cfg, res.raw_tail[-3000:]))
    return res


def _parse_print(line):
    # line looks like: <<"REPLAY", "{...json...}">>  where the JSON text is a TLA+ string
    # (quotes and backslashes escaped).
    i = line.index(", ") + 2
    s = line[i:]
    if s.endswith(">>"):
        s = s[:-2]
    s = s.strip()
    if s.startswith('"'):
        # TLA+ string literal -> python string (escapes: \" \\ \n \t)
        body = s[1:-1]
        out = []
        k = 0
        while k < len(body):
            c = body[k]
            if c == "\\" and k + 1 < len(body):
                n = body[k + 1]
                out.append({"n": "\n", "t": "\t", "r": "\r", "f": "\f"}.get(n, n))
                k += 2
            else:
                out.append(c)
                k += 1
        return json.loads("".join(out))
    return json.loads(s)


def run_apalache(module, obligations, timeout=900):
    """Apalache on spec/apalache/<module>.tla: obligations = [(name, [args...])].  Returns {name: "ok" | "timeout" | "unavailable"};
    a counterexample raises ToolError (the design-level argument is wrong).  A time-out is reported, not fatal: the bounded TLC
    runs remain the deciding method."""
    out = {}
    src = os.path.join(SPEC, "apalache", module + ".tla")
    if shutil.which("apalache-mc") is None:
        return {name: "unavailable" for name, _ in obligations}
    for name, args in obligations:
        od = os.path.join(WORK, "apalache-%s-%s-%d" % (module, name, os.getpid()))
        shutil.rmtree(od, ignore_errors=True)
        os.makedirs(od, exist_ok=True)
        try:
            p = subprocess.run(["apalache-mc", "check", "--out-dir=" + od] + args + [src], cwd=od, stdout=subprocess.PIPE, stderr=subprocess.STDOUT,
                               timeout=timeout)
            text = p.stdout.decode("utf-8", "replace")
            if p.returncode == 0 and "EXITCODE: OK" in text:
                out[name] = "ok"
            elif p.returncode == 12:
                raise ToolError("Apalache found a counterexample to %s of %s:\n%s" % (name, module, text[-1500:]))
            else:
                raise ToolError("Apalache failed on %s of %s (rc %s):\n%s" % (name, module, p.returncode, text[-1500:]))
        except subprocess.TimeoutExpired:
            out[name] = "timeout"
        finally:
            shutil.rmtree(od, ignore_errors=True)
    return out


def check_action_coverage(res, must):
    """Vacuity guard: every action named in `must` was taken at least once."""
    missing = [a for a in must if res.coverage.get(a, (0, 0))[1] == 0]
    if missing:
        raise ToolError("vacuous model run: actions never taken: %s (coverage %s)" % (missing, res.coverage))


# ----------------------------------------------------------------------------- text helpers

PLACEHOLDER = {"U": "é", "W": "你", "T": "\t", "N": "\n"}


def chars(seq, mapping=PLACEHOLDER):
    """TLA+ text (sequence of 1-char strings with placeholders) -> python str."""
    return "".join(mapping.get(c, c) for c in seq)


# ----------------------------------------------------------------------------- process-level case runner

_scratch_root = None
_scratch_lock = threading.Lock()
_scratch_n = [0]


def scratch_root():
    global _scratch_root
    with _scratch_lock:
        if _scratch_root is None:
            base = "/dev/shm" if os.path.isdir("/dev/shm") and os.access("/dev/shm", os.W_OK) else WORK
            _scratch_root = os.path.join(base, "vf-%d" % os.getpid())
            shutil.rmtree(_scratch_root, ignore_errors=True)
            os.makedirs(_scratch_root)
    return _scratch_root


def cleanup_scratch():
    global _scratch_root
    if _scratch_root:
        subprocess.run(["chmod", "-R", "u+rwx", _scratch_root], stderr=subprocess.DEVNULL)
        shutil.rmtree(_scratch_root, ignore_errors=True)
        _scratch_root = None


def new_scratch():
    root = scratch_root()
    with _scratch_lock:
        _scratch_n[0] += 1
        n = _scratch_n[0]
    d = os.path.join(root, "c%d" % n)
    os.makedirs(os.path.join(d, "cwd"))
    os.makedirs(os.path.join(d, "vh"))
    os.makedirs(os.path.join(d, "home"))
    return d


def base_env(d, envnames=""):
    return {
        "PATH": HELPERS + ":/usr/bin:/bin",
        "HOME": os.path.join(d, "home"),
        "VH_LOG": os.path.join(d, "vh", "log.ndjson"),
        "VH_DIR": os.path.join(d, "vh"),
        "VH_ENVNAMES": envnames,
        "LANG": "C.UTF-8",
        "LC_ALL": "C.UTF-8",
        "TERM": "dumb",
        "XDG_DATA_HOME": os.path.join(d, "home", ".local", "share"),
    }


def read_log(d):
    p = os.path.join(d, "vh", "log.ndjson")
    recs = []
    if os.path.exists(p):
        with open(p, "rb") as f:
            for ln in f:
                ln = ln.strip()
                if ln:
                    try:
                        recs.append(json.loads(ln))
                    except ValueError:
                        recs.append({"h": "garbled", "raw": ln.decode("utf-8", "replace")})
    return recs


def list_files(top):
    out = {}
    for dp, dn, fn in os.walk(top):
        for n in fn:
            p = os.path.join(dp, n)
            rel = os.path.relpath(p, top)
            try:
                if os.path.islink(p):
                    out[rel] = "-> " + os.readlink(p)
                else:
                    with open(p, "rb") as f:
                        out[rel] = f.read(1 << 20).decode("utf-8", "replace")
            except OSError as e:
                out[rel] = "<unreadable %s>" % e.errno
        for n in dn:
            out[os.path.relpath(os.path.join(dp, n), top) + "/"] = None
    return out


def session_pids(sid):
    """pids of all live processes whose session id is sid (excluding zombies)"""
    out = []
    for n in os.listdir("/proc"):
        if not n.isdigit():
            continue
        try:
            with open("/proc/%s/stat" % n) as f:
                st = f.read()
            rest = st[st.rindex(")") + 2:].split()
            if int(rest[3]) == sid and rest[0] != "Z":
                out.append(int(n))
        except (OSError, ValueError, IndexError):
            continue
    return out


def run_case(case, keep=False):
    """Run one process-level case.  case keys: entry ('c'|'script'|'stdin'), text, args, files,
    dirs, symlinks, vhfiles, env, envnames, timeout, modes (rel path -> chmod)."""
    d = new_scratch()
    cwd = os.path.join(d, "cwd")
    try:
        for rel in case.get("dirs", []):
            os.makedirs(os.path.join(cwd, rel), exist_ok=True)
        for rel, content in case.get("files", {}).items():
            p = os.path.join(cwd, rel)
            os.makedirs(os.path.dirname(p), exist_ok=True)
            with open(p, "w", encoding="utf-8", newline="") as f:
                f.write(content)
        for rel, target in case.get("symlinks", {}).items():
            os.symlink(target, os.path.join(cwd, rel))
        for rel, mode in case.get("modes", {}).items():
            os.chmod(os.path.join(cwd, rel), mode)
        for name, content in case.get("vhfiles", {}).items():
            with open(os.path.join(d, "vh", name), "w", encoding="utf-8", newline="") as f:
                f.write(content)
        env = base_env(d, case.get("envnames", ""))
        for ek, ev in case.get("env", {}).items():
            env[ek] = ev.replace("@SCRATCH@", d) if isinstance(ev, str) else ev
        entry = case.get("entry", "c")
        stdin_data = None
        if entry == "c":
            cmd = [CICADA, "-c", case["text"].replace("@CWD@", cwd).replace("@SCRATCH@", d)]
        elif entry == "script":
            sp = os.path.join(d, "vh", case.get("script_name", "s.sh"))
            with open(sp, "w", encoding="utf-8", newline="") as f:
                f.write(case["text"].replace("@CWD@", cwd).replace("@SCRATCH@", d))
            cmd = [CICADA, sp] + list(case.get("args", []))
        elif entry == "stdin":
            cmd = [CICADA]
            stdin_data = case["text"].encode("utf-8")
        else:
            raise ToolError("unknown entry " + entry)
        timeout = case.get("timeout", 10)
        t0 = time.time()
        p = subprocess.Popen(cmd, cwd=os.path.join(cwd, case.get("startdir", ".")), env=env,
                             stdin=subprocess.PIPE if stdin_data is not None else subprocess.DEVNULL,
                             stdout=subprocess.PIPE, stderr=subprocess.PIPE, start_new_session=True)
        timed_out = False
        blocked_in_wait = False
        blocked_on_foreign = None
        try:
            out, err = p.communicate(stdin_data, timeout=timeout)
        except subprocess.TimeoutExpired:
            # the shell itself is still running = a time-out; the shell has exited but a program it left behind
            # (a background job in its own process group) keeps the output pipes open = not a time-out
            timed_out = p.poll() is None
            blocked_in_wait = False
            if timed_out:
                try:
                    with open("/proc/%d/syscall" % p.pid) as f:
                        blocked_in_wait = f.read().split()[0] == "61"      # wait4: the shell waits for a child
                except (OSError, IndexError):
                    pass
            # ... or a program that is neither the shell nor one of the helpers is still running in the session (a mutated
            # word can name a real interactive program, also inside a command substitution, where the shell reads its output)
            if timed_out:
                for q in session_pids(p.pid):
                    try:
                        exe = os.readlink("/proc/%d/exe" % q)
                    except OSError:
                        continue
                    if q != p.pid and os.path.realpath(exe) not in (os.path.realpath(CICADA), os.path.realpath(os.path.join(HARNESS_BIN, "vh"))):
                        blocked_on_foreign = os.path.basename(exe)
            out, err = b"", b""
            for _ in range(50):
                for q in session_pids(p.pid):
                    try:
                        os.kill(q, signal.SIGKILL)
                    except OSError:
                        pass
                try:
                    os.killpg(p.pid, signal.SIGKILL)
                except OSError:
                    pass
                try:
                    out, err = p.communicate(timeout=0.5)
                    break
                except subprocess.TimeoutExpired:
                    continue
            else:
                p.kill()
                for f in (p.stdout, p.stderr):
                    try:
                        f.close()
                    except Exception:  # noqa
                        pass
                p.wait()
        log_at_exit = read_log(d) if case.get("snapshot_log_at_exit") else None
        alive_at_exit = len(session_pids(p.pid)) if case.get("count_alive_at_exit") else None
        # wait for / kill stragglers of the session (background helpers run in their own groups)
        linger = case.get("linger")
        if linger is not None or timed_out:
            t_end = time.time() + (linger or 0)
            while True:
                pids = session_pids(p.pid)
                if not pids or time.time() >= t_end:
                    break
                time.sleep(0.01)
            for q in session_pids(p.pid):
                try:
                    os.kill(q, signal.SIGKILL)
                except OSError:
                    pass
        res = {
            "status": p.returncode,
            "stdout": out.decode("utf-8", "replace"),
            "stderr": err.decode("utf-8", "replace"),
            "timed_out": timed_out,
            "blocked_in_wait": blocked_in_wait,
            "blocked_on_foreign": blocked_on_foreign,
            "log": read_log(d),
            "wall": time.time() - t0,
            "cwd_root": cwd,
        }
        if log_at_exit is not None:
            res["log_at_exit"] = log_at_exit
        if alive_at_exit is not None:
            res["alive_at_exit"] = alive_at_exit
        if case.get("want_files", True):
            res["files"] = list_files(cwd)
        tp = os.path.join(d, "vh", "trace.ndjson")
        if os.path.exists(tp):
            evs = []
            with open(tp, "rb") as f:
                for ln in f:
                    try:
                        evs.append(json.loads(ln))
                    except ValueError:
                        evs.append({"e": "garbled"})
            res["trace"] = evs
        return res
    finally:
        if not keep:
            subprocess.run(["chmod", "-R", "u+rwx", d], stderr=subprocess.DEVNULL) if case.get("modes") else None
            shutil.rmtree(d, ignore_errors=True)


def run_cases(cases, jobs=None, progress=None):
    """Run cases in parallel; returns results in order."""
    jobs = jobs or NCPU
    results = [None] * len(cases)

    def one(i):
        try:
            results[i] = run_case(cases[i])
        except ToolError:
            raise
        except Exception as e:  # noqa
            results[i] = {"tool_error": repr(e)}
    with ThreadPoolExecutor(max_workers=jobs) as ex:
        list(ex.map(one, range(len(cases))))
    return results


# ----------------------------------------------------------------------------- in-process worker pool

class Worker:
    def __init__(self, mode, cwd=None, env=None):
        self.mode, self.cwd, self.env = mode, cwd, env
        self.p = None
        self.start()

    def start(self):
        e = dict(os.environ)
        e["PATH"] = ""
        if self.env:
            e.update(self.env)
        self.p = subprocess.Popen([VREPLAY, self.mode], cwd=self.cwd, env=e, stdin=subprocess.PIPE,
                                  stdout=subprocess.PIPE, stderr=subprocess.DEVNULL)

    def ask(self, case, timeout=10.0):
        """Returns result dict, or {'hang': True} / {'abort': rc} (worker restarted)."""
        data = (json.dumps(case) + "\n").encode()
        try:
            self.p.stdin.write(data)
            self.p.stdin.flush()
        except (BrokenPipeError, OSError):
            rc = self.p.poll()
            self.restart()
            return {"abort": rc, "id": case.get("id")}
        box = {}

        def rd():
            box["line"] = self.p.stdout.readline()
        t = threading.Thread(target=rd, daemon=True)
        t.start()
        t.join(timeout)
        if t.is_alive():
            self.p.kill()
            t.join(2)
            self.restart()
            return {"hang": True, "id": case.get("id")}
        line = box.get("line", b"")
        if not line:
            rc = self.p.wait()
            self.restart()
            return {"abort": rc, "id": case.get("id")}
        try:
            return json.loads(line)
        except ValueError:
            return {"tool_error": "bad worker output " + repr(line[:200])}

    def restart(self):
        try:
            self.p.kill()
        except OSError:
            pass
        self.start()

    def close(self):
        try:
            self.p.stdin.close()
            self.p.wait(timeout=5)
        except Exception:  # noqa
            self.p.kill()


def inproc_map(mode, cases, jobs=None, timeout=10.0, cwd=None, env=None):
    """Feed cases to a pool of vreplay workers; returns results in order."""
    jobs = min(jobs or NCPU, max(1, len(cases)))
    results = [None] * len(cases)
    idx = [0]
    lock = threading.Lock()

    def loop():
        w = Worker(mode, cwd=cwd, env=env)
        try:
            while True:
                with lock:
                    i = idx[0]
                    idx[0] += 1
                if i >= len(cases):
                    break
                results[i] = w.ask(cases[i], timeout)
        finally:
            w.close()
    ts = [threading.Thread(target=loop) for _ in range(jobs)]
    for t in ts:
        t.start()
    for t in ts:
        t.join()
    return results


# ----------------------------------------------------------------------------- findings / evidence

def load_findings():
    p = os.path.join(VERIF, "known_findings.json")
    if not os.path.exists(p):
        return {"findings": [], "fixed": []}
    with open(p) as f:
        return json.load(f)


class Report:
    """Collects violations of one check run, applies known-finding matchers, writes evidence,
    prints VIOLATION / KNOWN-FINDING lines and computes the exit code."""

    def __init__(self, pid, tier, seed, level):
        self.pid, self.tier, self.seed, self.level = pid, tier, seed, level
        self.t0 = time.time()
        self.violations = []    # (cluster key, description, replay dict)
        self.known_hits = {}    # finding id -> count
        self.cov = {"evaluations": 0, "distinct_nontrivial": 0, "samples": [], "states": 0, "transitions": 0,
                    "traces_validated_against_impl": 0}
        self.assumptions = []
        self.findings = [f for f in load_findings().get("findings", []) if f.get("property") == pid]
        self._seen = set()
        import glob as _g
        for old in _g.glob(os.path.join(VERIF, "replays", "%s-%s-*.json" % (pid, tier))):
            try:
                os.unlink(old)
            except OSError:
                pass

    def add_tlc(self, res):
        self.cov["states"] += res.distinct
        self.cov["transitions"] += res.generated
        if res.coverage:
            ca = self.cov.setdefault("coverage_actions", {})
            for k, v in res.coverage.items():
                ca[k] = ca.get(k, 0) + v[1]

    def sample(self, s, limit=6):
        if len(self.cov["samples"]) < limit:
            self.cov["samples"].append(s)

    def violation(self, key, desc, replay, matcher_ctx=None):
        """Record a violating case.  matcher_ctx: dict the known-finding matchers look at."""
        ctx = matcher_ctx or {}
        for f in self.findings:
            if match_finding(f, ctx):
                self.known_hits[f["id"]] = self.known_hits.get(f["id"], 0) + 1
                self.known_samples = getattr(self, "known_samples", {})
                self.known_samples.setdefault(f["id"], replay)
                return False
        if key in self._seen:
            for v in self.violations:
                if v[0] == key:
                    v[3][0] += 1
            return True
        self._seen.add(key)
        self.violations.append((key, desc, replay, [1]))
        return True

    def finish(self, extra_cov=None, rule=""):
        if extra_cov:
            self.cov.update(extra_cov)
        if rule:
            self.cov["rule"] = rule
        os.makedirs(os.path.join(VERIF, "evidence"), exist_ok=True)
        os.makedirs(os.path.join(VERIF, "replays"), exist_ok=True)
        lines = []
        for i, (key, desc, replay, cnt) in enumerate(self.violations):
            rp = os.path.join(VERIF, "replays", "%s-%s-%d.json" % (self.pid, self.tier, i))
            with open(rp, "w") as f:
                json.dump({"property": self.pid, "cluster": key, "description": desc, "count": cnt[0],
                           "case": replay}, f, indent=1, default=str)
            lines.append("VIOLATION property=%s replay=%s" % (self.pid, rp))
            log("  violation cluster [%s] x%d: %s" % (key, cnt[0], desc))
        for f in self.findings:
            n = self.known_hits.get(f["id"], 0)
            if n:
                print("KNOWN-FINDING: property=%s %s (%s; %d cases this run)" % (self.pid, f["id"], f["what"], n))
        self.cov["known_finding_hits"] = dict(self.known_hits)
        if not self.cov["samples"]:
            self.cov["samples"] = ["(no samples recorded)"]
        ev = {
            "property_id": self.pid, "tier": self.tier, "seed": self.seed, "level": self.level,
            "coverage": self.cov, "assumptions": self.assumptions,
            "wall_s": round(time.time() - self.t0, 2), "violations": len(self.violations),
        }
        with open(os.path.join(VERIF, "evidence", self.pid + ".json"), "w") as f:
            json.dump(ev, f, indent=1, default=str)
        for ln in lines:
            print(ln)
        sys.stdout.flush()
        return 1 if self.violations else 0


def match_finding(f, ctx):
    """A finding's matcher is a conjunction of conditions over the case's feature dict:
    {"feat": value}            equality
    {"feat": {"in": [..]}}      membership
    {"feat": {"contains": x}}   x in ctx[feat] (list or string)
    {"feat": {"any_of": [..]}}  ctx[feat] (a list) shares an element
    {"feat": {"subset_of": [..]}} every element of ctx[feat] is listed
    {"feat": {"min": n}}        ctx[feat] >= n
    """
    m = f.get("match")
    if not m:
        return False
    for k, cond0 in m.items():
      v = ctx.get(k)
      for cond in (cond0 if isinstance(cond0, list) else [cond0]):
        if isinstance(cond, dict):
            if "in" in cond and v not in cond["in"]:
                return False
            if "contains" in cond and (v is None or cond["contains"] not in v):
                return False
            if "any_of" in cond and (not v or not (set(v) & set(cond["any_of"]))):
                return False
            if "subset_of" in cond and (v is None or not set(v) <= set(cond["subset_of"])):
                return False
            if "not" in cond and v == cond["not"]:
                return False
            if "min" in cond and (v is None or v < cond["min"]):
                return False
        else:
            if v != cond:
                return False
    return True


def stable_hash(s):
    return int(hashlib.sha1(s.encode()).hexdigest()[:8], 16)


def std_main(pid, runner, level="model_checking"):
    """Common entry: parse tier/seed/replay, build, run, write evidence, exit code."""
    import argparse
    ap = argparse.ArgumentParser()
    ap.add_argument("--tier", default=os.environ.get("VERIF_TIER", "quick"))
    ap.add_argument("--replay", default=None)
    ap.add_argument("--nobuild", action="store_true")
    a = ap.parse_args(sys.argv[2:])
    tier = a.tier if a.tier in ("quick", "thorough") else "quick"
    seed = int(os.environ.get("VERIF_SEED", "1") or 1)
    random.seed(seed)
    rep = Report(pid, tier, seed, level)
    try:
        if not a.nobuild:
            build_all()
        rc = runner(rep, tier, seed, a.replay)
        sys.exit(rc)
    except ToolError as e:
        log("TOOL ERROR (%s): %s" % (pid, e))
        sys.exit(2)
    finally:
        cleanup_scratch()
