"""C15 - script arguments, functions, `source`, exit statuses, `exit N`, `set -e`.
Spec: spec/ScriptStatus.tla (reference semantics of statuses / exit / set -e across top level,
functions, sourced files and if-bodies; implementation-shaped variant with the pinned code's
deviations as Legacy switches).  (M) TLC checks that the repaired design agrees with the reference
for every program of up to 3 (thorough 4) statements; (G) every program is a replay case with the
expected event sequence and exit status; (A) each is rendered to a script (functions with both
header spellings and names with - and _, sourced files, markers that log $0 $1 ${2} $@) and run by
the real binary with arguments; oracle: marker log (order, frame arguments) and process exit status."""
import json
import random

from common import Report, ToolError, check_action_coverage, log, run_cases, run_tlc, stable_hash, std_main

NZ = 3
FB = {"f1": ["z"], "f-2": ["nz"], "f_3": ["nz", "z"]}
SB = {"s1": [("c", "nz")], "s2": [("c", "z"), ("exit", 4), ("c", "z")], "s3": [("c", "nz"), ("c", "z")]}
HEAD = {"f1": "function f1() {", "f-2": "function f-2 {", "f_3": "function f_3 () {"}
ARGS = "$0 $1 \"${2}\" $@ ${7}"


def st(s):
    return 0 if s == "z" else NZ


def render(prog):
    lines = []
    for f, body in FB.items():
        lines.append(HEAD[f])
        for j, s in enumerate(body, 1):
            lines.append("    vmk F%s.%d %d %s" % (f, j, st(s), ARGS))
        lines.append("}")
    for i, p in enumerate(prog, 1):
        k = p["k"]
        if k == "c":
            lines.append("vmk T%d %d %s" % (i, st(p["st"]), ARGS))
        elif k == "call":
            lines.append("%s a%d 'b c'" % (p["f"], i))
        elif k == "src":
            lines.append("source %s.sh p%d q" % (p["s"], i))
        elif k == "exit":
            lines.append("exit %d" % p["n"])
        elif k == "sete":
            lines.append("set -e")
        elif k == "for":
            lines += ["for w in " + " ".join(str(st(x)) for x in p["pat"]), "    vmk L%d $w %s" % (i, ARGS), "done"]
        elif k == "if":
            body = "    vmk B%d %d %s" % (i, st(p["st"]), ARGS)
            if p["st"] == "z" and ((i + len(prog)) % 2 == 0 or any(q["k"] == "sete" for q in prog)):
                # a succeeding body line may be a list that recovers from a failure (`fail || ok`): its status is that of the
                # list; the extra marker Z is not part of the model's events and is filtered out before comparing
                body = "    vmk Z%d 3 || vmk B%d 0 %s" % (i, i, ARGS)
            lines += ["if vmk C%d %d" % (i, st(p["cst"])), body, "fi"]
    files = {}
    for s, body in SB.items():
        fl = []
        for j, b in enumerate(body, 1):
            fl.append("vmk S%s.%d %d %s" % (s, j, st(b[1]), ARGS) if b[0] == "c" else "exit %d" % b[1])
        files[s + ".sh"] = "\n".join(fl) + "\n"
    return "\n".join(lines) + "\n", files


SCRIPT_ARGS = ["A1", "x y"]


def frame_args(frame, i, script_path):
    if frame == "script":
        fr = [script_path] + SCRIPT_ARGS
    elif frame in FB:
        fr = [frame, "a%d" % i, "b c"]
    else:
        fr = [frame + ".sh", "p%d" % i, "q"]
    return fr


def expected_argv_alts(fr):
    rest = fr[1:]
    joined = " ".join(rest)
    base = [fr[0], fr[1] if len(fr) > 1 else None, fr[2] if len(fr) > 2 else None]
    base = [x for x in base if x is not None]
    return [base + [joined], base + rest, base + joined.split()]


def expected(case):
    evs = []
    for e in case["ev"]:
        i, j = e["id"]
        fr = e["frame"]
        if fr == "cond":
            evs.append(("C%d" % i, None, i))
        elif fr == "script":
            kind = case["prog"][i - 1]["k"]
            evs.append((("T%d" % i) if kind == "c" else ("B%d" % i) if kind == "if" else ("L%d" % i), "script", i))
        elif fr in FB:
            evs.append(("F%s.%d" % (fr, j), fr, i))
        else:
            evs.append(("S%s.%d" % (fr, j), fr, i))
    status = {"z": 0, "nz": NZ}.get(case["status"], case["n"])
    return evs, status


def judge(rep, case, text, res, script_path):
    prog = case["prog"]
    kinds = sorted({p["k"] for p in prog})
    feat = {"kinds": kinds, "has_sete": "sete" in kinds, "has_call": "call" in kinds, "has_src": "src" in kinds,
            "has_exit": "exit" in kinds, "has_if": "if" in kinds}
    evs, status = expected(case)
    got = [(r.get("id"), r.get("argv")) for r in res.get("log", []) if r.get("h") == "mk" and not str(r.get("id", "")).startswith("Z")]
    rec = {"case": case, "text": text, "status": res.get("status"), "expected_status": status, "expected": evs, "got": got,
           "stderr": res.get("stderr", "")[-300:]}
    if res.get("timed_out"):
        return rep.violation("hang", "script never finishes:\n" + text, rec, feat)
    gids = [g[0] for g in got]
    eids = [e[0] for e in evs]
    if gids != eids:
        kind = "stopped-early" if gids == eids[:len(gids)] else ("ran-too-much" if gids[:len(eids)] == eids else "events")
        return rep.violation("%s/%s" % (kind, "+".join(kinds)), "script:\n%s--- commands run %s, expected %s" % (text, gids, eids), rec, dict(feat, fail=kind))
    for (gid, argv), (eid, frame, i) in zip(got, evs):
        if frame is None:
            continue
        fr = frame_args(frame, i, script_path)
        if argv not in expected_argv_alts(fr):
            return rep.violation("args/%s" % ("script" if frame == "script" else ("function" if frame in FB else "source")),
                                 "script:\n%s--- %s saw $0 $1 ${2} $@ = %s, expected %s" % (text, gid, argv, expected_argv_alts(fr)[0]), rec, dict(feat, fail="args"))
    if res.get("status") != status:
        return rep.violation("exit-status/%s" % "+".join(kinds), "script:\n%s--- exit status %s, expected %s" % (text, res.get("status"), status), rec, dict(feat, fail="status"))
    return False


PERSIST = [
    # (name, script, files, expected marker ids+argv)
    ("source-defines-function", "source lib.sh\nfs x\n", {"lib.sh": "function fs() {\n    vmk FS 0 $1\n}\n"}, [("FS", ["x"])]),
    ("source-sets-variable", "source lib.sh\nvmk V 0 $QV\n", {"lib.sh": "QV=fromlib\n"}, [("V", ["fromlib"])]),
    ("source-defines-alias", "source lib.sh\nqa k\n", {"lib.sh": "alias qa='vmk QA 0'\n"}, [("QA", ["k"])]),
    ("source-changes-directory", "source lib.sh\nvmk D 0\n", {"lib.sh": "cd sub\n", "sub/.keep": ""}, [("D", [])]),
    ("function-defined-in-script-called-later", "function late() {\n    vmk L 0 $0\n}\nvmk E 0\nlate\n", {}, [("E", []), ("L", ["late"])]),
    ("missing-args-expand-to-nothing", "vmk M 0 x$5y ${9}\n", {}, [("M", ["xy"])]),
    ("source-chain-depth-3", "source a.sh\nvmk R 0 $?\n", {"a.sh": "source b.sh\n", "b.sh": "source c.sh\n", "c.sh": "vmk CC 3\n"}, [("CC", []), ("R", ["3"])]),
    # the last command EXECUTED decides: the failing test that merely skips an `if` / ends a `while` is not a command of the body
    ("function-ends-in-untaken-if", "function fu() {\n    vmk U1 0\n    if vmk UC 3\n        vmk U2 0\n    fi\n}\nfu\nvmk ST 0 $?\n", {}, [("U1", []), ("UC", []), ("ST", ["0"])]),
    ("function-ends-in-finished-while", "function fw() {\n    vmk W1 0\n    while vmk WC 3\n        vmk W2 0\n    done\n}\nfw\nvmk ST 0 $?\n", {}, [("W1", []), ("WC", []), ("ST", ["0"])]),
    ("set-e-after-function-ending-in-untaken-if", "set -e\nfunction fu() {\n    vmk U1 0\n    if vmk UC 3\n        vmk U2 0\n    fi\n}\nfu\nvmk AFTER 0\n", {}, [("U1", []), ("UC", []), ("AFTER", [])]),
    ("function-ending-in-untaken-if-and-list", "function fu() {\n    vmk U1 0\n    if vmk UC 3\n        vmk U2 0\n    fi\n}\nfu && vmk AND 0\nfu || vmk OR 0\n", {}, [("U1", []), ("UC", []), ("AND", []), ("U1", []), ("UC", [])]),
    ("function-ending-in-finished-while-after-failure", "function fw() {\n    vmk W1 0\n    while vmk WC 3\n        vmk W2 0\n    done\n}\nvmk PRE 3\nfw\nvmk ST 0 $?\n", {}, [("PRE", []), ("W1", []), ("WC", []), ("ST", ["0"])]),
    ("source-ends-in-untaken-if", "source lib.sh\nvmk ST 0 $?\n", {"lib.sh": "vmk L1 0\nif vmk LC 3\n    vmk L2 0\nfi\n"}, [("L1", []), ("LC", []), ("ST", ["0"])]),
]


def runner(rep, tier, seed, replay):
    rnd = random.Random(seed)
    if replay:
        with open(replay) as f:
            c = json.load(f)["case"]
        text, files = render(c["case"]["prog"])
        res = run_cases([{"entry": "script", "text": text, "files": files, "args": SCRIPT_ARGS, "timeout": 30}])[0]
        judge(rep, c["case"], text, res, guess_path(res))
        rep.cov["evaluations"] = 1
        return rep.finish(rule="replay of one recorded case")
    rl = run_tlc("MCScriptStatus", "MCScriptStatus_legacy")
    if not rl.violation:
        raise ToolError("the legacy switches of ScriptStatus no longer show a disagreement (model lost its teeth)")
    cases = []
    r = run_tlc("MCScriptStatus", "MCScriptStatus_q" if tier == "quick" else "MCScriptStatus_t", on_replay=cases.append, keep_replays=False, timeout=3000)
    if r.violation:
        raise ToolError("repaired design of script statuses disagrees with the reference:\n" + r.violation[:2500])
    check_action_coverage(r, ["Finish"])
    rep.add_tlc(r)
    total = len(cases)
    if len(cases) > (1500 if tier == "quick" else 20000):
        # programs in which `set -e` meets a block (if / for) or a call / source are always kept: that is where the status rules
        # of C15 interact; the rest is sampled
        def hot(c):
            ks = [p["k"] for p in c["prog"]]
            return "sete" in ks and any(k in ks for k in ("if", "for", "call", "src"))
        keep = [c for c in cases if hot(c)]
        rest = [c for c in cases if not hot(c)]
        budget = 1500 if tier == "quick" else 20000
        if len(keep) > budget * 2 // 3:
            keep = rnd.sample(keep, budget * 2 // 3)
        cases = keep + rnd.sample(rest, min(len(rest), budget - len(keep)))
    log("[C15] %d programs enumerated, %d replayed" % (total, len(cases)))
    jobs = []
    for c in cases:
        text, files = render(c["prog"])
        jobs.append({"entry": "script", "text": text, "files": files, "args": SCRIPT_ARGS, "timeout": 15, "want_files": False})
    results = run_cases(jobs)
    distinct = set()
    for c, j, res in zip(cases, jobs, results):
        if "tool_error" in res:
            raise ToolError(res["tool_error"])
        rep.cov["evaluations"] += 1
        distinct.add(j["text"])
        judge(rep, c, j["text"], res, guess_path(res))
        if rep.cov["evaluations"] % 499 == 1:
            rep.sample({"script": j["text"], "expected": expected(c)})
    # arguments with special characters are data (thorough: more shapes)
    specials = [["a;b", "q'r"], ["$HOME", "*"], ["a|b", "x>y"], ["a&", "#c"], ['d"q', "back\\slash"]]
    sjobs = [{"entry": "script", "text": "vmk T1 0 $0 $1 \"${2}\" ${7}\nvmk T2 0 \"$1\"\n", "args": a, "timeout": 15, "files": {"f": ""}} for a in specials]
    for a, res in zip(specials, run_cases(sjobs)):
        rep.cov["evaluations"] += 1
        got = [(r.get("id"), r.get("argv")) for r in res.get("log", []) if r.get("h") == "mk" and not str(r.get("id", "")).startswith("Z")]
        path = guess_path(res)
        exp_alts = [[("T1", [path, a[0], a[1]]), ("T2", [a[0]])]]
        if got not in exp_alts:
            rep.violation("special-args", "script arguments %s: markers %s, expected %s (stderr %s)" % (a, got, exp_alts[0], res.get("stderr", "")[-150:]),
                          {"special_args": a, "got": got}, {"special_args": True, "chars": sorted(set("".join(a)) - set("abcdqrxyHOMEklash"))})
    # positional parameters in the word list of a `for` head (a separate, token-based expander: expand_args_in_tokens)
    fl_cases = []
    heads = [("$1 $2", ["{1}"] + "{2}".split(), None), ("$@", None, "all"), ("${2} $1 $7", None, "21"), ('"$2"', None, "q2"), ("$0", None, "0"),
             ("p$1 ${1}s", None, "affix"), ("$2 lit $1", None, "mixed")]

    def fl_expect(kind, fr):
        a1, a2 = fr[1], fr[2]
        return {"all": [a1] + a2.split(), "21": a2.split() + [a1], "q2": [a2], "0": [fr[0]], "affix": ["p" + a1, a1 + "s"],
                "mixed": a2.split() + ["lit", a1], None: [a1] + a2.split()}[kind]
    for hd, _, kind in heads:
        loop = "for x in %s\n    vmk FL 0 \"$x\"\ndone\n" % hd
        fl_cases.append(("script", hd, loop, {}, ["@PATH@"] + SCRIPT_ARGS, kind))
        fl_cases.append(("function", hd, "function ff() {\n%s}\nff a1 \"b c\"\n" % "".join("    " + l + "\n" for l in loop.splitlines()), {}, ["ff", "a1", "b c"], kind))
        fl_cases.append(("source", hd, "source lib.sh s1 \"t u\"\n", {"lib.sh": loop}, ["lib.sh", "s1", "t u"], kind))
    fres = run_cases([{"entry": "script", "text": t, "files": f, "args": SCRIPT_ARGS, "timeout": 15} for (_, _, t, f, _, _) in fl_cases])
    for (where, hd, t, f, fr, kind), res in zip(fl_cases, fres):
        rep.cov["evaluations"] += 1
        got = [r.get("argv") for r in res.get("log", []) if r.get("h") == "mk" and r.get("id") == "FL"]
        exp = [[w] for w in fl_expect(kind, fr)]
        if kind == "0":
            ok = len(got) == 1 and len(got[0]) == 1 and (got[0][0] == fr[0] or (fr[0] in ("@PATH@", "lib.sh") and got[0][0].endswith((".sh", "/script")) ) )
            if fr[0] == "@PATH@":
                ok = len(got) == 1 and got[0] and got[0][0] not in ("cicada", "A1") and "/" in got[0][0]
        else:
            ok = got == exp
        if not ok:
            rep.violation("for-list/" + where, "`for x in %s` in a %s: loop items %s, expected %s (stderr %s)\n%s" % (hd, where, got, exp, res.get("stderr", "")[-200:], t),
                          {"for_list": hd, "where": where, "text": t, "files": f}, {"for_list": hd, "where": where})
    # persistence of what a sourced file / a function definition does
    pres = run_cases([{"entry": "script", "text": t, "files": f, "timeout": 15} for (_, t, f, _) in PERSIST])
    for (name, t, f, exp), res in zip(PERSIST, pres):
        rep.cov["evaluations"] += 1
        got = [(r.get("id"), r.get("argv")) for r in res.get("log", []) if r.get("h") == "mk" and not str(r.get("id", "")).startswith("Z")]
        ok = got == [(a, b) for a, b in exp]
        if name == "source-changes-directory" and ok:
            mk = [r for r in res.get("log", []) if r.get("h") == "mk"]
            ok = mk[0].get("cwd", "").endswith("/sub")
        if not ok:
            rep.violation("persistence/" + name, "%s: script\n%s--- markers %s, expected %s (stderr %s)" % (name, t, got, exp, res.get("stderr", "")[-200:]),
                          {"persist": name, "text": t, "files": f}, {"persist": name})
    rep.cov["distinct_nontrivial"] = len(distinct)
    rep.cov["traces_validated_against_impl"] = rep.cov["evaluations"]
    rep.cov["programs_enumerated"] = total
    rep.assumptions += ["non-zero status is 3; `exit` uses 0 and 4", "$@ may arrive as one joined argument or split",
                        "function bodies / sourced files are fixed (f1: ok; f-2: fails; f_3: fails then ok; s1: fails; s2: ok, exit 4, ok; s3: fails, ok)"]
    return rep.finish(rule="every program of <= %d top-level statements over {command ok/failing, call of 3 functions, source of 2 files, exit 0/4, "
                           "set -e, if with passing/failing condition and ok/failing body}, enumerated by TLC from spec/ScriptStatus.tla, run "
                           "with arguments (one containing a blank); plus fixed persistence scenarios (source defines function / variable / "
                           "alias / cd, source chain depth 3, missing arguments); distinct by script text" % (3 if tier == "quick" else 4))


def guess_path(res):
    for r in res.get("log", []):
        if r.get("h") == "mk" and r.get("id", "").startswith(("T", "B", "L")) and r.get("argv"):
            return r["argv"][0]
    return "?"


def main():
    std_main("C15", runner)
