"""Conformance of the specification modules that describe behaviour OUTSIDE the 20 listed properties (the specification keeps
growing: DESIGN.md 12.2).  Each module is checked by TLC against its own reference and bound to the code by exhaustive
conformance, like the transcriptions used by the property checks; a difference is reported as DRIFT (the model and the code
disagree - a statement about the model's faithfulness or a change of behaviour, to be read by a person), not as a VIOLATION of
a listed property.
usage: bin/extras [--tier quick|thorough]     exit 0 = every module conforms, 1 = drift, 2 = tool error"""
import json
import os
import re
import sys

from common import ToolError, build_all, chars, cleanup_scratch, inproc_map, log, run_tlc

VA, VW = "<$a>", "w}"


def prompt(tier):
    """spec/Prompt.tla (render_prompt transcribed) - reference templates and every short string over the scanner's alphabet"""
    drift = []
    n = 0
    for cfg in (("MCPrompt_ref", "MCPrompt_c4") if tier == "quick" else ("MCPrompt_ref5", "MCPrompt_c5")):
        cases = []
        r = run_tlc("MCPrompt", cfg, on_replay=cases.append, keep_replays=False, timeout=3000, xmx="16g")
        if r.violation:
            raise ToolError("the prompt scanner's transcription violates its reference (%s):\n%s" % (cfg, r.violation[:2000]))
        jobs = [{"id": i, "line": chars(c["ps"]), "shv": {"a": VA, "a7": VW}} for i, c in enumerate(cases)]
        res = inproc_map("prompt", jobs, timeout=30, env={"VIRTUAL_ENV": ""})
        for c, j, o in zip(cases, jobs, res):
            # (CmdOut of the model is empty: a `$(..)` whose content is an arithmetic line is a runnable command - the calculator
            # answers it - and is outside the enumeration's assumption)
            m = re.search(r"\$\(([^)]*)\)", j["line"])
            if m and re.search(r"[0-9]", m.group(1)) and re.search(r"[-+*/^]", m.group(1)):
                continue
            n += 1
            want = chars(c["text"])
            got = o.get("prompt")
            ok = (got is not None and re.fullmatch(r"cicada-[0-9.]+ >> ", got) is not None) if c["default"] else got == want
            if not ok:
                drift.append((j["line"], want if not c["default"] else "<default prompt>", got if got is not None else o))
        log("[extras] Prompt %s: %d templates, %d distinct states" % (cfg, len(cases), r.distinct))
    return "Prompt", n, drift


def plan(tier):
    """spec/Plan.tla (the whole front end composed: splitter, tokenizer, environment words, background, stages, input and output
    redirections) - every short line over the alphabet of special characters"""
    drift = []
    n = 0
    for cfg in (("MCPlan_4",) if tier == "quick" else ("MCPlan_5", "MCPlan_r6")):
        cases = []
        r = run_tlc("MCPlan", cfg, on_replay=cases.append, keep_replays=False, timeout=6000, xmx="24g", coverage=False)
        if r.violation:
            raise ToolError("the composed front end violates a reference theorem of Plan.tla (%s):\n%s" % (cfg, r.violation[:2500]))
        res = inproc_map("plan", [{"id": i, "line": c["s"]} for i, c in enumerate(cases)], timeout=30)
        for c, o in zip(cases, res):
            n += 1
            if "plans" not in o:
                drift.append((c["s"], "a plan", {k: o[k] for k in o if k != "id"}))
                continue
            want = {"segs": c["segs"], "plans": []}
            for pl in c["plans"]:
                if not pl["ok"]:
                    want["plans"].append({"ok": False, "err": pl["err"]})
                else:
                    envs = {}
                    for k, v in pl["envs"]:
                        envs[k] = v
                    want["plans"].append({"ok": True, "background": pl["background"], "envs": sorted([k, v] for k, v in envs.items()),
                                          "commands": [{"tokens": [list(t) for t in cm["tokens"]], "redirects_to": [list(x) for x in cm["redirs"]],
                                                        "redirect_from": list(cm["from"]) if cm["from"] else None} for cm in pl["commands"]]})
            got = {"segs": o["segs"], "plans": [({"ok": False, "err": pl["err"]} if not pl["ok"] else
                                                 {"ok": True, "background": pl["background"], "envs": sorted(list(e) for e in pl["envs"]),
                                                  "commands": pl["commands"]}) for pl in o["plans"]]}
            if got != want:
                drift.append((c["s"], want, got))
        log("[extras] Plan %s: %d lines, %d distinct states" % (cfg, len(cases), r.distinct))
    return "Plan", n, drift


def highlight(tier):
    """spec/Highlight.tla (the line editor's colouring transcribed over the tokenizer's tokens) - every short line over quotes,
    operators, blanks, a multi-byte character and the letters of `cd`"""
    drift = []
    cases = []
    cfg = "MCHighlight_5" if tier == "quick" else "MCHighlight_6"
    r = run_tlc("MCHighlight", cfg, on_replay=cases.append, keep_replays=False, timeout=6000, xmx="24g", coverage=False)
    if r.violation:
        raise ToolError("the highlighter's transcription violates Partition / OnlyFirstWords (%s):\n%s" % (cfg, r.violation[:2500]))
    lines = [chars(list(c["s"])) for c in cases]
    res = inproc_map("highlight", [{"id": i, "line": ln} for i, ln in enumerate(lines)], timeout=30)
    for c, ln, o in zip(cases, lines, res):
        if "ranges" not in o:
            drift.append((ln, c["ranges"], {k: o[k] for k in o if k != "id"}))
            continue
        # byte offsets -> character positions (a boundary inside a character is a difference by itself)
        b2c = {}
        pos = 0
        for i, ch in enumerate(ln):
            b2c[pos] = i
            pos += len(ch.encode("utf-8"))
        b2c[pos] = len(ln)
        got = [[b2c.get(a, -1), b2c.get(b, -1), g] for a, b, g in o["ranges"]]
        if got != [list(x) for x in c["ranges"]]:
            drift.append((ln, c["ranges"], got))
    log("[extras] Highlight %s: %d lines, %d distinct states" % (cfg, len(cases), r.distinct))
    return "Highlight", len(cases), drift


def multiline(tier):
    """spec/Multiline.tla (Enter on an incomplete buffer, the sub-prompt text, trim_multiline_prompts) - every typing of 2..3
    physical lines over quotes, backslash, pipe, blank, `>` and a letter that the editor's own rule (Tokenizer!Complete) allows"""
    drift = []
    cases = []
    cfg = "MCMultiline_3" if tier == "quick" else "MCMultiline_4"
    r = run_tlc("MCMultiline", cfg, on_replay=cases.append, keep_replays=False, timeout=6000, xmx="24g", coverage=False)
    if r.violation:
        raise ToolError("the multi-line transcription violates JoinOK (%s):\n%s" % (cfg, r.violation[:2500]))
    bufs = [chars(list(c["buf"])) for c in cases]
    res = inproc_map("multiline", [{"id": i, "line": b} for i, b in enumerate(bufs)], timeout=30)
    for c, b, o in zip(cases, bufs, res):
        want = chars(list(c["trimmed"]))
        # every emitted buffer was accepted by the model's editor: the real parse_line must find it complete, and every proper
        # prefix that ends right before an inserted sub-prompt incomplete (that is why Enter did not submit there)
        if o.get("complete") is not True or o.get("trimmed") != want:
            drift.append((b, {"complete": True, "trimmed": want}, {k: o[k] for k in o if k != "id"}))
    pre = sorted({b[:i] for b in bufs for i in range(len(b)) if b.startswith("\n>> ", i)})
    res2 = inproc_map("multiline", [{"id": i, "line": p} for i, p in enumerate(pre)], timeout=30)
    for p, o in zip(pre, res2):
        if o.get("complete") is not False:
            drift.append((p, {"complete": False}, {k: o[k] for k in o if k != "id"}))
    # the real editor: physical lines typed at a pty prompt (Enter after each) run the programs of the joined line
    import ptydrv
    from common import run_cases
    typed = [(["vpa a\\", "b"], "vpa ab"), (["vpa 'a", "b' c"], "vpa 'a\nb' c"), (["vpa a |", "vpa b"], "vpa a | vpa b"),
             (["vpa \"x", "y\" z"], "vpa \"x\ny\" z"), (["vpa a \\", " b \\", "c"], "vpa a  b c"), (["vpa a |  ", "vpa 'p", "q'"], "vpa a | vpa 'p\nq'")]
    base = run_cases([{"entry": "c", "text": j, "want_files": False} for _, j in typed])
    for (pieces, joined), b in zip(typed, base):
        try:
            sess = ptydrv.LineSession()
        except ptydrv.Unsettled as e:
            raise ToolError("pty session: %s" % e)
        try:
            for pc in pieces:
                sess.send(pc + "\r", timeout=10)
            got = sorted(json.dumps(x.get("argv")) for x in sess.log() if x.get("h") == "pa")
        finally:
            sess.close()
        want = sorted(json.dumps(x.get("argv")) for x in b.get("log", []) if x.get("h") == "pa")
        if got != want:
            drift.append((" <Enter> ".join(pieces), want, got))
    log("[extras] Multiline %s: %d accepted buffers, %d unfinished prefixes, %d distinct states" % (cfg, len(cases), len(pre), r.distinct))
    return "Multiline", len(cases) + len(pre) + len(typed), drift


MODULES = [prompt, plan, highlight, multiline]


def main():
    tier = "quick"
    if "--tier" in sys.argv:
        tier = sys.argv[sys.argv.index("--tier") + 1]
    try:
        build_all()
        bad = 0
        for m in MODULES:
            name, n, drift = m(tier)
            print("%s: %d cases compared with the implementation, %d differ" % (name, n, len(drift)))
            for d in drift[:12]:
                print("DRIFT module=%s input=%r model=%r code=%r" % ((name,) + d))
            bad += len(drift)
        cleanup_scratch()
        sys.exit(1 if bad else 0)
    except ToolError as e:
        print("TOOL ERROR (extras): %s" % e)
        sys.exit(2)


if __name__ == "__main__":
    main()
