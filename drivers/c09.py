"""C09 - variables, exported environment and working directory follow the scoping rules.
Spec: spec/EnvDir.tla (implementation-shaped state with the lookup orders as coded vs the reference
table name -> [value, exported]; cd over a small directory tree with a symlink, a file and a missing
name).  (M) TLC checks that the coded lookups equal the reference after every history of up to 5
operations; (G) TLC simulation produces histories of 30 operations with the reference observation
after each; (A) each history is rendered to a script with an observation command after every
operation; oracle: what expansions show, what the child's environment holds, the child's working
directory, $PWD, where a relative redirection lands, and cd's status."""
import json
import random

from common import Report, ToolError, check_action_coverage, log, run_cases, run_tlc, std_main

NAMES = ["A", "B", "AB", "_x"]
UNSET = "<unset>"
DIRS = {"R": "", "A": "/a", "B": "/a/b", "H": "/h"}
CDARG = {"absA": "@CWD@/a", "absB": "@CWD@/a/b", "absL": "@CWD@/l", "relb": "b", "rela": "a", "rell": "l", "up": "..", "home": "",
         "dash": "-", "file": "@CWD@/f", "missing": "nosuchdir", "dot": "."}


def q(v):
    return '"%s"' % v if "'" in v else "'%s'" % v


def render(hist):
    lines = []
    for i, o in enumerate(hist, 1):
        op = o["op"]
        k = op["op"]
        if k == "assign":
            lines.append("%s=%s" % (op["n"], q(op["v"])))
        elif k == "prefix":
            lines.append("%s=%s vpa PFX%d" % (op["n"], q(op["v"]), i))
        elif k == "assign2":
            lines.append("%s=%s %s=%s" % (op["n1"], q(op["v1"]), op["n2"], q(op["v2"])))
        elif k == "prefix2":
            lines.append("%s=%s %s=%s vpa PFX%d" % (op["n1"], q(op["v1"]), op["n2"], q(op["v2"]), i))
        elif k == "export2":
            lines.append("export %s=%s %s=%s" % (op["n1"], q(op["v1"]), op["n2"], q(op["v2"])))
        elif k == "export":
            lines.append("export %s=%s" % (op["n"], q(op["v"])))
        elif k == "unset":
            lines.append("unset %s" % op["n"])
        elif k == "read":
            lines.append("read %s <<< '%s'" % (" ".join(op["ns"]), " ".join(["x", "y", "z", "w"][:op["m"]])))
        elif k == "cd":
            lines.append(("cd " + CDARG[op["a"]]).rstrip())
            lines.append("vmk ST%d 0 $?" % i)
        lines.append('vpa OBS%d "$A" "$B" "$AB" "$_x" "$PWD" > rel%d.out' % (i, i))
    return "\n".join(lines) + "\n"


def judge(rep, hist, text, res):
    kinds = sorted({o["op"]["op"] for o in hist})
    rec = {"hist": hist, "text": text, "status": res.get("status"), "stderr": res.get("stderr", "")[-400:]}
    root = res.get("cwd_root", "")
    if res.get("timed_out"):
        return rep.violation("hang", "history script never finishes", rec, {"kinds": kinds})
    logs = res.get("log", [])
    obs = {r["argv"][0]: r for r in logs if r.get("h") == "pa" and r.get("argv") and r["argv"][0].startswith("OBS")}
    pfx = {r["argv"][0]: r for r in logs if r.get("h") == "pa" and r.get("argv") and r["argv"][0].startswith("PFX")}
    sts = {r["id"]: r for r in logs if r.get("h") == "mk"}
    files = res.get("files", {})
    for i, o in enumerate(hist, 1):
        op = o["op"]
        feat = {"op": op["op"], "kinds": kinds, "arg": op.get("a", ""), "value": op.get("v", "")}
        r = obs.get("OBS%d" % i)

        def bad(kind, desc):
            return rep.violation("%s/%s" % (kind, op["op"] + ("-" + op["a"] if op["op"] == "cd" else "")),
                                 "after operation %d (%s) of\n%s--- %s" % (i, json.dumps(op), text, desc), dict(rec, step=i), dict(feat, fail=kind))
        if r is None:
            return bad("observer-missing", "the observation command did not run (stderr %s)" % res.get("stderr", "")[-200:])
        want = ["" if o["exp"].get(n, UNSET) == UNSET else o["exp"][n] for n in NAMES]
        got = r["argv"][1:5]
        if got != want:
            return bad("expansion", "expansions of A B AB _x gave %s, expected %s" % (got, want))
        cenv = r.get("env", {})
        for n in NAMES:
            w = None if o["child"].get(n, UNSET) == UNSET else o["child"][n]
            if cenv.get(n) != w:
                return bad("child-env", "the child saw %s=%r, expected %r" % (n, cenv.get(n), w))
        wcwd = root + DIRS[o["cwd"]]
        if r.get("cwd") != wcwd:
            return bad("child-cwd", "the child ran in %s, expected %s" % (r.get("cwd"), wcwd))
        if r["argv"][5] != wcwd:
            return bad("pwd-var", "$PWD is %r, expected %r" % (r["argv"][5], wcwd))
        rel = (DIRS[o["cwd"]].lstrip("/") + "/" if DIRS[o["cwd"]] else "") + "rel%d.out" % i
        if rel not in files:
            return bad("relative-redirection", "rel%d.out was not created in %s (files: %s)" % (i, wcwd, sorted(k for k in files if k.endswith(".out"))[:6]))
        if op["op"] == "prefix":
            p = pfx.get("PFX%d" % i)
            if p is None or p.get("env", {}).get(op["n"]) != op["v"]:
                return bad("prefix-env", "the prefixed command saw %s=%r, expected %r" % (op["n"], p and p.get("env", {}).get(op["n"]), op["v"]))
        if op["op"] == "prefix2":
            p = pfx.get("PFX%d" % i)
            want = {op["n1"]: op["v1"]}
            want[op["n2"]] = op["v2"]
            got = {n: (p or {}).get("env", {}).get(n) for n in want}
            if p is None or got != want:
                return bad("prefix-env", "the command prefixed with two assignments saw %s, expected %s" % (got, want))
        if op["op"] == "cd":
            s = sts.get("ST%d" % i)
            if s is None or (s["argv"][0] == "0") != (o["status"] == 0):
                return bad("cd-status", "cd returned %s, expected %s" % (s and s["argv"][0], "0" if o["status"] == 0 else "non-zero"))
    return False


def runner(rep, tier, seed, replay):
    if replay:
        with open(replay) as f:
            c = json.load(f)["case"]
        res = run_case_hist(c["hist"])
        judge(rep, c["hist"], render(c["hist"]), res)
        rep.cov["evaluations"] = 1
        return rep.finish(rule="replay of one recorded history")
    r = run_tlc("MCEnvDir0", "MCEnvDir0", timeout=3000)
    if r.violation:
        raise ToolError("the coded lookup orders disagree with the reference scoping:\n" + r.violation[:2500])
    check_action_coverage(r, ["Assign", "Prefix", "Export", "UnsetVar", "ReadN", "Cd", "Assign2", "Prefix2", "Export2"])
    rep.add_tlc(r)
    hists = []
    n = 250 if tier == "quick" else 6000
    rs = run_tlc("MCEnvDir", "MCEnvDir_sim", simulate=max(10, n // 60), depth=40, seed=seed, workers=1, coverage=False,
                 on_replay=lambda v: hists.append(v) if len(hists) < n else None, keep_replays=False, timeout=1800)
    if rs.violation:
        raise ToolError("model violation during generation:\n" + rs.violation[:2000])
    rep.add_tlc(rs)
    log("[C09] %d histories of %d operations" % (len(hists), len(hists[0]) if hists else 0))
    # every history of 3 (thorough 4) operations on one name (two values) and the directory tree - exhaustive, from the same
    # module: short sequences such as assign / export / unset / observe are all there, not left to chance
    ex = []
    rx = run_tlc("MCEnvDir", "MCEnvDir_x3" if tier == "quick" else "MCEnvDir_x4", on_replay=ex.append, keep_replays=False, timeout=3000, xmx="16g")
    if rx.violation:
        raise ToolError("model violation on a short history:\n" + rx.violation[:2000])
    rep.add_tlc(rx)
    if len(ex) > 40000:
        ex = random.Random(seed).sample(ex, 40000)
    log("[C09] %d short histories (exhaustive)" % len(ex))
    hists += ex
    jobs = [job_of(h) for h in hists]
    results = run_cases(jobs)
    distinct = set()
    nops = 0
    for h, j, res in zip(hists, jobs, results):
        if "tool_error" in res:
            raise ToolError(res["tool_error"])
        rep.cov["evaluations"] += 1
        nops += len(h)
        distinct.add(j["text"])
        judge(rep, h, j["text"], res)
        if rep.cov["evaluations"] % 83 == 1:
            rep.sample({"script": j["text"][:700]})
    rep.cov["distinct_nontrivial"] = len(distinct)
    rep.cov["traces_validated_against_impl"] = rep.cov["evaluations"]
    rep.cov["operations_observed"] = nops
    rep.assumptions += ["values are written in one quoting style (single quotes, double quotes when the value has a single quote)",
                        "the directory tree is R/a, R/a/b, R/h ($HOME), symlink R/l -> a/b, file R/f; the shell starts in R/a with PWD set",
                        "read is given the first 0..4 of the fields x y z w, with 1..3 names (repetitions allowed)"]
    return rep.finish(rule="every history of 3 (thorough 4) operations on one name, exhaustive, and TLC-simulated histories of 30 operations (assignment, prefixed command, export, unset, read, cd with absolute / "
                           "relative / .. / symlink / no argument / - / file / missing / .) over names {A, B, AB, _x} and values {empty, "
                           "'v w', 'p=q:r', q'r, x}, each followed by an observation command; non-trivial = every history; distinct by text")


def job_of(h):
    return {"entry": "script", "text": render(h), "dirs": ["a/b", "h"], "files": {"f": "file\n"}, "symlinks": {"l": "a/b"},
            "startdir": "a", "envnames": ",".join(NAMES), "env": {"HOME": "@SCRATCH@/cwd/h", "PWD": "@SCRATCH@/cwd/a"}, "timeout": 30}


def run_case_hist(h):
    return run_cases([job_of(h)])[0]


def main():
    std_main("C09", runner)
