"""C20 - what TAB inserts for a file name is read back as exactly that file.
Spec: spec/Complete.tla (Candidates; Insert in the three quote contexts in two models: "pinned" =
completers/path.rs as written, "inverse" = the inverse of the reference reader; RoundTrip: the
completed line is read back as the entry's name with no character left active), spec/MCComplete.tla
(every name up to the bound over the special-character alphabet x contexts).
(M) TLC checks RoundTrip for the inverse escaping and lists, per (name, context), whether the pinned
escaping satisfies it; (G) every (name, context) is a replay case; (A) in-process: a directory is
populated, the real escaped_word_start + complete_path produce candidates and insertion, the harness
splices it the way lineread 0.7.2's complete_word does and the real CommandLine::from_line must plan
argv = the entry name; candidates are compared as sets; every kind of mismatch and a sample of matches
are then typed into a live pseudo-terminal session (prefix, TAB, Enter) and judged by the argv the
helper program received - only pty-level failures are violations."""
import json
import os
import random
import shutil
from concurrent.futures import ThreadPoolExecutor

from common import NCPU, WORK, Report, ToolError, check_action_coverage, inproc_map, log, run_tlc, stable_hash, std_main
import ptydrv

META = set("|&;<>()$`\\\"'*?[]{},~#!=%^ \t")
MAP = {"U": "é"}


def txt(s):
    return "".join(MAP.get(c, c) for c in s)


def type_prefix(p, ctx):
    """how a user types the first characters of the name in the given quote context (None: cannot be typed there)"""
    if ctx == "unq":
        return "".join("\\" + c if c in META else c for c in p)
    if ctx == "sq":
        return None if "'" in p else p
    out = ""
    for c in p:
        out += "\\" + c if c in '"\\$`' else c
    return out


def make_case(v, variant, k):
    name = txt(v["name"])
    ctx = v["ctx"]
    plen = 1 if len(name) == 1 or k % 3 else min(2, len(name))
    if variant == "shared":
        plen = len(name)
    prefix = name[:plen]
    typed = type_prefix(prefix, ctx)
    if typed is None:
        return None
    opener = {"unq": "", "sq": "'", "dq": '"'}[ctx]
    is_dir = variant == "dir" or variant == "cd"
    entries = {name: is_dir, "zz": False, "zd": True}
    if variant == "shared":
        entries[name + "x"] = False
        entries[name + "y"] = True
    if variant == "cd":
        # a file that shares the typed prefix but then differs must not be offered after cd: if it is, the inserted common
        # prefix stops short of the directory's name and `cd` goes nowhere
        decoy = prefix + "Z"
        if decoy == name:
            decoy = prefix + "Y"
        entries[decoy] = False
    cmd = "cd" if variant == "cd" else "vpa"
    return {"name": name, "ctx": ctx, "variant": variant, "prefix": prefix, "line": "%s %s%s" % (cmd, opener, typed),
            "entries": entries, "for_dir": variant == "cd", "pinned_ok": v["pinned_ok"], "pinned_insert": txt(v.get("pinned_insert", "")),
            "feat": {"ctx": ctx, "variant": variant, "specials": sorted(set(name) & META), "first": name[:1], "name": name, "blank_tilde": " ~" in name, "nbackquote": name.count("`"),
                     "is_dir": is_dir,
                     "model_pinned_ok": v["pinned_ok"], "len": len(name)}}


def populate(root, i, entries):
    d = os.path.join(root, "p%d" % i)
    os.makedirs(d)
    for n, isdir in entries.items():
        p = os.path.join(d, n)
        if isdir:
            os.makedirs(p)
        else:
            open(p, "w").close()
    return d


def expected_candidates(c):
    return sorted(n for n, isdir in c["entries"].items() if n.startswith(c["prefix"]) and (isdir or not c["for_dir"]))


def judge_inproc(c, g):
    """returns None or a kind of mismatch (candidate for the pty layer)"""
    if g is None or g.get("hang") or "abort" in g or "panic" in g:
        return "crash"
    if g.get("bad_word_start"):
        return "word-start"
    comps = g.get("completions", [])
    shown = sorted((x.get("display") or x["completion"]) for x in comps)
    exp = expected_candidates(c)
    if len(comps) != len(exp):
        return "candidates"
    if c["variant"] == "shared":
        return None        # the list itself is judged at the pty (display names are escaped forms)
    if len(exp) == 1:
        plan = g.get("plan") or {}
        plans = plan.get("plans", [])
        want = c["name"] + ("/" if c["entries"][c["name"]] else "")
        if len(plans) != 1 or not plans[0].get("ok"):
            return "rejected"
        p = plans[0]
        if p.get("background") or len(p.get("commands", [])) != 1:
            return "structure"
        cmd = p["commands"][0]
        if cmd.get("redirects_to") or cmd.get("redirect_from"):
            return "redirection"
        argv = [t[1] for t in cmd.get("tokens", [])]
        if c["variant"] == "cd":
            return None if argv == ["cd", want] else "argv"
        if argv != ["vpa", want]:
            return "argv"
    return None


def run_pty(c):
    """type the prefix, TAB, (closing quote for a directory inside quotes), Enter; return the argv the helper got"""
    files = {n: "" for n, isdir in c["entries"].items() if not isdir}
    dirs = [n for n, isdir in c["entries"].items() if isdir]
    if c["variant"] == "sub":
        files[c["name"] + "/qq"] = ""
    try:
        s = ptydrv.LineSession(files=files, dirs=dirs)
    except ptydrv.Unsettled as e:
        return {"unsettled": str(e)}
    try:
        line = c["line"]
        ok, t1 = s.send(line + "\t", timeout=10)
        if not ok:
            return {"unsettled": "after TAB"}
        is_dir = c["entries"][c["name"]]
        closing = ""
        if c["variant"] == "sub":
            # second step: the first letter of the file inside the completed directory, TAB (a file: the completer closes the quote)
            ok, t1b = s.send("q\t", timeout=10)
            if not ok:
                return {"unsettled": "after the second TAB"}
            t1 += t1b
            ok, t2 = s.send("\r", timeout=10)
            if not ok:
                s.send("\x03", timeout=5)
                return {"argv": None, "screen": (t1 + t2).decode("utf-8", "replace")[-300:], "stuck": True}
            recs = [r for r in s.log() if r.get("h") == "pa"]
            return {"argv": recs[0].get("argv") if len(recs) == 1 else None, "nrec": len(recs), "screen": (t1 + t2).decode("utf-8", "replace")[-300:]}
        if c["variant"] == "shared":
            # several candidates: the common prefix (= the name) was inserted without suffix; close an open quote
            closing = {"unq": "", "sq": "'", "dq": '"'}[c["ctx"]]
        elif is_dir and c["ctx"] != "unq":
            closing = {"sq": "'", "dq": '"'}[c["ctx"]]
        ok, t2 = s.send(closing + "\r", timeout=10)
        if not ok:
            # an open quote leaves the editor in multi-line mode: that is a failed round trip, not a tool problem
            s.send("\x03", timeout=5)
            return {"argv": None, "screen": (t1 + t2).decode("utf-8", "replace")[-300:], "stuck": True}
        if c["variant"] == "cd":
            # the line was `cd <completed name>`: where did the shell go?
            ok, t3 = s.send("vpa\r", timeout=10)
            recs = [r for r in s.log() if r.get("h") == "pa"]
            cwd = recs[0].get("cwd", "") if len(recs) == 1 else None
            rel = os.path.relpath(cwd, s.cwd) if cwd else None
            return {"argv": [rel + "/"] if rel is not None else None, "screen": (t1 + t2).decode("utf-8", "replace")[-300:]}
        recs = [r for r in s.log() if r.get("h") == "pa"]
        return {"argv": recs[0].get("argv") if len(recs) == 1 else None, "nrec": len(recs),
                "screen": (t1 + t2).decode("utf-8", "replace")[-300:]}
    finally:
        s.close()


def pty_ok(c, o):
    want = c["name"] + ("/" if c["entries"][c["name"]] and c["variant"] != "shared" else "")
    if c["variant"] == "cd":
        want = c["name"] + "/"
    if c["variant"] == "sub":
        want = c["name"] + "/qq"
    return o.get("argv") == [want]


def runner(rep, tier, seed, replay):
    rnd = random.Random(seed)
    if replay:
        with open(replay) as f:
            c = json.load(f)["case"]["case"]
        o = run_pty(c)
        if "unsettled" in o:
            raise ToolError("pty session did not settle: " + o["unsettled"])
        if not pty_ok(c, o):
            rep.violation("replay", "still fails: %s" % json.dumps(o)[:300], {"case": c, "pty": o}, dict(c["feat"], kind="argv"))
        rep.cov["evaluations"] = 1
        return rep.finish(rule="replay of one recorded case")
    raw = []
    for cfg in (["MCComplete_2"] if tier == "quick" else ["MCComplete_2", "MCComplete_3r"]):
        r = run_tlc("MCComplete", cfg, on_replay=raw.append, keep_replays=False, timeout=3000)
        if r.violation:
            raise ToolError("the inverse escaping violates RoundTrip at the design level:\n" + r.violation[:2000])
        check_action_coverage(r, ["Add", "Finish"])
        rep.add_tlc(r)
    seen_nc = set()
    raw = [v for v in raw if (v["name"], v["ctx"]) not in seen_nc and not seen_nc.add((v["name"], v["ctx"]))]
    rp = run_tlc("MCComplete", "MCComplete_pinned", coverage=False)
    rep.add_tlc(rp)
    model_says_pinned_fails = bool(rp.violation)
    cases = []
    for k, v in enumerate(raw):
        h = stable_hash(json.dumps(v, sort_keys=True)) ^ seed
        variants = ["file"]
        if h % 4 == 0:
            variants.append("dir")
        if h % 5 == 0:
            variants.append("shared")
        if h % 7 == 0:
            variants.append("cd")
        for var in variants:
            c = make_case(v, var, h)
            if c:
                cases.append(c)
    log("[C20] %d (name, context) pairs from TLC -> %d cases" % (len(raw), len(cases)))
    root = os.path.join("/dev/shm" if os.path.isdir("/dev/shm") else WORK, "c20-%d" % os.getpid())
    shutil.rmtree(root, ignore_errors=True)
    os.makedirs(root)
    try:
        jobs = []
        for i, c in enumerate(cases):
            jobs.append({"id": i, "line": c["line"], "cwd": populate(root, i, c["entries"]), "for_dir": c["for_dir"]})
        got = inproc_map("complete", jobs, timeout=20, env={"HOME": "/verif-home"})
    finally:
        shutil.rmtree(root, ignore_errors=True)
    mism, okidx = [], []
    agree_model = 0
    n_insert, insert_drift = 0, []
    for i, (c, g) in enumerate(zip(cases, got)):
        if g and "tool_error" in g:
            raise ToolError(g["tool_error"])
        rep.cov["evaluations"] += 1
        k = judge_inproc(c, g)
        if k:
            mism.append((i, k))
        else:
            okidx.append(i)
        if c["variant"] == "file" and (k is None) == bool(c["pinned_ok"]):
            agree_model += 1
        # conformance of the model's "pinned" Insert (escape_path / wrap_sep_string) to the code: the text the real completer offers
        if c["variant"] == "file" and g and len(g.get("completions", [])) == 1:
            n_insert += 1
            if g["completions"][0]["completion"] != c["pinned_insert"]:
                insert_drift.append((c["name"], c["ctx"], g["completions"][0]["completion"], c["pinned_insert"]))
    log("[C20] in-process: %d round trips as specified, %d differ" % (len(okidx), len(mism)))
    # pty layer: every cluster of mismatches (bounded) + a sample of matches
    clusters = {}
    for i, k in mism:
        f = cases[i]["feat"]
        clusters.setdefault((k, f["ctx"], f["variant"], tuple(f["specials"])[:2]), []).append(i)
    to_run = []
    for key, idxs in clusters.items():
        rnd.shuffle(idxs)
        to_run += idxs[:2]
    nsample = min(len(okidx), 60 if tier == "quick" else 900)
    to_run += rnd.sample(okidx, nsample)
    # which completer the line editor picks (cd: directories only) is decided by the real dispatch in the binary only:
    # every `cd` case is typed at the pty
    to_run += [i for i in okidx if cases[i]["variant"] == "cd"]
    # a file inside a completed directory (two completions on one word): for directories whose own name round-trips
    subs = [i for i in okidx if cases[i]["variant"] == "dir"]
    rnd.shuffle(subs)
    for i in subs[:(30 if tier == "quick" else 400)]:
        c2 = dict(cases[i], variant="sub", feat=dict(cases[i]["feat"], variant="sub"))
        cases.append(c2)
        to_run.append(len(cases) - 1)
    to_run = sorted(set(to_run))
    log("[C20] pty layer: %d mismatch clusters, %d sessions" % (len(clusters), len(to_run)))

    def one(i):
        o = run_pty(cases[i])
        if "unsettled" in o:
            o = run_pty(cases[i])
        return o
    with ThreadPoolExecutor(max_workers=min(12, NCPU)) as ex:
        outs = list(ex.map(one, to_run))
    mk = dict(mism)
    unsettled = confirmed = disagree = 0
    for i, o in zip(to_run, outs):
        c = cases[i]
        if "unsettled" in o:
            unsettled += 1
            continue
        ok = pty_ok(c, o)
        if not ok:
            confirmed += 1
            f = dict(c["feat"], kind=mk.get(i, "pty-only"), in_process=mk.get(i, "ok"))
            rep.violation("%s/%s/%s" % (c["ctx"], c["variant"], "".join(c["feat"]["specials"]) or "plain"),
                          "entry %r completed from `%s<TAB>`: the program received %s" % (c["name"], c["line"], o.get("argv")),
                          {"case": c, "pty": o}, f)
        if ok != (i not in mk):
            disagree += 1
    if to_run and unsettled > max(3, len(to_run) // 5):
        raise ToolError("%d of %d pty sessions did not settle" % (unsettled, len(to_run)))
    # ---- which part of the line TAB replaces: spec/WordStart.tla is escaped_word_start transcribed statement by statement; every
    # string over {a, blank, ' " \, multi-byte} up to length 6 (thorough 7) must get the same word start from the real function
    # (conformance: drift is reported); TLC checks the transcription against the reference reader's word boundary
    # (AgreesUnlessDoubleBackslash: the two exceptions are named deviations of the code)
    wcases = []
    rw = run_tlc("MCWordStart", "MCWordStart_6" if tier == "quick" else "MCWordStart_7", on_replay=wcases.append, keep_replays=False, timeout=3000)
    if rw.violation:
        raise ToolError("the transcription of escaped_word_start disagrees with the reference outside the named exceptions:\n" + rw.violation[:2000])
    rep.add_tlc(rw)
    wgot = inproc_map("wordstart", [{"id": i, "line": txt(w["s"])} for i, w in enumerate(wcases)], timeout=20)
    wdrift = [w["s"] for w, g in zip(wcases, wgot) if not g or g.get("start") != w["start"]]
    if wdrift:
        log("[C20] word-start transcription drift on %d strings, e.g. %r" % (len(wdrift), wdrift[:5]))
    rep.cov["wordstart_strings"] = len(wcases)
    rep.cov["wordstart_drift"] = len(wdrift)
    rep.cov["wordstart_drift_examples"] = wdrift[:10]
    rep.cov["wordstart_vs_reference_disagreements"] = sum(1 for w in wcases if w["start"] != w["ref"])
    rep.cov["spec_drift"] = len(wdrift)
    rep.cov["distinct_nontrivial"] = len({(c["name"], c["ctx"], c["variant"]) for c in cases if c["feat"]["specials"]})
    rep.cov["traces_validated_against_impl"] = rep.cov["evaluations"] + len(to_run) - unsettled
    rep.cov["inprocess_mismatches"] = len(mism)
    rep.cov["pty_sessions"] = len(to_run) - unsettled
    rep.cov["pty_confirmed_failures"] = confirmed
    rep.cov["splice_emulation_disagreements"] = disagree
    rep.cov["model_pinned_agreement"] = agree_model
    rep.cov["insert_text_compared"] = n_insert
    rep.cov["insert_text_drift"] = len(insert_drift)
    rep.cov["insert_text_drift_examples"] = insert_drift[:8]
    if insert_drift:
        log("[C20] inserted text differs from the model's pinned Insert on %d cases, e.g. %r" % (len(insert_drift), insert_drift[:3]))
    rep.cov["model_says_pinned_completer_fails_somewhere"] = model_says_pinned_fails
    rep.cov["exhaustive"] = True
    for i in rnd.sample(range(len(cases)), min(5, len(cases))):
        rep.sample({"typed": cases[i]["line"] + "<TAB>", "entry": cases[i]["name"], "variant": cases[i]["variant"]})
    rep.assumptions += ["the in-process splice emulates lineread 0.7.2 complete_word (one candidate: replace [word_start, cursor) by the completion "
                        "plus its suffix; several: by the longest common prefix); it is cross-checked by the pty layer",
                        "only pty-level failures are violations; in-process mismatches select what is typed at the pty",
                        "U stands for a multi-byte character; names contain no '/' and do not start with 'z' (decoy entries)"]
    return rep.finish(rule="every entry name up to length %d over {a, blank, ' \" $ * { } , ~ # | & ; \\ ( ` ! > = ?, multi-byte} x {unquoted, open ', "
                           "open \"} enumerated by TLC from spec/MCComplete.tla, as a file (all), a directory, one of several candidates with a "
                           "shared prefix, and after cd (subsets), completed from a 1..2 character prefix; in-process for all, pty for every "
                           "mismatch cluster and a sample of matches; non-trivial = the name contains a special character; distinct by "
                           "(name, context, variant)%s" % (2, "" if tier == "quick" else "; thorough adds every name of length 3 over the reduced alphabet {a, blank, ' \" # & ; ( ! = ? , {, multi-byte} "
                           "(the characters without a recorded finding)"))


def main():
    std_main("C20", runner)
