"""Line generators shared by the checks that quantify over "the line generators of C01, C03, C04,
C10-C12" (C16) - each returns generic process-level cases: {"text": line, "files": .., "env": ..,
"vhfiles": .., "origin": "C01", "feat": {..}}.  The lines come from the same TLC models the
individual checks enumerate (quick bounds), rendered with the same helper programs."""
import json
import random

from common import ToolError, chars, run_tlc, stable_hash
import c01
import c03
import c04
import c10
import c11
import c12


def _tlc(module, cfg, rep, **kw):
    out = []
    r = run_tlc(module, cfg, on_replay=out.append, keep_replays=False, timeout=1800, **kw)
    if r.violation:
        raise ToolError("generator model %s/%s reports a violation:\n%s" % (module, cfg, r.violation[:1500]))
    if rep is not None:
        rep.add_tlc(r)
    return out


def gen_c01(rep, tier, seed):
    out = []
    raws = _tlc("MCLex", "MCLex_q" if tier == "quick" else "MCLex_t", rep, xmx="16g")
    raws += _tlc("MCLexArgs", "MCLexArgs", rep, simulate=200 if tier == "quick" else 3000, depth=60, seed=seed, workers=1,
                 coverage=False)
    for v in raws:
        c = c01.to_case(v)
        f = c["feat"]
        out.append({"text": c["line"], "files": c01.FILES, "env": dict(c01.ENVV), "origin": "C01",
                    "feat": {"style": f["style"], "chars": f["chars"], "pos": f["pos"], "ctx": f["ctx"], "tight": f["tight"],
                             "bs_chars": f["bs_chars"], "txt": f["txt"]}})
    return out


def gen_c03(rep, tier, seed):
    out = []
    progs = _tlc("MCCmdList", "MCCmdList_4", rep)
    progs += _tlc("MCCmdList", "MCCmdList_sim", rep, simulate=100 if tier == "quick" else 1500, depth=200, seed=seed, workers=1,
                  coverage=False)
    for prog in progs:
        line, exp, status, conc = c03.render(prog, "c", random.Random(stable_hash(json.dumps(prog) + "c16") ^ seed))
        out.append({"text": line, "origin": "C03", "feat": {"n": len(prog["sts"]), "bs_decoy": "\\" in line}})
    return out


def gen_c04(rep, tier, seed):
    out = []
    for c in _tlc("MCRedirect", "MCRedirect_q", rep):
        ln = c04.render(c, random.Random(stable_hash(json.dumps(c, sort_keys=True)) ^ seed))
        out.append({"text": ln, "files": {"f1": "old\n", "f1b": "old2\n"}, "origin": "C04",
                    "feat": {"kind": c["kind"], "pos": c["pos"], "ops": [r["k"] for r in c["rs"]]}})
    return out


def gen_c10(rep, tier, seed):
    out = []
    seen = {}
    for v in _tlc("MCExpand", "MCExpand_q", rep):
        c = c10.to_case(v)
        seen[(c["word"], json.dumps(c["env"], sort_keys=True))] = c
    for c in seen.values():
        txt = c["word"] + "".join(c["env"].values())
        if "$1" in txt or "${1" in txt or "$@" in txt:
            continue    # C16 quantifies over lines without positional parameters
        for form, line in c10.forms(c):
            out.append({"text": line, "env": dict(c["env"]), "origin": "C10", "pid_in_argv": "$$" in c["word"],
                        "feat": {"form": form, "word": c["word"]}})
    return out


def gen_c11(rep, tier, seed):
    out = []
    cases = []
    for cfg in ("MCSubst_q", "MCSubst_q2"):
        cases += _tlc("MCSubst", cfg, rep)
    cases = [c for c in cases if not (c["kind"] in ("builtin", "notfound", "invalid", "failing") and chars(c["o1"]) not in ("x",))]
    for c in cases:
        o1, o2 = c11.outputs(c)
        if "$1" in o1 or "$1" in o2:
            pass    # the text is produced by a program, it is not a positional parameter of the line
        vh = {"out.1": chars(c["o1"], c11.MAP), "out.2": o2}
        if c["kind"] == "failing":
            vh["st.1"] = "3"
        out.append({"text": c11.render(c), "vhfiles": vh, "origin": "C11",
                    "feat": {"sp": c["sp"], "ctx": c["ctx"], "kind": c["kind"], "out": o1}})
    return out


def gen_c12(rep, tier, seed):
    out = []
    for v in _tlc("MCBrace", "MCBrace_5", rep):
        if not v["balanced"]:
            continue
        t = chars(v["t"])
        line, b, a = c12.place(t, stable_hash(t))
        out.append({"text": line, "origin": "C12", "feat": {"kind": "brace", "t": t}})
    for v in _tlc("MCRangeGlob", "MCRangeGlob_q", rep):
        if v["kind"] == "range":
            step = "" if v["step"] == 99 else "..%d" % v["step"]
            t = "%s{%d..%d%s}%s" % (chars(v["pre"]), v["m"], v["n"], step, chars(v["post"]))
            line, b, a = c12.place(t, stable_hash(t))
            out.append({"text": line, "origin": "C12", "feat": {"kind": "range", "t": t}})
        else:
            pat = chars(v["pat"])
            pop = [chars(x) for x in v["pop"]]
            line, b, a = c12.place(pat, stable_hash(pat + "".join(sorted(pop))))
            out.append({"text": line, "files": {p: "" for p in pop}, "origin": "C12", "feat": {"kind": "glob", "t": pat}})
    for w in ["~", "~/a", "a~", "'~'", '"~/x"', "x/~"]:
        out.append({"text": "vpa L %s R" % w, "env": {"HOME": "/vhome/u"}, "origin": "C12", "feat": {"kind": "tilde", "t": w}})
    return out


GENERATORS = {"C01": gen_c01, "C03": gen_c03, "C04": gen_c04, "C10": gen_c10, "C11": gen_c11, "C12": gen_c12}
