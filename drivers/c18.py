"""C18 - history stores every submitted line verbatim, durably and injection-free.
Spec: spec/History.tla (the table as a sequence of rows; Add / Typed with the skip rules / List /
Search / Delete; texts, patterns and directory names are opaque values), spec/TraceHistory.tla.
(M) TLC checks append-only-except-delete, unique ids and order on every history of 5 operations;
(G) TLC simulation produces histories; (B) each history is executed against real shell processes
sharing one database (`history add` / list / search / delete through fresh `cicada -c` processes in
directories with special names, typed lines through a pty session) and after every operation an
independent SQLite client records the rows; TLC validates every recorded history against the model."""
import json
import os
import random
import sqlite3
import subprocess
import time
from concurrent.futures import ProcessPoolExecutor

from common import run_apalache, CICADA, HELPERS, Report, ToolError, check_action_coverage, cleanup_scratch, log, run_tlc, std_main
import tracecheck

TEXT = {"t1": "plain words", "t2": "it's", "t3": 'a"b', "t4": "100%", "t5": "a_b", "t6": "a\\b", "t7": "x; --", "t8": ")", "t9": "é 你", "ta": "007", "tb": "1.50", "tc": "2024"}
PAT = {"p1": "it's", "p2": "%", "p3": "_", "p4": "a\\b", "p5": "--", "p6": "plain", "p7": "a\\", "p8": "\\b", "p9": "0%", "p10": "\\"}
DIR = {"d1": "plain", "d2": "d'q", "d3": "d%p"}


def rows_of(hfile):
    try:
        con = sqlite3.connect("file:%s?mode=ro" % hfile, uri=True, timeout=5)
        # (a stored value that is not text any more - a column with numeric affinity turns `007` into 7 - is shown as it is stored)
        rows = [{"id": r[0], "text": r[1] if isinstance(r[1], str) else "<%s %r>" % (type(r[1]).__name__, r[1])}
                for r in con.execute("SELECT rowid, inp FROM cicada_history ORDER BY rowid")]
        con.close()
        return rows
    except sqlite3.Error as e:
        return [{"id": 0, "text": "<unreadable: %s>" % e}]


def run_history(args):
    hist, seed = args
    import ptydrv
    s = None
    try:
        s = ptydrv.Session([], extra_env={"HISTORY_DELETE_DUPS": "0"})
        hfile = os.path.join(s.d, "home", "hist.sqlite")
        cwd = os.path.join(s.d, "cwd")
        for d in DIR.values():
            os.makedirs(os.path.join(cwd, d), exist_ok=True)
        env = {"PATH": HELPERS + ":/usr/bin:/bin", "HOME": os.path.join(s.d, "home"), "HISTORY_FILE": hfile, "VH_DIR": os.path.join(s.d, "vh"),
               "VH_LOG": os.path.join(s.d, "vh", "log2.ndjson"), "LANG": "C.UTF-8", "HISTORY_DELETE_DUPS": "0"}

        def sh(line, where="plain", files=None):
            for k, v in (files or {}).items():
                with open(os.path.join(s.d, "vh", k), "w", encoding="utf-8") as f:
                    f.write(v)
            p = subprocess.run([CICADA, "-c", line], cwd=os.path.join(cwd, where), env=env, stdin=subprocess.DEVNULL,
                               stdout=subprocess.PIPE, stderr=subprocess.PIPE, timeout=30)
            return p.returncode, p.stdout.decode("utf-8", "replace"), p.stderr.decode("utf-8", "replace")
        recs = []
        idmap = {}          # model id -> real rowid
        nmodel = 0
        for o in hist:
            k = o["op"]
            before = rows_of(hfile)
            rec = {"op": k}
            if k == "add":
                text = TEXT[o["text"]]
                rc, out, err = sh('history add -t %.3f "$(vout 1)"' % time.time(), DIR[o["dir"]], {"out.1": text})
                rec.update(text=text, dir=DIR[o["dir"]], stderr=err[-300:])
                nmodel += 1
            elif k == "typed":
                text = o["text"].replace("U", "é")
                os.write(s.fd, text.encode("utf-8") + b"\r")
                ok, _ = s.settle(10)
                if not ok:
                    raise ptydrv.Unsettled("typed line did not settle")
                rec.update(text=text, lead=text.startswith(" "))
                if o["recorded"]:
                    nmodel += 1
            elif k == "list":
                rc, out, err = sh("history -a -n -l 1000")
                rec.update(listed=[ln for ln in out.split("\n") if ln != ""], stderr=err[-300:])
            elif k == "search":
                pat = PAT[o["pat"]]
                rc, out, err = sh('history -a -n -l 1000 "$(vout 2)"', "plain", {"out.2": pat})
                rec.update(pat=pat, listed=[ln for ln in out.split("\n") if ln != ""], ok=(rc == 0 and "error" not in err.lower()), stderr=err[-300:])
            elif k == "delete":
                real = [idmap[i] for i in o["ids"] if i in idmap]
                # every other delete also names a row that does not exist, first: exactly the rows named that exist must go
                if (len(recs) + seed) % 2 == 0:
                    real = [max([r["id"] for r in before] + [0]) + 1000] + real
                rc, out, err = sh("history delete " + " ".join(str(x) for x in real))
                rec.update(ids=real, stderr=err[-300:])
            after = rows_of(hfile)
            if k == "typed" and o.get("recorded") and len(after) == len(before):
                # the row of a typed line is written by the interactive shell around the time the prompt returns: on a loaded
                # machine the table is read again for a moment before the row counts as missing
                for _ in range(40):
                    time.sleep(0.1)
                    after = rows_of(hfile)
                    if len(after) != len(before):
                        break
            rec["rows"] = after
            if k in ("add", "typed") and len(after) == len(before) + 1:
                idmap[nmodel] = after[-1]["id"]
            if k == "search":
                rec["contains"] = [rec["pat"] in r["text"] for r in after]
            recs.append(rec)
        return (recs, None)
    except ptydrv.Unsettled as e:
        return ([], "unsettled: %s" % e)
    except Exception as e:  # noqa
        return ([], "driver error: %r" % e)
    finally:
        if s:
            s.close()
        cleanup_scratch()


def runner(rep, tier, seed, replay):
    if replay:
        with open(replay) as f:
            c = json.load(f)["case"]
        recs, err = run_history((c["hist"], seed))
        if err:
            raise ToolError(err)
        ok, ln, text, res = tracecheck.validate("TraceHistory", "TraceHistory", [{"op": "reset"}] + recs)
        rep.cov["evaluations"] = 1
        if not ok:
            rep.violation("replay", "history still rejected at record %s" % ln, c, {})
        return rep.finish(rule="replay of one recorded history")
    r = run_tlc("History", "History_mc", timeout=1800)
    if r.violation:
        raise ToolError("history reference violates its own theorem:\n" + r.violation[:1500])
    rep.add_tlc(r)
    # unbounded in the ids: the table core with an inductive invariant (ids positive, below nextid, strictly increasing along
    # the table), discharged by Apalache for every table of <= 4 rows with arbitrary integer ids (spec/apalache/HistoryInd.tla)
    ap = run_apalache("HistoryInd", [("init", ["--cinit=ConstInit", "--init=Init", "--inv=IndInv", "--length=0"]),
                                     ("step", ["--cinit=ConstInit", "--init=IndInit", "--inv=IndInv", "--length=1"]),
                                     ("unique", ["--cinit=ConstInit", "--init=IndInit", "--inv=UniqueIds", "--length=0"])])
    rep.cov["apalache_inductive_invariant"] = ap
    log("[C18] Apalache inductive invariant: %s" % ap)
    hists = []
    n = 30 if tier == "quick" else 600
    rs = run_tlc("History", "History_sim", simulate=max(3, n // 50), depth=20, seed=seed, workers=1, coverage=False,
                 on_replay=lambda v: hists.append(v) if len(hists) < n else None, keep_replays=False, timeout=1800)
    rep.add_tlc(rs)
    # every sequence of 4 typed lines over {a line, a line with a leading blank, another line} (the skip rules: repeat of the
    # line recorded last, also across an unrecorded line) - exhaustive, from the same module
    rt = run_tlc("History", "History_typed", timeout=600)
    rep.add_tlc(rt)
    typed = [h for h in rt.replays if sum(1 for o in h if o["op"] == "typed") >= (4 if tier == "quick" else 3)]
    hists += typed
    # every text stored once, then every pattern searched (also patterns that begin / end with a backslash or hold a `%` that
    # must match itself), then the listing: a search returns at least the rows that hold the pattern literally
    hists.append([{"op": "add", "text": t, "dir": "d1"} for t in sorted(TEXT)] + [{"op": "search", "pat": q} for q in sorted(PAT)] + [{"op": "list"}])
    with ProcessPoolExecutor(max_workers=8) as ex:
        runs = list(ex.map(run_history, [(h, seed) for h in hists]))
    bad = [e for (_, e) in runs if e]
    if len(bad) > max(2, n // 4):
        raise ToolError("too many history sessions failed at driver level: %s" % bad[:3])
    good = [(h, recs) for h, (recs, e) in zip(hists, runs) if not e]
    log("[C18] %d histories executed (%d driver problems)" % (len(good), len(bad)))
    nops = 0

    def describe(run, pos, text):
        h, recs = run
        i = max(0, min(len(recs) - 1, pos - 2))
        rec = recs[i]
        prev = recs[i - 1]["rows"] if i > 0 else []
        feat = {"op": rec["op"], "text": rec.get("text", ""), "dir": rec.get("dir", ""), "pat": rec.get("pat", ""),
                "squote_in_dir": "'" in rec.get("dir", ""), "squote_in_pat": "'" in rec.get("pat", "")}
        rep.violation("%s/%s" % (rec["op"], rec.get("dir") or rec.get("pat") or rec.get("text", "")[:12]),
                      "operation %s is not a step of the history model: rows before %s, rows after %s (stderr %s)"
                      % (json.dumps({k: v for k, v in rec.items() if k not in ("rows", "contains")}, ensure_ascii=False), [r["text"] for r in prev],
                         [r["text"] for r in rec["rows"]], rec.get("stderr", "")), {"hist": h, "records": recs, "at": i}, feat)
    acc, rej = 0, 0
    B = 10
    for i in range(0, len(good), B):
        a, rj = tracecheck.validate_runs("TraceHistory", "TraceHistory", good[i:i + B], lambda run: {"op": "reset"}, lambda run: run[1], rep, describe)
        acc += a
        rej += rj
    for h, recs in good:
        rep.cov["evaluations"] += 1
        nops += len(recs)
    if good:
        rep.sample({"operations": [{k: v for k, v in r.items() if k not in ("rows", "contains", "stderr")} for r in good[0][1]][:10]})
    rep.cov["distinct_nontrivial"] = len(good)
    rep.cov["traces_validated_against_impl"] = acc
    rep.cov["operations_observed"] = nops
    rep.cov["driver_problems"] = len(bad)
    rep.assumptions += ["HISTORY_DELETE_DUPS=0: the documented start-up de-duplication of an interactive shell is switched off",
                        "`history add` gets its text through a double-quoted command substitution, so the tokenizer is not in play",
                        "Python's sqlite3 module is the independent reader; search results are only required to contain every row that "
                        "holds the pattern literally (% and _ are wildcards)"]
    return rep.finish(rule="every sequence of 4 typed lines over {line, line with leading blank, other line} (exhaustive) and TLC-simulated histories of 14 operations (add from fresh processes in directories `plain`, `d'q`, `d%p`; typed "
                           "lines incl. leading blank and repeats; list; search with patterns it's % _ a\\b -- plain; delete of up to 2 "
                           "rows) over texts with ' \" % _ \\ ; -- ) and multi-byte characters; non-trivial = every history; distinct by seed")


def main():
    std_main("C18", runner)
