"""strace -ff output (one file per process) -> Kernel-action records for spec/TraceFds.tla.
Only successful descriptor-affecting calls are turned into records.  A system call that can
create a descriptor and is not understood raises ToolError (never guessed)."""
import glob
import os
import re

from common import ToolError

TRACE_SET = ("open,openat,openat2,creat,close,close_range,dup,dup2,dup3,fcntl,pipe,pipe2,socket,socketpair,accept,accept4,"
             "eventfd,eventfd2,epoll_create,epoll_create1,memfd_create,timerfd_create,signalfd,signalfd4,inotify_init,"
             "inotify_init1,pidfd_open,userfaultfd,clone,clone3,fork,vfork,execve,execveat,exit_group,exit")
FD_SOURCES = ("socket", "accept", "accept4", "eventfd", "eventfd2", "epoll_create", "epoll_create1", "memfd_create",
              "timerfd_create", "signalfd", "signalfd4", "inotify_init", "inotify_init1", "pidfd_open", "userfaultfd", "openat2")
CALL = re.compile(r"^(\w+)\((.*)\)\s+=\s+(-?\d+|\?)(.*)$")


def parse_proc(path):
    calls = []
    with open(path, errors="replace") as f:
        for raw in f:
            raw = raw.rstrip("\n")
            if raw.startswith("+++") or raw.startswith("---") or not raw:
                continue
            if raw.endswith("<unfinished ...>") or "resumed>" in raw:
                # -ff files still split a call that a signal interrupts; re-join is unambiguous inside one file
                if raw.endswith("<unfinished ...>"):
                    calls.append(("__unfinished__", raw[:-len("<unfinished ...>")], None, ""))
                    continue
                m = re.match(r"<\.\.\. (\w+) resumed>(.*)$", raw)
                if m and calls and calls[-1][0] == "__unfinished__":
                    raw = calls.pop()[1] + m.group(2)
                else:
                    raise ToolError("strace: cannot re-join %r in %s" % (raw, path))
            m = CALL.match(raw)
            if not m:
                if raw.startswith("exit_group(") or raw.startswith("exit("):
                    calls.append(("exit_group", "", None, ""))
                    continue
                raise ToolError("strace: unparsed line %r in %s" % (raw, path))
            name, args, ret, tail = m.groups()
            calls.append((name, args, None if ret == "?" else int(ret), tail))
    return calls


def convert(prefix, marker_prog="vmk"):
    """returns (records, info).  pids are renumbered: 1 = the shell (root)."""
    files = glob.glob(prefix + ".*")
    procs = {}
    for p in files:
        try:
            pid = int(p.rsplit(".", 1)[1])
        except ValueError:
            continue
        procs[pid] = parse_proc(p)
    if not procs:
        raise ToolError("strace produced no output (ptrace not permitted?)")
    children = set()
    for pid, calls in procs.items():
        for (name, args, ret, tail) in calls:
            if name in ("clone", "clone3", "fork", "vfork") and ret and ret > 0:
                children.add(ret)
    roots = [p for p in procs if p not in children]
    if len(roots) != 1:
        raise ToolError("strace: expected one root process, got %s" % roots)
    num = {}

    def n(pid):
        if pid not in num:
            num[pid] = len(num) + 1
        return num[pid]
    recs = []
    info = {"execs": 0, "markers": 0, "procs": len(procs)}

    def first_exec_prog(pid):
        for (name, args, ret, tail) in procs.get(pid, []):
            if name == "execve" and ret == 0:
                m = re.match(r'"([^"]*)"', args)
                return os.path.basename(m.group(1)) if m else "?"
        return None

    def emit(pid, is_root):
        p = n(pid)
        seen_exec = False
        for (name, args, ret, tail) in procs.get(pid, []):
            if name == "__unfinished__":
                continue
            if name == "exit_group" or name == "exit":
                recs.append({"e": "exit", "p": p})
                return
            if ret is None or ret < 0:
                continue
            if seen_exec and not is_root:
                # the spawned program's own descriptor use is not the shell's business
                if name in ("clone", "clone3", "fork", "vfork"):
                    pass  # helpers do not fork
                continue
            if name in ("open", "openat", "creat"):
                recs.append({"e": "open", "p": p, "fd": ret, "ce": "O_CLOEXEC" in args})
            elif name in ("pipe", "pipe2"):
                m = re.search(r"\[(\d+), (\d+)\]", args)
                recs.append({"e": "pipe", "p": p, "r": int(m.group(1)), "w": int(m.group(2)), "ce": "O_CLOEXEC" in args})
            elif name == "close":
                recs.append({"e": "close", "p": p, "fd": int(args.split(",")[0].split("<")[0])})
            elif name == "close_range":
                a = [x.strip() for x in args.split(",")]
                last = int(a[1]) if a[1].isdigit() else 1 << 30
                if "CLOSE_RANGE_CLOEXEC" in args:
                    raise ToolError("strace: close_range(CLOEXEC) not modelled")
                recs.append({"e": "closerange", "p": p, "first": int(a[0]), "last": min(last, 1 << 30)})
            elif name in ("dup2", "dup3"):
                a = [x.strip() for x in args.split(",")]
                recs.append({"e": "dup", "p": p, "old": int(a[0]), "new": int(a[1]), "ce": "O_CLOEXEC" in args})
            elif name == "dup":
                recs.append({"e": "dup", "p": p, "old": int(args.strip()), "new": ret, "ce": False})
            elif name == "fcntl":
                a = [x.strip() for x in args.split(",")]
                if a[1] in ("F_DUPFD", "F_DUPFD_CLOEXEC"):
                    recs.append({"e": "dup", "p": p, "old": int(a[0]), "new": ret, "ce": a[1].endswith("CLOEXEC")})
                elif a[1] == "F_SETFD":
                    recs.append({"e": "setce", "p": p, "fd": int(a[0]), "ce": "FD_CLOEXEC" in a[2]})
            elif name in ("socketpair",):
                raise ToolError("strace: socketpair not modelled")
            elif name in FD_SOURCES:
                raise ToolError("strace: descriptor source %s not modelled" % name)
            elif name in ("clone", "clone3", "fork", "vfork"):
                if "CLONE_FILES" in args or "CLONE_THREAD" in args:
                    # a thread shares its creator's descriptor table and its calls have no order relative to the
                    # creator's in per-process trace files: never guessed
                    raise ToolError("strace: thread creation (%s) is not modelled" % args[:120])
                c = ret
                if is_root and first_exec_prog(c) == marker_prog:
                    recs.append({"e": "marker", "p": p})
                    info["markers"] += 1
                recs.append({"e": "fork", "p": p, "c": n(c)})
                emit(c, False)
            elif name in ("execve", "execveat"):
                if is_root and not seen_exec:
                    seen_exec = True      # strace starting the shell itself
                    continue
                m = re.match(r'"([^"]*)"', args)
                recs.append({"e": "exec", "p": p, "prog": os.path.basename(m.group(1)) if m else "?"})
                info["execs"] += 1
                seen_exec = True
    emit(roots[0], True)
    return recs, info
