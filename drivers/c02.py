"""C02 - pipelines deliver every byte, terminate, and report the last stage's status.
Spec: spec/Pipeline.tla (run_pipeline over the kernel model: every interleaving of shell steps,
child set-up and stage I/O; Delivery, Termination, NoForeignEnds, ...), spec/MCPipeScen.tla
(scenario generator with the reference outcome).  (M) TLC checks the model; (G) TLC enumerates
scenarios (stage kinds x payload x exit class x finishing order); (A) each scenario runs on the real
binary with the vst stage helper under a watchdog and is judged by bytes / checksum received by the
last stage, start counts, exit status and live processes at return; (B) a sample runs under strace
and is validated by TraceFds."""
import json
import os
import random

from common import Report, ToolError, check_action_coverage, log, run_cases, run_tlc, std_main
import c08
import tracecheck

BYTES = {"p0": 0, "small": 1000, "big": 200000}


def checksum(n):
    s = 0
    for i in range(n):
        s = (s * 1099511628211 + ((i * 31 + 7) % 251)) & 0xFFFFFFFFFFFFFFFF
    return str(s)


CK = {k: checksum(v) for k, v in BYTES.items()}


def render(sc):
    n = len(sc["kinds"])
    parts = []
    for i, k in enumerate(sc["kinds"], 1):
        last = i == n
        opts = []
        if k == "prod":
            opts = ["mode=prod", "n=%d" % BYTES[sc["payload"]]]
        elif k == "filt":
            opts = ["mode=filt"]
        elif k == "cons":
            opts = ["mode=cons"]
        elif k == "early":
            opts = ["mode=cons" if last else "mode=filt", "early=1"]
        elif k == "none":
            opts = ["mode=none"]
        elif k == "notfound":
            parts.append("nosuchcmd%d" % i)
            continue
        elif k == "builtin":
            parts.append("alias")
            continue
        if last:
            e = sc["exit"]
            if e.startswith("e"):
                opts.append("exit=%s" % e[1:])
            elif e.startswith("k"):
                opts.append("sig=%s" % e[1:])
        opts.append("linger=%d" % (sc["rank"][i - 1] * 40))
        parts.append("vst s%d %s" % (i, ",".join(opts)))
    return " | ".join(parts)


def judge(rep, sc, line, res):
    feat = {"n": len(sc["kinds"]), "kinds": sc["kinds"], "payload": sc["payload"], "exit": sc["exit"]}
    case = {"scenario": sc, "text": line, "status": res.get("status"), "stderr": res.get("stderr", "")[-400:],
            "log": res.get("log")}
    if res.get("timed_out"):
        return rep.violation("hang", "pipeline did not terminate: `%s`" % line, case, feat)
    if res.get("status") != sc["status"]:
        return rep.violation("status", "`%s`: exit status %s, the last stage ended with %s" % (line, res.get("status"), sc["status"]), case, feat)
    recs = [r for r in res.get("log", []) if r.get("h") == "st"]
    for i, must in enumerate(sc["starts"], 1):
        starts = [r for r in recs if r.get("id") == "s%d" % i and r.get("ev") == "start"]
        if must and len(starts) != 1:
            return rep.violation("start-count", "`%s`: stage %d started %d times" % (line, i, len(starts)), case, feat)
    if sc["exact"]:
        n = len(sc["kinds"])
        ends = [r for r in recs if r.get("id") == "s%d" % n and r.get("ev") == "end"]
        if len(ends) != 1 or ends[0].get("nread") != BYTES[sc["payload"]] or ends[0].get("sum") != CK[sc["payload"]]:
            return rep.violation("delivery", "`%s`: last stage received %s, expected %d bytes (checksum %s)"
                                 % (line, ends, BYTES[sc["payload"]], CK[sc["payload"]]), case, feat)
    if res.get("alive_at_exit"):
        return rep.violation("resumed-early", "`%s`: the shell returned while %d processes of the pipeline were still alive"
                             % (line, res["alive_at_exit"]), case, feat)
    return False


# a stage that is stopped and continued from outside while the pipeline runs has not terminated: the shell resumes only
# after it has really ended, with its status (controller stage: stop the last / the first stage, wait until it is stopped,
# continue it, exit; the other stage goes on for a while, leaves a marker and exits 7 / 0).
# Each scenario runs as the machine schedules it and with the shell held for 300 ms right after it has read the stop report
# (schedule point fgwait_after_stop): by then the stage has been continued and the controller has exited, so the exits of the
# other stages and the Continued report are pending together and the kernel hands the exits out first -- the order in which
# the pinned code took the stale stop report for the end of the job (fixed in /repo, see known_findings.json).
SC_CTL = ("while [ ! -s w.pid ]; do :; done; p=$(cat w.pid); kill -STOP $p; "
          "while ! grep -q '^State:.T' /proc/$p/status; do :; done; kill -CONT $p; "
          "while grep -q '^State:.T' /proc/$p/status; do :; done")
SC_WRK = "echo $$ > w.pid; sleep 1; vmk W 0; exit %d"
SC_LINES = [("sh ctl.sh | sh wrk.sh ; vmk 9 0 $?", 7, "7"), ("sh wrk.sh | sh ctl.sh ; vmk 9 0 $?", 5, "0"),
            ("sh ctl.sh | vst m mode=none | sh wrk.sh ; vmk 9 0 $?", 3, "3")]
SC_RUNS = (("c", ""), ("script", ""), ("c", "fgwait_after_stop=300"), ("script", "fgwait_after_stop=300"))


def stopcont(rep, only=None):
    for ent, delay in SC_RUNS:
        sc = [t for t in SC_LINES if only is None or (t[0], ent, delay) == only]
        cres = run_cases([{"entry": ent, "text": ln + ("\n" if ent == "script" else ""), "timeout": 40, "want_files": False,
                           "env": ({"CICADA_VERIF_DELAY": delay} if delay else {}),
                           "files": {"ctl.sh": SC_CTL + "\n", "wrk.sh": (SC_WRK % ex) + "\n"}} for ln, ex, _ in sc])
        for (ln, ex, want), res in zip(sc, cres):
            rep.cov["evaluations"] += 1
            feat = {"n": ln.count("|") + 1, "kinds": ["stopped-and-continued"], "payload": "none", "exit": ex, "entry": ent,
                    "held_after_stop": bool(delay)}
            case = {"scenario": {"stopcont": True, "entry": ent, "delay": delay}, "text": ln, "status": res.get("status"),
                    "stderr": res.get("stderr", "")[-300:]}
            how = ent + (", shell held after the stop report" if delay else "")
            ids = [r.get("id") for r in res.get("log", []) if r.get("h") == "mk" and r.get("id") in ("W", "9")]
            mk = [r for r in res.get("log", []) if r.get("h") == "mk" and r.get("id") == "9"]
            if res.get("timed_out"):
                rep.violation("hang/stopcont", "`%s` (%s) did not terminate" % (ln, how), case, feat)
            elif ids != ["W", "9"]:
                rep.violation("resumed-early/stopcont", "`%s` (%s): the shell went on before the stage that had been stopped and continued "
                              "ended (markers %s, status %s)" % (ln, how, ids, [m.get("argv") for m in mk]), case, feat)
            elif mk[0].get("argv") != [want]:
                rep.violation("status/stopcont", "`%s` (%s): status after the pipeline %s, expected %s" % (ln, how, mk[0].get("argv"), want), case, feat)


def runner(rep, tier, seed, replay):
    rnd = random.Random(seed)
    if replay:
        with open(replay) as f:
            c = json.load(f)["case"]
        if c.get("scenario", {}).get("stopcont"):
            stopcont(rep, only=(c["text"], c["scenario"]["entry"], c["scenario"].get("delay", "")))
            return rep.finish(rule="replay of one recorded stop / continue scenario")
        res = run_cases([{"entry": "c", "text": c["text"], "timeout": 60, "count_alive_at_exit": True}])[0]
        judge(rep, c["scenario"], c["text"], res)
        rep.cov["evaluations"] = 1
        return rep.finish(rule="replay of one recorded scenario")
    for cfg in (["MCPipeline_3", "MCPipeline_3e", "MCPipeline_cap", "MCPipeline_capE", "MCPipeline_capE2", "MCPipeline_here",
                 "MCPipeline_here1", "MCPipeline_hereE"] if tier == "quick"
                else ["MCPipeline_3", "MCPipeline_3e", "MCPipeline_4", "MCPipeline_4e", "MCPipeline_cap", "MCPipeline_capE", "MCPipeline_capE2",
                      "MCPipeline_here", "MCPipeline_here1", "MCPipeline_hereE", "MCPipeline_f3"]):
        r = run_tlc("MCPipeline", cfg, timeout=3000)
        if r.violation:
            raise ToolError("Pipeline model violates C02 at the design level (%s):\n%s" % (cfg, r.violation[:2500]))
        if "_f" not in cfg:      # in the fault configurations pipe() fails before anything is forked
            check_action_coverage(r, ["Fork", "PCloseW", "PCloseR", "CDupIn", "CDupOut", "CExec", "Wait"])
        rep.add_tlc(r)
    # negative control: with stdout read to EOF before stderr (core.rs as pinned) a captured command that fills the stderr
    # pipe deadlocks the shell - TLC must find the non-terminating behaviour
    rl = run_tlc("MCPipeline", "MCPipeline_capE_legacy", coverage=False)
    rep.add_tlc(rl)
    if not rl.violation or "Termination" not in rl.violation:
        raise ToolError("negative control failed: the sequential capture read terminates in the model")
    # negative control: a here-string whose reader exits without reading kills a shell that writes with SIGPIPE at its default
    # disposition (core.rs as pinned)
    rh = run_tlc("MCPipeline", "MCPipeline_hereE_legacy", coverage=False)
    rep.add_tlc(rh)
    if not rh.violation or "ShellAlive" not in rh.violation:
        raise ToolError("negative control failed: the here-string writer survives EPIPE with SIGPIPE at its default disposition")
    scen = []
    r = run_tlc("MCPipeScen", "MCPipeScen_q" if tier == "quick" else "MCPipeScen_t", on_replay=scen.append, keep_replays=False, timeout=1800)
    rep.add_tlc(r)
    total_enum = len(scen)
    small = [s for s in scen if len(s["kinds"]) <= (2 if tier == "quick" else 3)]
    rest = [s for s in scen if len(s["kinds"]) > (2 if tier == "quick" else 3)]
    pick = small + rnd.sample(rest, min(len(rest), 300 if tier == "quick" else 4000))
    sim = []
    rs = run_tlc("MCPipeScen", "MCPipeScen_sim", simulate=60 if tier == "quick" else 1500, depth=12, seed=seed, workers=1,
                 coverage=False, on_replay=sim.append, keep_replays=False, timeout=1800)
    rep.add_tlc(rs)
    big = [s for s in sim if len(s["kinds"]) >= 5]
    pick += big[:60 if tier == "quick" else 1500]
    log("[C02] %d scenarios enumerated by TLC, %d replayed (%d with 5-6 stages from simulation)" % (total_enum, len(pick), len(pick) - len(small) - min(len(rest), 300 if tier == "quick" else 4000)))
    cases = [{"entry": "c", "text": render(s), "timeout": 60, "count_alive_at_exit": True, "want_files": False} for s in pick]
    results = run_cases(cases)
    distinct = set()
    for s, c, res in zip(pick, cases, results):
        if "tool_error" in res:
            raise ToolError(res["tool_error"])
        rep.cov["evaluations"] += 1
        distinct.add(c["text"])
        judge(rep, s, c["text"], res)
        if rep.cov["evaluations"] % 499 == 1:
            rep.sample({"line": c["text"], "expected_status": s["status"], "exact_delivery": s["exact"]})
    # here-string scenarios (spec/Pipeline.tla: MkHere / HereWrite / CHere): reader consumes / exits without reading, text below
    # and above one pipe buffer, the stage alone and as the last stage of a pipeline; a marker command must run afterwards
    hs = []
    for size in (3, 100000):
        for reader in ("cons", "none"):
            for shape in ("only", "last"):
                text = "h" * size
                stage = "vst s1 mode=%s <<< %s" % (reader, text)
                line = (stage if shape == "only" else "vst s0 mode=prod,n=1000 | " + stage) + " ; vmk 9 0 $?"
                hs.append((size, reader, shape, line))
    hres = run_cases([{"entry": "c", "text": h[3], "timeout": 60, "want_files": False} for h in hs])
    for (size, reader, shape, line), res in zip(hs, hres):
        rep.cov["evaluations"] += 1
        feat = {"n": 1 if shape == "only" else 2, "kinds": ["here", reader], "payload": size, "exit": 0}
        case = {"scenario": {"here": True, "size": size, "reader": reader, "shape": shape}, "text": line[:300], "status": res.get("status"),
                "stderr": res.get("stderr", "")[-300:]}
        mk = [r for r in res.get("log", []) if r.get("h") == "mk" and r.get("id") == "9"]
        ends = [r for r in res.get("log", []) if r.get("h") == "st" and r.get("id") == "s1" and r.get("ev") == "end"]
        if res.get("timed_out"):
            rep.violation("hang/here", "here-string line did not terminate (%s reader, %d bytes, %s)" % (reader, size, shape), case, feat)
        elif res.get("status") is None or res["status"] < 0 or len(mk) != 1:
            rep.violation("shell-died/here", "after a here-string of %d bytes with a reader that %s the shell did not run the next command "
                          "(status %s)" % (size, "reads" if reader == "cons" else "exits without reading", res.get("status")), case, feat)
        elif mk[0].get("argv") != ["0"]:
            rep.violation("status/here", "status after the here-string command was %s" % mk[0].get("argv"), case, feat)
        elif reader == "cons" and (len(ends) != 1 or ends[0].get("nread") != size + 1):
            rep.violation("delivery/here", "the reader of a %d byte here-string received %s" % (size, ends), case, feat)
    # the writer must be stopped by SIGPIPE itself (the helper stages restore the default disposition on their own, so they cannot
    # see what the shell hands down): a system shell loop that ignores write errors in front of a reader that exits early
    sp = [("sh -c 'while :; do echo y; done' | head -n 1 ; vmk 9 0 $?", "0"),
          ("sh -c 'while :; do echo y; done' | sh -c 'read x; exit 4' ; vmk 9 0 $?", "4"),
          ("sh -c 'while :; do echo y; done' | sh -c 'while :; do echo z; done' | head -n 2 ; vmk 9 0 $?", "0")]
    for ent in ("c", "script"):
        sres = run_cases([{"entry": ent, "text": ln + ("\n" if ent == "script" else ""), "timeout": 30, "want_files": False} for ln, _ in sp])
        for (ln, want), res in zip(sp, sres):
            rep.cov["evaluations"] += 1
            feat = {"n": ln.count("|") + 1, "kinds": ["sigpipe-writer"], "payload": "endless", "exit": int(want), "entry": ent}
            case = {"scenario": {"sigpipe": True, "entry": ent}, "text": ln, "status": res.get("status"), "stderr": res.get("stderr", "")[-300:]}
            mk = [r for r in res.get("log", []) if r.get("h") == "mk" and r.get("id") == "9"]
            if res.get("timed_out"):
                rep.violation("hang/sigpipe", "`%s` (%s) did not terminate: the endless writer was not stopped when its reader exited" % (ln, ent), case, feat)
            elif len(mk) != 1 or mk[0].get("argv") != [want]:
                rep.violation("status/sigpipe", "`%s` (%s): status after the pipeline %s, expected %s" % (ln, ent, [m.get("argv") for m in mk], want), case, feat)
    # descriptor exhaustion while the pipeline is being started (the here-string pipe of a later stage cannot be made) with an
    # earlier stage that writes more than a pipe buffer: the pipeline fails, but it terminates - the writer sees a closed reader
    lim = [{"entry": "c", "text": "ulimit -n %d ; vst p mode=prod,n=300000 | vst f mode=filt | vio h r <<< hi ; ulimit -n 256 ; vmk 9 0" % n,
            "timeout": 25, "want_files": False} for n in range(4, 14)]
    for j, res in zip(lim, run_cases(lim)):
        rep.cov["evaluations"] += 1
        mk = [r for r in res.get("log", []) if r.get("h") == "mk" and r.get("id") == "9"]
        feat = {"n": 3, "kinds": ["late-pipe-failure"], "payload": "big", "exit": 0, "entry": "c"}
        if res.get("timed_out") or len(mk) != 1:
            rep.violation("hang/late-pipe-failure", "`%s` did not get past the pipeline (markers %d, stderr %s)" % (j["text"], len(mk), res.get("stderr", "")[-200:]),
                          {"scenario": {"latefail": True}, "text": j["text"], "status": res.get("status"), "stderr": res.get("stderr", "")[-300:]}, feat)
    # interactive: every stage of a foreground pipeline is killed at the same instant (Ctrl-C) - the status is the last stage's
    # (130), with the shell reaping by polling and with its SIGCHLD handler (CICADA_ENABLE_SIG_HANDLER=1)
    def ctrlc_status(handler):
        import ptydrv
        import time as _t
        try:
            ses = ptydrv.LineSession(env={"CICADA_ENABLE_SIG_HANDLER": "1"} if handler else None)
        except ptydrv.Unsettled as e:
            return {"unsettled": str(e)}
        try:
            os.write(ses.fd, b"vst a mode=none,linger=30000 | vst b mode=none,linger=30000 | vst c mode=none,linger=30000\r")
            t0 = _t.time()
            while _t.time() - t0 < 8 and sum(1 for r in ses.log() if r.get("h") == "st" and r.get("ev") == "start") < 3:
                ses.read_some(0.05)
            ses.read_some(0.2)
            os.write(ses.fd, b"\x03")
            ok, _ = ses.settle(8.0)
            ok2, _ = ses.send("vpa __st $?\r", timeout=8)
            st = [r["argv"][1] for r in ses.log() if r.get("h") == "pa" and r.get("argv") and r["argv"][0] == "__st" and len(r["argv"]) > 1]
            if not st:
                return {"unsettled": "no status probe"}
            return {"status": st[0]}
        finally:
            ses.close()
    from concurrent.futures import ThreadPoolExecutor as _TPE
    plans = [False, True] * (4 if tier == "quick" else 20)
    with _TPE(max_workers=4) as ex:
        outs = list(ex.map(ctrlc_status, plans))
    for handler, o in zip(plans, outs):
        if "unsettled" in o:
            continue
        rep.cov["evaluations"] += 1
        if o["status"] != "130":
            rep.violation("status/ctrl-c", "a three-stage foreground pipeline ended by Ctrl-C (%s): $? is %s, the last stage died of SIGINT (130)"
                          % ("SIGCHLD handler enabled" if handler else "polling", o["status"]),
                          {"scenario": {"ctrlc": True, "handler": handler}, "status": o["status"]},
                          {"n": 3, "kinds": ["ctrl-c"], "payload": "none", "exit": 130, "entry": "prompt", "handler": handler})
    stopcont(rep)
    # (B) strace sample validated against the kernel descriptor model
    sample = rnd.sample(pick, min(len(pick), 25 if tier == "quick" else 200))
    runs = [c08.run_traced("vmk 0 0\n%s\nvmk 1 0\n" % render(s), "c02") for s in sample]
    runs = [r for r in runs if not r.get("timeout")]
    acc = 0

    def describe(r, pos, text):
        rep.violation("fd-discipline", "descriptor invariant fails in pipeline session:\n%s\n%s" % (r["script"], text[:300]),
                      {"script": r["script"]}, {"kind": "fds"})
    for i in range(0, len(runs), 25):
        a, rej = tracecheck.validate_runs("TraceFds", "TraceFds", runs[i:i + 25], lambda r: {"e": "reset"}, lambda r: r["records"], rep, describe)
        acc += a
    rep.cov["distinct_nontrivial"] = len([t for t in distinct if "|" in t])
    rep.cov["traces_validated_against_impl"] = rep.cov["evaluations"] + acc
    rep.cov["strace_traces_accepted"] = acc
    rep.cov["scenarios_enumerated"] = total_enum
    rep.assumptions += ["the vst helper produces a deterministic byte stream and reports bytes read + checksum; finishing order is forced "
                        "with per-stage linger after closing the pipe ends",
                        "payload classes 0 B, 1000 B, 200000 B (> 64 KiB pipe buffer, so writers block)"]
    return rep.finish(rule="scenarios (stage kinds incl. builtin / not-found / early exit x payload x last-stage exit class x every "
                           "finishing-order permutation) enumerated by TLC from spec/MCPipeScen.tla for n<=3 (thorough 4), sampled above "
                           "the small bound, 5-6 stages by TLC simulation; non-trivial = at least two stages; distinct by line")


def main():
    std_main("C02", runner)
