"""C12 - brace, range, tilde and filename expansion yield exactly the specified words.
Spec: spec/WordExpand.tla (reference BraceExpand on character sequences, NumRange, Matches /
GlobNames), spec/MCBrace.tla (every string over {a b { } ,} up to the bound), spec/MCRangeGlob.tla
(ranges over negative / descending / stepped bounds; patterns x directory populations).
(M) TLC checks theorems of the reference; (G) every string / range / (pattern, population) is a
replay case with the reference words; (A) each is placed at varying argument positions next to
quoted arguments and run by the real binary in a prepared directory; oracle: the argv the helper
received.  Unbalanced brace strings are negatives (no crash / hang only).  Tilde cases are a fixed
table checked against $HOME."""
import json
import os
import random

import structure
from common import Report, ToolError, chars, check_action_coverage, log, run_cases, run_tlc, stable_hash, std_main


def place(word, k):
    """put the word at different positions next to quoted arguments; returns (line, before, after)"""
    shapes = [("vpa %s", [], []), ("vpa L %s 'q r' R", ["L"], ["q r", "R"]), ("vpa \"x y\" %s", ["x y"], []), ("vpa %s '*' \"{a,b}\" '~'", [], ["*", "{a,b}", "~"]),
              ("vpa %s {x,y}", [], ["x", "y"]), ("vpa {x,y}z %s R", ["xz", "yz"], ["R"])]      # a second brace word on the same line
    fmt, b, a = shapes[k % len(shapes)]
    return fmt % word, b, a


def judge_words(rep, kind, key, line, before, after, words, res, case, negative=False, alts=None):
    feat = {"kind": kind}
    feat.update(case.get("feat", {}))
    rec = {"kind": kind, "line": line, "case": case, "status": res.get("status"), "stderr": res.get("stderr", "")[-300:],
           "got": [r.get("argv") for r in res.get("log", []) if r.get("h") == "pa"]}
    if res.get("timed_out"):
        return rep.violation("hang/" + kind, "`%s` never finishes" % line, rec, feat)
    if res.get("status") not in (0,) and res.get("status") is not None and res["status"] < 0:
        return rep.violation("crash/" + kind, "`%s` killed the shell (status %s)" % (line, res["status"]), rec, feat)
    if negative:
        return False
    pa = rec["got"]
    if len(pa) != 1:
        return rep.violation("not-run/" + kind, "`%s`: helper ran %d times (stderr %s)" % (line, len(pa), rec["stderr"][-150:]), rec, feat)
    exps = [before + w + after for w in ([words] + (alts or []))]
    if pa[0] not in exps:
        return rep.violation("%s/%s" % (kind, key), "`%s`: argv %s, expected %s" % (line, pa[0], exps[0]), rec, feat)
    return False


def runner(rep, tier, seed, replay):
    rnd = random.Random(seed)
    if replay:
        with open(replay) as f:
            c = json.load(f)["case"]
        res = run_cases([{"entry": "c", "text": c["line"], "files": c["case"].get("files", {}), "timeout": 30}])[0]
        rep.cov["evaluations"] = 1
        if res.get("timed_out"):
            rep.violation("hang", "still hangs", c, {})
        return rep.finish(rule="replay of one recorded case (crash / hang only)")
    jobs, meta = [], []
    # ---- braces
    br = []
    r = run_tlc("MCBrace", "MCBrace_5" if tier == "quick" else "MCBrace_7", on_replay=br.append, keep_replays=False, timeout=3000)
    if r.violation:
        raise ToolError("brace reference violates its own theorem:\n" + r.violation[:1500])
    check_action_coverage(r, ["Add", "Finish"])
    rep.add_tlc(r)
    nbr = len(br)
    if tier == "thorough" and len(br) > 30000:
        bal = [v for v in br if v["balanced"] and "{" in v["t"]]
        other = [v for v in br if not (v["balanced"] and "{" in v["t"])]
        br = bal + rnd.sample(other, min(len(other), 12000))
    for v in br:
        t = chars(v["t"])
        words = [chars(w) for w in v["words"]]
        line, b, a = place(t, stable_hash(t))
        neg = not v["balanced"]
        jobs.append({"entry": "c", "text": line, "timeout": 6, "want_files": False})
        meta.append(("brace", "groups" if "{" in t else "plain", line, b, a, words, {"t": t, "feat": {"balanced": v["balanced"], "nested": t.count("{") > 1, "empty_alt": ",}" in t or "{," in t or ",," in t}}, neg, None))
    # ---- ranges and globs
    rg = []
    r2 = run_tlc("MCRangeGlob", "MCRangeGlob_q" if tier == "quick" else "MCRangeGlob_t", on_replay=rg.append, keep_replays=False, timeout=3000)
    if r2.violation:
        raise ToolError("range / glob reference violates its own theorem:\n" + r2.violation[:1500])
    rep.add_tlc(r2)
    if tier == "thorough" and len(rg) > 20000:
        rg = rnd.sample(rg, 20000)
    for v in rg:
        if v["kind"] == "range":
            step = "" if v["step"] == 99 else "..%d" % v["step"]
            t = "%s{%d..%d%s}%s" % (chars(v["pre"]), v["m"], v["n"], step, chars(v["post"]))
            words = [chars(v["pre"]) + str(x) + chars(v["post"]) for x in v["nums"]]
            line, b, a = place(t, stable_hash(t))
            jobs.append({"entry": "c", "text": line, "timeout": 6, "want_files": False})
            meta.append(("range", "stepped" if step else "plain", line, b, a, words, {"t": t, "feat": {"descending": v["m"] > v["n"], "step": v["step"], "negative": v["m"] < 0 or v["n"] < 0}}, False, None))
        elif v["kind"] == "bglob":
            pat = chars(v["pat"])
            pop = [chars(x) for x in v["pop"]]
            words = []
            for part in v["parts"]:
                mm = sorted(chars(x) for x in part["matches"])
                words += mm if mm else [chars(part["w"])]
            files = {p: "" for p in pop}
            line, b, a = place(pat, stable_hash(pat + "".join(sorted(pop))) % 3)        # (not next to another brace word)
            jobs.append({"entry": "c", "text": line, "files": files, "timeout": 6, "want_files": False})
            meta.append(("bglob", pat, line, b, a, words, {"t": pat, "files": files, "feat": {"pattern": pat, "brace_and_glob": True}}, False, None))
        else:
            pat = chars(v["pat"])
            pop = [chars(x) for x in v["pop"]]
            m = sorted(chars(x) for x in v["matches"])
            words = m if m else [pat]
            files = {p: "" for p in pop}
            line, b, a = place(pat, stable_hash(pat + "".join(sorted(pop))))
            # the quoted '*' etc. of shape 3 must stay literal even though files exist
            jobs.append({"entry": "c", "text": line, "files": files, "timeout": 6, "want_files": False})
            meta.append(("glob", pat, line, b, a, words, {"t": pat, "files": files, "feat": {"pattern": pat, "hidden_in_pop": any(os.path.basename(p).startswith(".") for p in pop), "blank_in_pop": any(" " in p for p in pop), "nomatch": not m}}, False, None))
    # ---- ranges whose bounds are next to the limits of the machine integers (the step past the bound must not overflow)
    big = 2147483647
    for t, words in (("{%d..%d}" % (big - 1, big), [str(big - 1), str(big)]), ("{1..%d..%d}" % (big, big), ["1"]),
                     ("{%d..%d}" % (-big, -big - 1), [str(-big), str(-big - 1)]), ("x{%d..%d..%d}" % (big, big - 1, big), ["x%d" % big]),
                     ("{%d..%d..3}y" % (big - 4, big), ["%dy" % (big - 4), "%dy" % (big - 1)])):
        line, b, a = place(t, stable_hash(t))
        jobs.append({"entry": "c", "text": line, "timeout": 6, "want_files": False})
        meta.append(("range", "limits", line, b, a, words, {"t": t, "feat": {"limits": True}}, False, None))
    # ---- quoted braces in the value of an assignment word (the tokenizer keeps such a word's quotes in its text): quoted text
    for k, (pre_cmd, val) in enumerate((("A='{a,b}'", "{a,b}"), ('A="x{1..3}y"', "x{1..3}y"), ("export A='{a,b}{c,d}'", "{a,b}{c,d}"), ("A='p{1..2}' B=\"{x,y}\"", "p{1..2}"))):
        line = '%s ; vpa Q%d "$A"' % (pre_cmd, k)
        jobs.append({"entry": "c", "text": line, "timeout": 6, "want_files": False})
        meta.append(("qassign", "quoted-assignment", line, ["Q%d" % k], [], [val], {"t": pre_cmd, "feat": {"quoted_assignment": True}}, False, None))
    # ---- the home directory is the CURRENT value of HOME
    for k, (pre_cmd, exp) in enumerate((("vmk T0 0 ~ ; export HOME=/vhome/o2", ["/vhome/o2", "/vhome/o2/x"]), ("export HOME=/vhome/o3", ["/vhome/o3", "/vhome/o3/x"]),
                                        ("vmk T0 0 ~ ; HOME=/vhome/o4", ["/vhome/o4", "/vhome/o4/x"]))):
        line = "%s ; vpa H%d ~ ~/x" % (pre_cmd, k)
        jobs.append({"entry": "c", "text": line, "timeout": 6, "want_files": False, "env": {"HOME": "/vhome/u"}})
        meta.append(("tildehome", "home-changed", line, ["H%d" % k], [], exp, {"t": pre_cmd, "feat": {"home_changed": True}}, False, None))
    # ---- a pattern whose directory part comes from a variable and holds characters that shape other expansions (, { } `): the
    # file system is asked with the real characters
    for k, dn in enumerate(("a,b", "c{d", "e}f", "g`h", "i,j{k}")):
        line = "vpa G%d $D/*" % k
        jobs.append({"entry": "c", "text": line, "timeout": 6, "want_files": False, "env": {"D": dn}, "files": {dn + "/f1": "", dn + "/f2": ""}})
        meta.append(("qassign", "glob-under-value", line, ["G%d" % k], [], [dn + "/f1", dn + "/f2"], {"t": dn, "feat": {"glob_under_value": True}}, False, None))
    # ---- tilde (fixed table; HOME is the scratch home)
    for w, kind in [("~", "home"), ("~/a", "home-slash"), ("a~", "literal"), ("'~'", "quoted"), ('"~/x"', "quoted"), ("x/~", "literal"), ("~a", "other-user")]:
        line = "vpa L %s R" % w
        jobs.append({"entry": "c", "text": line, "timeout": 6, "want_files": False, "env": {"HOME": "/vhome/u"}})
        exp = {"home": ["/vhome/u"], "home-slash": ["/vhome/u/a"], "literal": [w], "quoted": [w.strip("'\"")]}.get(kind)
        meta.append(("tilde", kind, line, ["L"], ["R"], exp or [w], {"t": w, "feat": {"tilde": kind}}, kind == "other-user", None))
        if kind in ("home", "home-slash", "literal", "quoted"):
            # the same word after quoted arguments and next to other expansion words (the relative order of the words is kept)
            for fmt, b, a in (("vpa 'q r' %s", ["q r"], []), ('vpa "x" `vpa` %s z', ["x", ""], ["z"]), ("vpa {a,b} 'q' %s ~", ["a", "b", "q"], ["/vhome/u"]),
                              ("vpa %s \"$HOME\" '~'", [], ["/vhome/u", "~"])):
                if "`" in fmt:
                    continue        # (an empty substitution result may vanish: not the subject here)
                line2 = fmt % w
                jobs.append({"entry": "c", "text": line2, "timeout": 6, "want_files": False, "env": {"HOME": "/vhome/u"}})
                meta.append(("tilde", kind + "+ctx", line2, b, a, exp or [w], {"t": w, "feat": {"tilde": kind, "ctx": True}}, False, None))
    # ---- pairs: two expansion words of different kinds in one command (the words of the line keep their relative order; an
    # expansion of one word must not disturb its neighbour) - the second word never is a glob, so one population suffices
    single = [m for m in meta if not m[7] and m[0] in ("brace", "range", "glob", "bglob") and (m[0] != "brace" or "{" in m[6]["t"])]
    nonglob = [m for m in single if m[0] not in ("glob", "bglob")]
    npairs = 400 if tier == "quick" else 6000
    for _ in range(min(npairs, len(single))):
        m1, m2 = rnd.choice(single), rnd.choice(nonglob)
        t1, t2 = m1[6]["t"], m2[6]["t"]
        line = "vpa %s 'q q' %s" % (t1, t2)
        files = m1[6].get("files", {})
        jobs.append({"entry": "c", "text": line, "files": files, "timeout": 6, "want_files": False})
        meta.append(("pair", m1[0] + "+" + m2[0], line, [], [], m1[5] + ["q q"] + m2[5], {"t": t1 + " " + t2, "files": files, "feat": {"pair": True}}, False, None))
    log("[C12] %d cases (%d brace strings of %d enumerated, %d ranges/globs, 7 tilde, pairs)" % (len(jobs), len(br), nbr, len(rg)))
    # ---- the same words as the word list of a script `for` loop: every produced word is one item, in order - also a word that
    # contains a blank (from a matched file name or from a variable in front of the group / range)
    fsel = rnd.sample(single, min(len(single), 250 if tier == "quick" else 3000))
    fjobs, fmeta = [], []
    for m in fsel:
        t = m[6]["t"]
        fjobs.append({"entry": "script", "text": "for f in %s\n    vpa IT \"$f\"\ndone\n" % t, "files": m[6].get("files", {}), "timeout": 8, "want_files": False})
        fmeta.append((t, m[5]))
    for t, words in (("$D/i{1..3}.p", ["my dir/i1.p", "my dir/i2.p", "my dir/i3.p"]), ("$D/{a,b}", ["my dir/a", "my dir/b"]),
                     ("x{2..1}$D", ["x2my dir", "x1my dir"])):
        fjobs.append({"entry": "script", "text": "for f in %s\n    vpa IT \"$f\"\ndone\n" % t, "env": {"D": "my dir"}, "timeout": 8, "want_files": False})
        fmeta.append((t, words))
    fres = run_cases(fjobs)
    for (t, words), res in zip(fmeta, fres):
        rep.cov["evaluations"] += 1
        items = [r.get("argv") for r in res.get("log", []) if r.get("h") == "pa"]
        # (an empty word of an unquoted list may be kept or dropped: the statement does not say)
        if res.get("timed_out") or items not in ([["IT", w] for w in words], [["IT", w] for w in words if w != ""]):
            rep.violation("for-list", "`for f in %s`: items %s, expected %s" % (t, [i[1:] for i in items], words),
                          {"kind": "for", "line": "for f in " + t, "case": {"t": t}, "got": items}, {"kind": "for", "t": t})
    # ---- the same lines as the head of `if` / `else if` / `while` (separate code path: run_exp_test_br)
    structure.check_heads(rep, [j for j, m in zip(jobs, meta) if not m[7]], rnd, 120 if tier == "quick" else 1500, "C12")
    results = run_cases(jobs)
    distinct = set()
    for (kind, key, line, b, a, words, case, neg, alts), j, res in zip(meta, jobs, results):
        if "tool_error" in res:
            raise ToolError(res["tool_error"])
        rep.cov["evaluations"] += 1
        if not neg and (kind != "brace" or "{" in case["t"]):
            distinct.add(line + json.dumps(case.get("files", {}), sort_keys=True))
        judge_words(rep, kind, key, line, b, a, words, res, case, neg, alts)
        if rep.cov["evaluations"] % 911 == 1:
            rep.sample({"line": line, "files": sorted(case.get("files", {})), "expected_words": words})
    rep.cov["distinct_nontrivial"] = len(distinct)
    rep.cov["traces_validated_against_impl"] = rep.cov["evaluations"]
    rep.cov["exhaustive"] = tier == "quick"
    rep.assumptions += ["strings with unbalanced braces or groups without a comma are negatives: only crash / hang freedom is checked",
                        "glob results are compared in byte order (sorted)", "~user is not covered by the statement (crash freedom only)"]
    return rep.finish(rule="every string over {a, b, {, }, ,} up to length %d with its reference expansion (spec/MCBrace.tla); ranges over "
                           "bounds %s with steps {none, 0, 1, 2, 5} and surrounding text; patterns {*, a*, *b, d/*, .*, *a*, x*, d/.*, */x} "
                           "against every population of <= %d names from {a, ab, b, .h, 'a b', d/x, d/.y} (spec/MCRangeGlob.tla); each placed "
                           "at varying positions next to quoted arguments; a fixed tilde table; non-trivial = contains a group / range / "
                           "pattern; distinct by (line, population)" % ((5, "-2..3", 3) if tier == "quick" else (7, "-4..5", 5)))


def main():
    std_main("C12", runner)
