"""Structural contexts of the script grammar (parsers/grammar.pest): a command line is executed by separate code when it is the
head of `if` / `else if` / `while` (scripting.rs::run_exp_test_br) and when it is a plain CMD line (run_exp).  The properties
about what a command line means (quoting, lists, redirections, expansions) quantify over command lines, wherever the grammar
accepts one; this module replays lines a driver has already judged against its model as the head of the three constructs and
requires the same observable effect as the plain line in the same script entry (differential: the plain run is the one the
model judged).  Markers whose id starts with Z belong to the scaffolding and are ignored; the script's exit status is not
compared (it is the body's when the head succeeds).

    if LINE              if vmk Z7 3            while LINE
        vmk Z8 0             vmk Z6 0               vmk Z8 0
    fi                   else if LINE               break
                             vmk Z8 0           done
                         fi

The body (marker Z8) must run exactly when the plain line ends with status 0 - the status of a list being that of its last
executed command."""
import json
import re

from common import ToolError, run_cases

TEMPL = {
    "plain": "%s\n",
    "if-head": "if %s\n    vmk Z8 0\nfi\n",
    "elseif-head": "if vmk Z7 3\n    vmk Z6 0\nelse if %s\n    vmk Z8 0\nfi\n",
    "while-head": "while %s\n    vmk Z8 0\n    break\ndone\n",
}
_KEEP = ("h", "argv", "id", "tag", "stdin", "st", "k", "env", "ev", "nread", "nwritten", "sum")
_SRE = re.compile(r"/(?:dev/shm|[^ ]*/\.work)/vf-\d+/c\d+")
_KW = ("if", "for", "while", "else", "fi", "done", "function", "break", "continue", "exit", "exec", "set", "source", "alias", "unalias")


def usable(text):
    t = text.strip()
    if not t or "\n" in t or t.startswith("#") or t.endswith("\\"):
        return False
    if re.search(r"\$\{?[0-9@]", t):        # the script path's positional-parameter pass (C15) is not the subject here
        return False
    first = t.split()[0]
    if first in _KW or first.endswith("()") or t.rstrip().endswith("{"):
        return False
    if re.search(r";\s*(then|do)\s*$", t):
        return False
    return True


def observe(res):
    recs = []
    for r in res.get("log", []):
        if str(r.get("id", "")).startswith("Z"):
            continue
        o = {k: r.get(k) for k in _KEEP if k in r}
        ppid = r.get("ppid")
        if isinstance(o.get("argv"), list):
            o["argv"] = [_SRE.sub("<S>", a) if isinstance(a, str) else a for a in o["argv"]]
            if ppid:
                o["argv"] = [a.replace(str(ppid), "<PID>") if isinstance(a, str) else a for a in o["argv"]]
        recs.append(json.dumps(o, sort_keys=True))
    files = {k: (_SRE.sub("<S>", v) if isinstance(v, str) else v) for k, v in res.get("files", {}).items()}
    return {"timed_out": bool(res.get("timed_out")), "recs": sorted(recs), "files": files,
            "stdout": "".join(sorted(_SRE.sub("<S>", res.get("stdout", "")))),
            "stderr": "".join(sorted(_SRE.sub("<S>", res.get("stderr", ""))))}


def check_heads(rep, jobs, rnd, n, tag):
    """jobs: process-level cases ({"entry": "c", "text": line, files/env/vhfiles...}) that the caller judges against its model"""
    sel = [j for j in jobs if j.get("entry") == "c" and usable(j["text"])]
    seen = set()
    uniq = []
    for j in sel:
        k = (j["text"], json.dumps(j.get("files", {}), sort_keys=True), json.dumps(j.get("env", {}), sort_keys=True))
        if k not in seen:
            seen.add(k)
            uniq.append(j)
    sel = rnd.sample(uniq, min(n, len(uniq)))
    names = list(TEMPL)
    batch = []
    for j in sel:
        for v in names:
            jj = {k: val for k, val in j.items() if k in ("files", "env", "vhfiles", "dirs", "stdin", "snapshot_log_at_exit", "linger")}
            jj.update(entry="script", text=TEMPL[v] % j["text"].strip(), timeout=max(20, j.get("timeout", 0)))
            batch.append(jj)
    results = run_cases(batch)
    bad = 0
    for i, j in enumerate(sel):
        rs = results[i * len(names):(i + 1) * len(names)]
        for r in rs:
            if "tool_error" in r:
                raise ToolError(r["tool_error"])
        base = observe(rs[0])
        for v, r in zip(names[1:], rs[1:]):
            if v == "elseif-head" and re.search(r"\$\{?\?", j["text"]):
                continue        # the failed first condition of the scaffolding changes what `$?` is when the line starts
            rep.cov["evaluations"] += 1
            o = observe(r)
            diff = [k for k in ("timed_out", "recs", "files", "stdout", "stderr") if o[k] != base[k]]
            if not diff and not j["text"].rstrip().endswith("&") and rs[0].get("status") is not None and not base["timed_out"]:
                body = sum(1 for x in r.get("log", []) if x.get("id") == "Z8")
                if body != (1 if rs[0]["status"] == 0 else 0):
                    diff = ["branch"]
                    base["branch"] = "plain line ends with status %s" % rs[0]["status"]
                    o["branch"] = "body ran %d times" % body
            if diff:
                bad += 1
                rep.violation("head/%s/%s" % (v, diff[0]),
                              "`%s` means something else as the %s of a script than as a plain script line (%s differ): plain %s / head %s"
                              % (j["text"], v, ", ".join(diff), {k: base[k] for k in diff[:1]}, {k: o[k] for k in diff[:1]}),
                              {"kind": "head", "variant": v, "line": j["text"], "files": j.get("files", {}), "env": j.get("env", {}),
                               "script": TEMPL[v] % j["text"].strip(), "diff": diff},
                              {"kind": "head", "variant": v, "diff": diff[0], "tag": tag})
    rep.cov["head_contexts"] = rep.cov.get("head_contexts", 0) + len(sel) * (len(names) - 1)
    return bad
