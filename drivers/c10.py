"""C10 - parameter expansion substitutes current values, once, and always terminates.
Spec: spec/Expand.tla (reference single-pass expansion ParamRef; the code's loop as Round/Continue in
two modes: "rescan" = the pinned loop, "once" = the repaired design), spec/MCExpand.tla (writer of
words from segments x environments).  (M) TLC checks that the loop ends with exactly the reference
result and terminates; (G) every (word, environment) is a replay case; (A) each case is run by the
real binary unquoted, double-quoted and single-quoted with the vpa helper under a watchdog; oracle:
the argv the helper received."""
import json
import random

import structure
from common import Report, ToolError, chars, check_action_coverage, log, run_cases, run_tlc, std_main

NAMES = ["AB", "A", "B"]


def refs_in(text):
    out = set()
    for n in NAMES:
        if "$" + n in text or "${" + n in text:
            out.add(n)
    if "$A" in text or "${A" in text:
        out.add("A")
    return out


def to_case(v):
    word = chars(v["word"], {})
    env = {"A": chars(v["va"], {}), "B": chars(v["vb"], {}), "AB": "ab"}
    need = refs_in(word)
    for _ in range(3):
        for n in list(need):
            need |= refs_in(env[n])
    exp = chars(v["expected"], {})
    return {"word": word, "env": {n: env[n] for n in sorted(need)}, "expected": exp,
            "feat": {"self_ref": any(("$" + n in env[n] or "${" + n in env[n]) for n in need),
                     "value_has_dollar": any("$" in env[n] for n in need), "nrefs": word.count("$")}}


def forms(c):
    w = c["word"]
    return [("unquoted", "vmk 0 3 ; vpa %s" % w), ("dq", 'vmk 0 3 ; vpa "%s"' % w), ("sq", "vmk 0 3 ; vpa '%s'" % w)]


def restated(c):
    """the same environment reached by a history instead of being inherited: every name first gets a stale shell-local value and
    is then exported with its current value - the expansion must see the current one"""
    pre = " ; ".join("%s=stale ; export %s='%s'" % (n, n, v) for n, v in sorted(c["env"].items()))
    return "%s ; vmk 0 3 ; vpa \"%s\"" % (pre, c["word"])


def expected_args(c, form, ppid):
    if form == "sq":
        return [[c["word"]]]
    e = c["expected"].replace("S", "3").replace("P", str(ppid))
    if form == "dq":
        return [[e]]
    alts = [[e] if e != "" else []]
    if " " in e:
        alts.append(e.split())
    if e == "":
        alts.append([""])
    return alts


def runner(rep, tier, seed, replay):
    rnd = random.Random(seed)
    if replay:
        with open(replay) as f:
            c = json.load(f)["case"]
        res = run_cases([{"entry": "c", "text": c["text"], "env": c["env"], "timeout": 30}])[0]
        rep.cov["evaluations"] = 1
        judge(rep, c["case"], c["form"], c["text"], res)
        return rep.finish(rule="replay of one recorded case")
    r0 = run_tlc("MCExpand", "MCExpand_rescan_plain", keep_replays=False, on_replay=lambda v: None)
    if r0.violation:
        raise ToolError("model of the pinned loop disagrees with the reference on plain values:\n" + r0.violation[:1500])
    rep.add_tlc(r0)
    raw = []
    r = run_tlc("MCExpand", "MCExpand_q" if tier == "quick" else "MCExpand_t", on_replay=raw.append, keep_replays=False, timeout=3000)
    if r.violation:
        raise ToolError("the repaired expansion loop violates C10 at the design level:\n" + r.violation[:2500])
    check_action_coverage(r, ["AddSeg", "Start", "Step"])
    rep.add_tlc(r)
    seen = {}
    for v in raw:
        c = to_case(v)
        seen[(c["word"], json.dumps(c["env"], sort_keys=True))] = c
    cases = list(seen.values())
    if tier == "quick" and len(cases) > 1400:
        keep = [c for c in cases if c["feat"]["value_has_dollar"] or c["word"].count("$") <= 1]
        rest = [c for c in cases if not (c["feat"]["value_has_dollar"] or c["word"].count("$") <= 1)]
        cases = keep[:1000] + rnd.sample(rest, min(len(rest), 400))
    elif tier == "thorough" and len(cases) > 25000:
        cases = rnd.sample(cases, 25000)
    log("[C10] %d distinct (word, environment) cases of %d behaviours" % (len(cases), len(raw)))
    jobs, meta = [], []
    for c in cases:
        for form, line in forms(c):
            jobs.append({"entry": "c", "text": line, "env": c["env"], "timeout": 4, "want_files": False})
            meta.append((c, form, line))
    # current values (not stale ones): a sample of the cases with the environment built by assignments + export in the line itself
    hist = [c for c in cases if c["env"] and not any("'" in v for v in c["env"].values())]
    for c in rnd.sample(hist, min(len(hist), 300 if tier == "quick" else 3000)):
        jobs.append({"entry": "c", "text": restated(c), "env": {}, "timeout": 4, "want_files": False})
        meta.append((c, "dq", restated(c)))
    # pairs: two words of the model under the same environment in one command (each word keeps its own value)
    byenv = {}
    for c in cases:
        byenv.setdefault(json.dumps(c["env"], sort_keys=True), []).append(c)
    pairs = []
    groups = [g for g in byenv.values() if len(g) >= 2]
    for _ in range(200 if tier == "quick" else 3000):
        if not groups:
            break
        g = rnd.choice(groups)
        c1, c2 = rnd.sample(g, 2)
        pairs.append((c1, c2, 'vmk 0 3 ; vpa "%s" \'lit $A\' "%s"' % (c1["word"], c2["word"])))
    pres = run_cases([{"entry": "c", "text": ln, "env": c1["env"], "timeout": 6, "want_files": False} for c1, c2, ln in pairs])
    for (c1, c2, ln), res in zip(pairs, pres):
        rep.cov["evaluations"] += 1
        pa = [r for r in res.get("log", []) if r.get("h") == "pa"]
        ok = False
        if len(pa) == 1:
            ppid = pa[0].get("ppid")
            want = [c1["expected"].replace("S", "3").replace("P", str(ppid)), "lit $A", c2["expected"].replace("S", "3").replace("P", str(ppid))]
            ok = pa[0].get("argv") == want
        if res.get("timed_out") or not ok:
            rep.violation("pair/dq", "`%s` with %s: argv %s" % (ln, c1["env"], [r.get("argv") for r in pa]),
                          {"case": c1, "form": "dq", "text": ln, "env": c1["env"]}, dict(c1["feat"], form="pair"))
    # `$?` is the status of the command that ran LAST, also when that command stands earlier on the same line (a list is expanded
    # command by command) - and `${?}`, and with text around it; in -c lines and in scripts
    stl = []
    for st in (0, 3, 255):
        for lst, want in (("vmk Z1 %d ; vpa L $? R" % st, ["L", str(st), "R"]), ("vmk Z1 %d ; vpa \"${?}\"" % st, [str(st)]),
                          ("vmk Z1 %d ; vpa x$?y ${?}z" % st, ["x%dy" % st, "%dz" % st]),
                          ("vmk Z1 %d || vpa or$?" % st, ["or%d" % st] if st else None), ("vmk Z1 %d && vpa and$?" % st, ["and0"] if st == 0 else None),
                          ("vmk Z1 5 ; vmk Z2 %d ; vpa $? '$?' \"$?\"" % st, [str(st), "$?", str(st)]),
                          ("vmk Z1 %d | vmk Z2 7 ; vpa $?" % st, ["7"])):
            for ent in ("c", "script"):
                stl.append((lst, want, ent))
    sres = run_cases([{"entry": e, "text": ln + ("\n" if e == "script" else ""), "timeout": 8, "want_files": False} for ln, _, e in stl])
    for (ln, want, ent), res in zip(stl, sres):
        rep.cov["evaluations"] += 1
        pa = [r.get("argv") for r in res.get("log", []) if r.get("h") == "pa"]
        if res.get("timed_out") or pa != ([want] if want is not None else []):
            rep.violation("status-in-list", "`%s` (%s): argv %s, expected %s" % (ln, ent, pa, [want] if want is not None else []),
                          {"case": {"word": "$?", "env": {}, "expected": "", "feat": {}}, "form": "status", "text": ln, "env": {}},
                          {"form": "status-in-list", "self_ref": False, "value_has_dollar": False, "nrefs": 1})
    # ... and after `unset` a reference is empty, also when the name had both a shell-local and an exported value
    unset_cases = []
    for c in rnd.sample(hist, min(len(hist), 60 if tier == "quick" else 600)):
        names = sorted(c["env"])
        n0 = names[0]
        pre = " ; ".join("%s=stale ; export %s='%s'" % (n, n, v) for n, v in sorted(c["env"].items()))
        line = "%s ; unset %s ; vmk 0 3 ; vpa \"[$%s][${%s}]\"" % (pre, n0, n0, n0)
        unset_cases.append((n0, line))
    ures = run_cases([{"entry": "c", "text": ln, "env": {}, "timeout": 6, "want_files": False} for _, ln in unset_cases])
    for (n0, ln), res in zip(unset_cases, ures):
        rep.cov["evaluations"] += 1
        pa = [r.get("argv") for r in res.get("log", []) if r.get("h") == "pa"]
        if res.get("timed_out") or pa != [["[][]"]]:
            rep.violation("unset-stale", "`%s`: after unset the references gave %s, expected [['[][]']]" % (ln, pa),
                          {"case": {"word": "$" + n0, "env": {}, "expected": "", "feat": {}}, "form": "dq", "text": ln, "env": {}},
                          {"form": "unset", "self_ref": False, "value_has_dollar": False, "nrefs": 2})
    # the same lines as the head of `if` / `else if` / `while` (separate code path: scripting.rs::run_exp_test_br)
    structure.check_heads(rep, jobs, random.Random(seed), 150 if tier == "quick" else 1500, "C10")
    results = run_cases(jobs)
    # hangs are re-run once with a 10x budget before they are called violations
    slow = [i for i, res in enumerate(results) if res.get("timed_out")]
    if slow:
        log("[C10] %d cases timed out; re-running with a 10x budget" % len(slow))
        again = run_cases([dict(jobs[i], timeout=40) for i in slow[:40]])
        for i, res in zip(slow[:40], again):
            results[i] = res
    distinct = set()
    for (c, form, line), res in zip(meta, results):
        if "tool_error" in res:
            raise ToolError(res["tool_error"])
        rep.cov["evaluations"] += 1
        if c["word"].count("$"):
            distinct.add(line + json.dumps(c["env"], sort_keys=True))
        judge(rep, c, form, line, res)
        if rep.cov["evaluations"] % 811 == 1:
            rep.sample({"line": line, "env": c["env"], "expected": c["expected"]})
    # ---- "the variable's CURRENT value": histories of assignment / export / unset / read / prefixed commands (the C09 model,
    # spec/EnvDir.tla, TLC random walks) with every name expanded after every operation in the $NAME and ${NAME} spellings, with
    # text around the reference; only the expansions are judged here (what children see is C09's subject)
    import c09
    hists = []
    nh = 40 if tier == "quick" else 800
    rs = run_tlc("MCEnvDir", "MCEnvDir_sim", simulate=max(4, nh // 20), depth=40, seed=seed + 1, workers=1, coverage=False,
                 on_replay=lambda v: hists.append(v) if len(hists) < nh else None, keep_replays=False, timeout=1800)
    if rs.violation:
        raise ToolError("model violation during generation of variable histories:\n" + rs.violation[:1500])
    rep.add_tlc(rs)
    hjobs = []
    for h in hists:
        # c09.render emits one observation per operation; replace it by the four spellings
        text = ""
        k = 0
        for ln in c09.render(h).split("\n"):
            if ln.startswith("vpa OBS"):
                k += 1
                text += 'vpa CUR%d "$A" "${B}" "x${AB}y" "-$_x"\n' % k
            elif ln:
                text += ln + "\n"
        j = c09.job_of(h)
        j["text"] = text
        j["want_files"] = False
        hjobs.append(j)
    for h, j, res in zip(hists, hjobs, run_cases(hjobs)):
        rep.cov["evaluations"] += 1
        obs = {r["argv"][0]: r["argv"][1:] for r in res.get("log", []) if r.get("h") == "pa" and r.get("argv") and r["argv"][0].startswith("CUR")}
        for i, o in enumerate(h, 1):
            val = {n: ("" if o["exp"].get(n, c09.UNSET) == c09.UNSET else o["exp"][n]) for n in c09.NAMES}
            want = [val["A"], val["B"], "x" + val["AB"] + "y", "-" + val["_x"]]
            if obs.get("CUR%d" % i) != want:
                rep.violation("current-value/%s" % o["op"]["op"], "after operation %d (%s) of\n%s--- \"$A\" \"${B}\" \"x${AB}y\" \"-$_x\" expand to %s, the current values give %s (stderr %s)"
                              % (i, json.dumps(o["op"]), j["text"], obs.get("CUR%d" % i), want, res.get("stderr", "")[-200:]),
                              {"kind": "history", "hist": h, "text": j["text"], "step": i}, {"kind": "history", "op": o["op"]["op"]})
                break
    rep.cov["distinct_nontrivial"] = len(distinct)
    rep.cov["traces_validated_against_impl"] = rep.cov["evaluations"]
    rep.assumptions += ["variables are exported through the process environment of the shell", "$? is 3 (a marker helper exits 3 first), "
                        "$$ is compared with the helper's parent pid", "an unquoted value with blanks may arrive as one argument or split"]
    return rep.finish(rule="words of 1..%d segments from {x, ., $A, ${A}, $B, ${B}, $AB, ${AB}, $?, $$, ${?}, {x}, $} x values for A in "
                           "{v, empty, $B, $A, ${B}, a.b*, 'x y', $1, $?, {A}} x values for B in {w, $A, empty, ${A}}, enumerated by TLC "
                           "from spec/MCExpand.tla, each in unquoted / double-quoted / single-quoted form; non-trivial = the word "
                           "contains a reference; distinct by (line, relevant environment)" % (2 if tier == "quick" else 3))


def judge(rep, c, form, line, res):
    feat = dict(c["feat"], form=form)
    case = {"case": c, "form": form, "text": line, "env": c["env"], "status": res.get("status"),
            "got": [r.get("argv") for r in res.get("log", []) if r.get("h") == "pa"], "stderr": res.get("stderr", "")[-300:]}
    if res.get("timed_out"):
        return rep.violation("hang/" + form, "`%s` with %s never finishes" % (line, c["env"]), case, feat)
    pa = [r for r in res.get("log", []) if r.get("h") == "pa"]
    if len(pa) != 1:
        return rep.violation("not-run/" + form, "`%s` with %s: helper ran %d times (status %s, stderr %s)"
                             % (line, c["env"], len(pa), res.get("status"), res.get("stderr", "")[-200:]), case, feat)
    alts = expected_args(c, form, pa[0].get("ppid"))
    if pa[0].get("argv") not in alts:
        kind = "value-rescanned" if c["feat"]["value_has_dollar"] and form != "sq" else "wrong-expansion"
        return rep.violation("%s/%s" % (kind, form), "`%s` with %s: argv %s, expected %s" % (line, c["env"], pa[0].get("argv"), alts[0]), case, feat)
    return False


def main():
    std_main("C10", runner)
