"""C01 - quoted and escaped arguments reach the program verbatim.
Spec: spec/ShellLex.tla (reference reader), spec/MCLex.tla (writer + theorem).
(M) TLC checks, for every argument text up to the bound in every admissible style, position and
context, that the reference reader reads the line back as exactly the arguments; (G) each
behaviour is a replay case; (A) in-process: the real line_to_cmds + CommandLine::from_line must
plan exactly those argv; mismatches and a sample of matches are run through the real binary with
the vpa helper, and only process-level mismatches are violations."""
import json
import os
import random
import shutil

import structure
from common import (PLACEHOLDER, WORK, Report, ToolError, chars, check_action_coverage, inproc_map, log, run_cases,
                    run_tlc, std_main)

FILES = {"a": "", "aa": "", "x": "", "y": "", "z": "", "ab": "", ".h": "", "b": ""}
ENVV = {"a": "VALUE_a", "x": "VALUE_x", "aa": "VALUE_aa", "U": "VALUE_U", "a_": "V"}
SPECIAL = set("|&;<>()$`\\\"'*?[]{},~#!=%^ \t")


def to_case(v):
    line = chars(v["line"])
    segs = [{"op": s["op"], "stages": [[chars(w) for w in st] for st in s["stages"]]} for s in v["segs"]]
    if "args" in v:   # MCLexArgs: a whole argument list
        args = [chars(a["txt"]) for a in v["args"]]
        styles = sorted({a["style"] for a in v["args"]})
        txt = "".join(args)
        feat = {"style": "+".join(styles) if styles else "none", "pos": "list", "ctx": v["ctx"], "tight": v["tight"],
                "chars": sorted(set(txt)), "len": len(txt), "txt": " ".join(args), "nargs": len(args),
                "arg_is_amp": bool(args) and args[-1] == "&", "starts_tilde": any(a.startswith("~") for a in args),
                "bs_chars": sorted({ch for a in v["args"] if a["style"] == "bs" for ch in chars(a["txt"])}),
                "bs_heads": sorted({chars(a["txt"])[:1] for a in v["args"] if a["style"] == "bs"}),
                "bs_amp_last": bool(v["args"]) and v["args"][-1]["style"] == "bs" and args[-1] == "&"}
        return {"line": line, "segs": segs, "feat": feat}
    txt = chars(v["txt"])
    feat = {"style": v["style"], "pos": v["pos"], "ctx": v["ctx"], "tight": v["tight"],
            "chars": sorted(set(txt)), "len": len(txt), "txt": txt,
            "arg_is_amp": txt == "&" and v["pos"] == "last", "starts_tilde": txt.startswith("~"),
            "bs_chars": sorted(set(txt)) if v["style"] == "bs" else [],
            "bs_heads": [txt[:1]] if v["style"] == "bs" else [],
            "bs_amp_last": v["style"] == "bs" and txt == "&" and v["pos"] == "last"}
    return {"line": line, "segs": segs, "feat": feat}


def plan_mismatch(case, got):
    """compare the in-process plan with the expected structure; returns None or a kind"""
    if got is None:
        return "no-result"
    if got.get("hang"):
        return "hang"
    if "abort" in got:
        return "abort"
    if "panic" in got:
        return "panic"
    exp = case["segs"]
    ops = [s for s in got.get("segs", []) if s in (";", "&&", "||")]
    if ops != [s["op"] for s in exp if s["op"]]:
        return "list-structure"
    plans = got.get("plans", [])
    if len(plans) != len(exp):
        return "list-structure"
    for pl, ex in zip(plans, exp):
        if not pl.get("ok"):
            return "rejected"
        if pl.get("background"):
            return "background"
        if pl.get("envs"):
            return "env-drained"
        cmds = pl.get("commands", [])
        if len(cmds) != len(ex["stages"]):
            return "pipe-structure"
        for c, argv in zip(cmds, ex["stages"]):
            want_from = None
            if case.get("rin") and c is cmds[-1] and pl is plans[-1]:
                want_from = ["<", "a"] if case["rin"] == "lt" else ["<<<", "w"]
            if c.get("redirects_to") or c.get("redirect_from") != want_from:
                return "redirection"
            if [t[1] for t in c.get("tokens", [])] != argv:
                return "argv"
    return None


def proc_case(case):
    return {"entry": "c", "text": case["line"], "files": FILES, "env": dict(ENVV, VH_DELAY_IF_LAST_AMP="250"),
            "timeout": 15, "snapshot_log_at_exit": True,
            "linger": 1.0 if case["feat"]["arg_is_amp"] else None}


def expected_records(case):
    segs = case["segs"]
    recs = []
    st = 0
    for i, s in enumerate(segs):
        prev_op = segs[i - 1]["op"] if i > 0 else ";"
        run = prev_op in (";", "") or (prev_op == "&&" and st == 0) or (prev_op == "||" and st != 0)
        if run:
            recs.append([argv[1:] for argv in s["stages"]])
            st = 0
    return recs


def proc_mismatch(case, res):
    if res.get("timed_out"):
        return "hang"
    if res.get("status") != 0:
        return "status-%s" % res.get("status")
    groups = expected_records(case)
    got = [r.get("argv") for r in res.get("log", []) if r.get("h") == "pa"]
    flat = [a for g in groups for a in g]
    if len(got) != len(flat):
        return "program-count"
    # records of one pipeline may be logged in either order; pipelines are sequential
    k = 0
    for g in groups:
        part = got[k:k + len(g)]
        if sorted(map(json.dumps, part)) != sorted(map(json.dumps, g)):
            return "argv"
        k += len(g)
    if case["feat"]["arg_is_amp"]:
        at_exit = [r.get("argv") for r in res.get("log_at_exit", []) if r.get("h") == "pa"]
        if len(at_exit) != len(flat):
            return "not-waited-for"
    return None


def runner(rep, tier, seed, replay):
    rnd = random.Random(seed)
    if replay:
        with open(replay) as f:
            c = json.load(f)["case"]
        res = run_cases([proc_case(c)])[0]
        k = proc_mismatch(c, res)
        if k:
            rep.violation(k, "replayed case still fails: " + k, dict(c, got=res.get("log")), dict(c["feat"], kind=k))
        rep.cov["evaluations"] = 1
        return rep.finish(rule="replay of one recorded case")
    cfgs = ["MCLex_q"] if tier == "quick" else ["MCLex_t"]
    cases = []
    for cfg in cfgs:
        r = run_tlc("MCLex", cfg, on_replay=lambda v: cases.append(to_case(v)), keep_replays=False, timeout=3000,
                    xmx="16g")
        if r.violation:
            raise ToolError("reference reader violates its own theorem:\n" + r.violation[:3000])
        check_action_coverage(r, ["Add", "Finish"])
        rep.add_tlc(r)
    # longer / multi-argument lines: TLC simulation of the list writer
    nsim = 300 if tier == "quick" else 20000
    rs = run_tlc("MCLexArgs", "MCLexArgs", simulate=nsim, depth=60, seed=seed, workers=1, coverage=False,
                 on_replay=lambda v: cases.append(to_case(v)), keep_replays=False, timeout=1800)
    if rs.violation:
        raise ToolError("reference reader violates its theorem in simulation:\n" + rs.violation[:3000])
    rep.add_tlc(rs)
    # the same argument next to a real input redirection typed by the user (`< a`, `<<< w`): a quoted / escaped `<` must stay
    # an argument there too.  Derived from the end-of-line cases whose argument contains < > & or |, plus a sample
    der = []
    for c in cases:
        f = c["feat"]
        if f["ctx"] == "end" and f["pos"] != "list" and (set(f["chars"]) & set("<>&|") or rnd.random() < 0.02):
            for rin, tail in (("lt", " < a"), ("here", " <<< w")):
                der.append({"line": c["line"] + tail, "segs": c["segs"], "feat": dict(f, ctx="end+" + rin), "rin": rin})
    cases += der
    log("[C01] %d cases from TLC (%d with a real input redirection appended)" % (len(cases), len(der)))
    # (A) in-process plan for every behaviour
    wd = os.path.join(WORK, "c01-cwd-%d" % os.getpid())
    shutil.rmtree(wd, ignore_errors=True)
    os.makedirs(wd)
    for fn in FILES:
        open(os.path.join(wd, fn), "w").close()
    try:
        got = inproc_map("plan", [{"id": i, "line": c["line"]} for i, c in enumerate(cases)], cwd=wd,
                         env=dict(ENVV, HOME="/verif-home"), timeout=20)
    finally:
        shutil.rmtree(wd, ignore_errors=True)
    mism = []
    okidx = []
    for i, (c, g) in enumerate(zip(cases, got)):
        if g and "tool_error" in g:
            raise ToolError(g["tool_error"])
        k = plan_mismatch(c, g)
        if k:
            mism.append((i, k))
        else:
            okidx.append(i)
    log("[C01] in-process: %d planned as specified, %d differ" % (len(okidx), len(mism)))
    # process-level confirmation: every kind of mismatch (bounded per cluster) + a sample of matches
    by_cluster = {}
    for i, k in mism:
        f = cases[i]["feat"]
        key = (k, f["style"], tuple(sorted(set(f["chars"]) & SPECIAL)), f["pos"] == "last", f["ctx"] if f["pos"] == "last" else "-")
        by_cluster.setdefault(key, []).append(i)
    to_run = []
    for key, idxs in by_cluster.items():
        rnd.shuffle(idxs)
        to_run += idxs[:3]
    frac = 0.02 if tier == "quick" else 0.05
    nsample = min(len(okidx), max(200, int(len(okidx) * frac)))
    sample = rnd.sample(okidx, nsample) if okidx else []
    to_run += sample
    log("[C01] process level: %d mismatch clusters, %d cases (%d sampled matches)" % (len(by_cluster), len(to_run), len(sample)))
    # a quoted operator character followed by a word that happens to be an alias name: the operator is an argument, so the word
    # after it is an argument too (no new command starts there, nothing is alias-replaced)
    al = []
    for q in ("'|'", '"|"', "'||'", "';'", '"&&"', "'&'", "'|' '|'"):
        al.append(("alias zz='vpa EXPANDED' ; vpa x %s zz y" % q, ["x"] + [w.strip("'\"") for w in q.split()] + ["zz", "y"]))
    ares = run_cases([{"entry": e, "text": ln + ("\n" if e == "script" else ""), "timeout": 15, "want_files": False} for ln, _ in al for e in ("c", "script")])
    k = 0
    for ln, want in al:
        for ent in ("c", "script"):
            res = ares[k]
            k += 1
            rep.cov["evaluations"] += 1
            got = [r.get("argv") for r in res.get("log", []) if r.get("h") == "pa"]
            if res.get("timed_out") or got != [want]:
                rep.violation("alias-after-quoted-operator/%s" % ent, "`%s` (%s): programs %s, expected %s" % (ln, ent, got, [want]),
                              {"line": ln, "entry": ent, "got_log": got, "feat": {"style": "sq/dq", "chars": ["|"], "kind": "alias-after-quoted-operator"}},
                              {"style": "quoted", "kind": "alias-after-quoted-operator", "chars": ["|"], "pos": "middle", "ctx": "alias", "tight": False, "bs_chars": [], "txt": "|"})
    # the same lines as the head of `if` / `else if` / `while` (separate code path: scripting.rs::run_exp_test_br)
    structure.check_heads(rep, [proc_case(cases[i]) for i in sample], rnd, 150 if tier == "quick" else 1500, "C01")
    results = run_cases([proc_case(cases[i]) for i in to_run])
    drift = 0
    mism_kind = dict(mism)
    confirmed = 0
    for i, res in zip(to_run, results):
        c = cases[i]
        if "tool_error" in res:
            raise ToolError(res["tool_error"])
        k = proc_mismatch(c, res)
        if k:
            confirmed += 1
            feat = dict(c["feat"], kind=k, plan_kind=mism_kind.get(i, "none"))
            sp = sorted(set(c["feat"]["chars"]) & SPECIAL)
            key = "%s/%s/%s" % (k, c["feat"]["style"], "".join(sp))
            rep.violation(key, "`%s`: expected argv %s, process level: %s" % (c["line"], expected_records(c), k),
                          dict(c, got_log=[r.get("argv") for r in res.get("log", [])], status=res.get("status"),
                               stderr=res.get("stderr", "")[-300:]), feat)
        elif i in mism_kind:
            drift += 1
    # ---- the tokenizer itself: spec/Tokenizer.tla is parse_line transcribed statement by statement; every string over a
    # 14-symbol alphabet up to length 4 (thorough 5) must be tokenized by the real parse_line exactly as by the transcription
    # (conformance of the specification to the code: drift is reported, it is not by itself a violation), and TLC compares the
    # transcription with the reference reader (the classes where they differ are the tokenizer's recorded deviations)
    tcases = []
    rt = run_tlc("MCTokenizer", "MCTokenizer_4" if tier == "quick" else "MCTokenizer_5", on_replay=tcases.append, keep_replays=False,
                 timeout=3000, xmx="16g")
    if rt.violation:
        raise ToolError("transcription of parse_line is not total:\n" + rt.violation[:1500])
    rep.add_tlc(rt)
    tgot = inproc_map("tokens", [{"id": i, "line": chars(list(c["s"]))} for i, c in enumerate(tcases)], timeout=20)
    tdrift, tdis = [], {}
    for c, g in zip(tcases, tgot):
        if g is None or "panic" in g or g.get("hang") or "abort" in g:
            tdrift.append(c["s"])
            continue
        if g.get("arith"):
            continue
        want = [[t[0], chars(list(t[1]))] for t in c["tokens"]]
        if g.get("tokens") != want or bool(g.get("complete")) != bool(c["complete"]):
            tdrift.append(c["s"])
        if c["complete"] and not c["agrees"] and ">" not in c["s"]:      # a bare > is a redirection for the reader, a word for the tokenizer
            key = "".join(sorted(set(c["s"]) & set("'\"`\\$()|#=>")))
            tdis[key] = tdis.get(key, 0) + 1
    if tdrift:
        log("[C01] tokenizer transcription drift on %d strings, e.g. %r" % (len(tdrift), tdrift[:5]))
    rep.cov["tokenizer_strings"] = len(tcases)
    rep.cov["tokenizer_drift"] = len(tdrift)
    rep.cov["tokenizer_drift_examples"] = tdrift[:10]
    rep.cov["tokenizer_vs_reader_disagreements_by_characters"] = dict(sorted(tdis.items(), key=lambda kv: -kv[1])[:25])
    rep.cov["evaluations"] = len(cases)
    rep.cov["distinct_nontrivial"] = len({c["line"] for c in cases if set(c["feat"]["chars"]) & SPECIAL})
    rep.cov["traces_validated_against_impl"] = len(cases)
    rep.cov["inprocess_mismatches"] = len(mism)
    rep.cov["process_level_runs"] = len(to_run)
    rep.cov["confirmed_at_process_level"] = confirmed
    rep.cov["spec_drift"] = drift + len(tdrift)
    rep.cov["exhaustive"] = True
    for c in rnd.sample(cases, min(5, len(cases))):
        rep.sample({"line": c["line"], "expected": c["segs"]})
    rep.assumptions += ["in-process plan of a line equals what the binary executes (checked on the sampled matches)",
                        "mismatch clusters are confirmed at process level on up to 3 cases each",
                        "placeholders U,W,T stand for e-acute, a CJK character and TAB"]
    return rep.finish(rule="every argument text up to length %d over the 30-symbol alphabet (27 metacharacters incl. space and TAB, "
                           "a, two multi-byte characters) x admissible styles x 3 positions x 5 contexts x tight/spaced, enumerated by "
                           "TLC from spec/MCLex.tla, plus TLC-simulated argument lists (0..6 arguments up to length 8); "
                           "non-trivial = the argument contains a shell-special character; distinct by line"
                           % (2 if tier == "quick" else 3))


def main():
    std_main("C01", runner)
