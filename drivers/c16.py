"""C16 - a line means the same at the prompt, with -c, in a script, function or source.
Spec: spec/Entry.tla (the five entry points as pre-processing pipelines in front of the reference
reader; the positional-parameter pass in two models: "rerender" = the pinned tokenize / re-render
round trip, "splice" = the repaired in-place substitution), spec/MCEntry.tla (the C01 writer read
through every entry point), spec/MCEntryArgs.tla (positional references in every quote context next
to words whose escapes must survive, with the expected reading written down directly).
(M) TLC checks EquivOK / PassOK for the repaired pass and, as a negative control, that the pinned
pass violates them; (G) the lines of the C01/C03/C04/C10-C12 generators (genlines.py) and the
MCEntryArgs cases are the replay material; (A) in-process: the real expand_args result of every line
is tokenized by the real tokenizer and compared with the direct tokenization (candidates); process
level: each line runs through -c, a script file, a function body, a sourced file and (sample) typed at
a pseudo-terminal prompt; helper logs, output, files and status are compared pairwise with -c."""
import json
import os
import random
import re
import threading
from concurrent.futures import ThreadPoolExecutor

from common import (NCPU, Report, ToolError, check_action_coverage, inproc_map, list_files, log, run_cases, run_tlc, stable_hash,
                    std_main)
import genlines
import ptydrv

ENTRIES = ("c", "script", "function", "source", "script-ctx", "function-ctx")
# the -ctx entries place the line between other, indented lines (markers Z1 / Z2, ignored in the comparison): the way a line
# of a real script or function body is surrounded; the script's status is then that of the last marker and is not compared
CTX = ("script-ctx", "function-ctx")


def wrap(case, entry):
    c = {k: v for k, v in case.items() if k in ("files", "env", "vhfiles", "dirs")}
    c["vhfiles"] = dict(c.get("vhfiles", {}))
    c["timeout"] = 20
    line = case["text"]
    if entry == "c":
        c.update(entry="c", text=line)
    elif entry == "script":
        c.update(entry="script", text=line + "\n")
    elif entry == "function":
        c.update(entry="script", text="function vfentry() {\n" + line + "\n}\nvfentry\n")
    elif entry == "script-ctx":
        c.update(entry="script", text="vmk Z1 0\n" + line + "\n    vmk Z2 0\n")
    elif entry == "function-ctx":
        c.update(entry="script", text="function vfentry() {\n    vmk Z1 0\n    " + line + "\n    vmk Z2 0\n}\nvfentry\n")
    elif entry == "source":
        c["vhfiles"]["inc.sh"] = line + "\n"
        c.update(entry="script", text="source @SCRATCH@/vh/inc.sh\n")
    return c


_KEEP = ("h", "argv", "id", "tag", "stdin", "st", "k", "env", "ev", "nread", "nwritten", "sum")


def norm_rec(r, scratch_re):
    o = {k: r.get(k) for k in _KEEP if k in r}
    ppid = r.get("ppid")
    if isinstance(o.get("argv"), list):
        o["argv"] = [scratch_re.sub("<S>", a) if isinstance(a, str) else a for a in o["argv"]]
    if "cwd" in r:
        o["cwd"] = scratch_re.sub("<S>", r["cwd"])
    return o, ppid


def observe(res, pid_in_argv=False):
    """property-level observables of one run, normalised so that two entry points can be compared"""
    sre = re.compile(r"/(?:dev/shm|[^ ]*/\.work)/vf-\d+/c\d+")
    recs = []
    for r in res.get("log", []):
        if str(r.get("id", "")) in ("Z0", "Z1", "Z2"):
            continue        # scaffolding of the -ctx entries
        o, ppid = norm_rec(r, sre)
        if isinstance(o.get("argv"), list) and ppid:
            # the shell's own pid ($$) differs from run to run: an argument that is exactly / contains it is normalised
            o["argv"] = [a.replace(str(ppid), "<PID>") if isinstance(a, str) else a
                         for a in o["argv"]]
        recs.append(o)
    seq = [json.dumps(o, sort_keys=True) for o in recs if o.get("h") in ("mk", "cond")]
    files = {k: (sre.sub("<S>", v) if isinstance(v, str) else v) for k, v in res.get("files", {}).items()}

    def lines(s):
        # stages of one pipeline (and the shell itself) write concurrently and not line-atomically: a stream is compared as
        # the multiset of its characters, which no interleaving can change
        s = sre.sub("<S>", s)
        return "".join(sorted(s))
    return {"recs": sorted(json.dumps(o, sort_keys=True) for o in recs), "seq": seq, "files": files,
            "stdout": lines(res.get("stdout", "")), "stderr": lines(res.get("stderr", "")),
            "status": res.get("status"), "timed_out": bool(res.get("timed_out"))}


def diff_kind(a, b):
    for k in ("timed_out", "recs", "seq", "files", "stdout", "status", "stderr"):
        if a[k] != b[k]:
            return {"recs": "programs-or-argv", "seq": "order", "timed_out": "hang"}.get(k, k)
    return None


def feat_of(case, entry, kind):
    f = dict(case.get("feat", {}))
    f.update(origin=case.get("origin"), entry=entry, kind=kind, text=case["text"])
    t = case["text"]
    f["has_backslash"] = "\\" in t
    f["quote_then_op"] = bool(re.search(r"[\"'][;&|]", t))
    # the last word of the line, where a backslash-escaped blank does not end a word
    words, cur, i = [], "", 0
    while i < len(t):
        if t[i] == "\\" and i + 1 < len(t):
            cur += t[i:i + 2]
            i += 2
        elif t[i] in " \t":
            if cur:
                words.append(cur)
            cur = ""
            i += 1
        else:
            cur += t[i]
            i += 1
    if cur:
        words.append(cur)
    # parse_line tags a word that starts with an escaped `$` / `|` with the separator `\` and keeps that separator for the following
    # words as long as they start with a backslash escape too; a line whose LAST token carries it is reported incomplete
    tagged = False
    for w in words:
        if w.startswith("\\$") or w.startswith("\\|"):
            tagged = True
        elif not (tagged and w.startswith("\\")):
            tagged = False
    f["last_word_escaped_head"] = tagged
    return f


# ------------------------------------------------------------------ prompt entry (pty)

def run_at_prompt(case):
    """type the line at an interactive prompt; returns an observation comparable with observe() (no output streams)"""
    try:
        s = ptydrv.LineSession(files=case.get("files"), dirs=case.get("dirs"), env=case.get("env"), vhfiles=case.get("vhfiles"))
    except ptydrv.Unsettled as e:
        return {"unsettled": str(e)}
    try:
        # a line typed at the prompt is rarely the first of its session (history expansion looks at the previous one)
        ok, _ = s.send("vmk Z0 0\r", timeout=20)
        if not ok:
            return {"unsettled": "no quiescence after the first line", "alive": s.alive()}
        ok, _ = s.send(case["text"] + "\r", timeout=20)
        if not ok:
            return {"unsettled": "no quiescence after the line", "alive": s.alive()}
        if not s.at_prompt():
            return {"unsettled": "shell still waiting for a foreground job"}
        ok, _ = s.send("vpa __st $?\r", timeout=10)
        if not ok:
            return {"unsettled": "no quiescence after the status probe"}
        recs = s.log()
        st = None
        body = []
        for r in recs:
            if r.get("h") == "pa" and r.get("argv") and r["argv"][0] == "__st":
                st = r["argv"][1] if len(r["argv"]) > 1 else None
            else:
                body.append(r)
        res = {"log": body, "files": list_files(s.cwd), "stdout": "", "stderr": "", "status": int(st) if st and st.isdigit() else st}
        o = observe(res, case.get("pid_in_argv", False))
        o["probe_seen"] = st is not None
        return o
    finally:
        s.close()


def prompt_ok(line):
    """lines that can be typed at the prompt as one line: no control characters, no !!, no continuation backslash (an odd
    number of backslashes at the end; an escaped backslash at the end is fine)"""
    t = line.rstrip(" ")
    nbs = len(t) - len(t.rstrip("\\"))
    return all(ord(ch) >= 32 for ch in line) and "!!" not in line and nbs % 2 == 0


# ------------------------------------------------------------------ main

def runner(rep, tier, seed, replay):
    rnd = random.Random(seed)
    if replay:
        with open(replay) as f:
            c = json.load(f)["case"]
        if c.get("args_case"):
            judge_args(rep, [c["args_case"]])
        else:
            base = c["base"]
            e = c["entry"]
            if e == "prompt":
                a = observe(run_cases([wrap(base, "c")])[0], base.get("pid_in_argv", False))
                b = run_at_prompt(base)
                k = None if "unsettled" in b else diff_prompt(a, b)
            else:
                ra, rb = run_cases([wrap(base, "c"), wrap(base, e)])
                a, b = observe(ra, base.get("pid_in_argv", False)), observe(rb, base.get("pid_in_argv", False))
                if e in CTX:
                    b["status"] = a["status"]
                k = diff_kind(a, b)
            if k:
                rep.violation(k + "/" + e, "replayed case still differs", dict(c, now=b), feat_of(base, e, k))
        rep.cov["evaluations"] = 1
        return rep.finish(rule="replay of one recorded case")
    # ---- (M) the entry model
    r = run_tlc("MCEntry", "MCEntry_q" if tier == "quick" else "MCEntry_t", timeout=3000, xmx="16g")
    if r.violation:
        raise ToolError("the repaired pass violates C16 at the design level:\n" + r.violation[:2500])
    check_action_coverage(r, ["Add", "Finish"])
    rep.add_tlc(r)
    rl = run_tlc("MCEntry", "MCEntry_legacy", coverage=False)
    rep.add_tlc(rl)
    if not rl.violation:
        raise ToolError("negative control failed: the model of the pinned re-rendering pass satisfies EquivOK")
    argcases = []
    ra = run_tlc("MCEntryArgs", "MCEntryArgs", on_replay=argcases.append, keep_replays=False)
    if ra.violation:
        raise ToolError("the repaired pass violates PassOK at the design level:\n" + ra.violation[:2500])
    rep.add_tlc(ra)
    rla = run_tlc("MCEntryArgs", "MCEntryArgs_legacy", coverage=False)
    if not rla.violation:
        raise ToolError("negative control failed: the pinned pass satisfies PassOK")
    # ---- (G) the lines of the other properties' generators
    cases = []
    for origin, gen in genlines.GENERATORS.items():
        got = gen(rep, tier, seed)
        log("[C16] %s: %d lines" % (origin, len(got)))
        cases += got
    # lines whose end is where the script path's own pre-processing works (continuation folding, trimming): always part of the run
    for t in ("force=1 vpa a", "ifs=2 vpa b c", "whilex=3 vpa d", "done_=1 vpa e", "fi_x=1 vpa f ; vpa g", "elsex=1 vpa h",
              "vpa a\\ ", "vpa 'q' b\\ ", "vmk 5 0 x\\ \\ ",
              "vpa a\\ b wow!", "vpa \\!\\ x", "vpa 'q!' c\\ d", "vpa x! \"y z\" \\;",
              "vpa a\\\\", "vpa a b\\\\\\\\", "vpa 'q r' b\\\\", "vmk 5 0 x\\\\", "vpa a\\\\ ; vpa b\\\\", "vpa \"x y\" ;  vpa z\\\\"):
        cases.append({"text": t, "origin": "C16-edge", "feat": {"edge": "keyword-prefix" if "=" in t.split()[0] else "bang" if "!" in t else "escaped-blank-last" if t.endswith(" ") else "escaped-backslash-last"}})
    seen = set()
    uniq = []
    for c in cases:
        key = (c["text"], json.dumps(c.get("env", {}), sort_keys=True), json.dumps(c.get("files", {}), sort_keys=True),
               json.dumps(c.get("vhfiles", {}), sort_keys=True))
        if key not in seen:
            seen.add(key)
            uniq.append(c)
    cases = uniq
    log("[C16] %d distinct generated lines" % len(cases))
    # ---- (A) in-process: tokens of the re-rendered line vs tokens of the line
    got = inproc_map("rerender", [{"id": i, "line": c["text"]} for i, c in enumerate(cases)], timeout=20)
    cand, same, verbatim = [], [], 0
    for i, (c, g) in enumerate(zip(cases, got)):
        if g and "tool_error" in g:
            raise ToolError(g["tool_error"])
        if not g or g.get("hang") or "abort" in g or "panic" in g:
            cand.append((i, "crash"))
            continue
        if g.get("rendered") == c["text"]:
            verbatim += 1
        if g.get("direct") != g.get("via_script"):
            cand.append((i, "tokens"))
        else:
            same.append(i)
    log("[C16] in-process: %d lines tokenize the same through the script pass, %d differ, %d passed verbatim" % (len(same), len(cand), verbatim))
    # ---- process level
    clusters = {}
    for i, k in cand:
        f = cases[i].get("feat", {})
        key = (cases[i]["origin"], k, f.get("style"), tuple(f.get("bs_chars", []))[:3], f.get("ctx"), f.get("tight"))
        clusters.setdefault(key, []).append(i)
    chosen = []
    for key, idxs in clusters.items():
        rnd.shuffle(idxs)
        chosen += idxs[:2]
    # stratified sample of the lines that tokenize the same: one line per stratum, round robin, until the budget is used
    # (thorough: 60 000 lines)
    budget = 1800 if tier == "quick" else 60000
    strata = {}
    for i in same:
        c = cases[i]
        f = c.get("feat", {})
        if c["origin"] == "C01":
            key = ("C01", f.get("style"), f.get("pos"), f.get("ctx"), f.get("tight"), tuple(f.get("chars", []))[:1])
        else:
            key = (c["origin"], f.get("kind"), f.get("form"), f.get("ctx"), f.get("sp"), f.get("pos"), f.get("n"), tuple(f.get("ops", []))[:2])
        strata.setdefault(key, []).append(i)
    keys = list(strata)
    rnd.shuffle(keys)
    # the end of the line is where the entry points differ most (trimming, continuation lines): those strata go first
    keys.sort(key=lambda k: 0 if (k[0] == "C01" and k[2] == "last" and k[3] == "end") else 1)
    for k in keys:
        rnd.shuffle(strata[k])
    # generators other than C01 first get an equal share, C01 (by far the largest) the rest
    n_other = sum(1 for k in keys if k[0] != "C01")
    depth = 0
    while len(chosen) < budget and any(len(strata[k]) > depth for k in keys):
        for k in keys:
            if len(strata[k]) > depth and len(chosen) < budget:
                chosen.append(strata[k][depth])
        depth += 1
    chosen = sorted(set(chosen) | {i for i in same if cases[i]["origin"] == "C16-edge"})
    log("[C16] process level: %d candidate clusters, %d lines x %d entries" % (len(clusters), len(chosen), len(ENTRIES)))
    jobs = [wrap(cases[i], e) for i in chosen for e in ENTRIES]
    results = run_cases(jobs)
    cand_kind = dict(cand)
    drift = 0
    distinct = set()
    for n, i in enumerate(chosen):
        c = cases[i]
        rs = results[n * len(ENTRIES):(n + 1) * len(ENTRIES)]
        for x in rs:
            if "tool_error" in x:
                raise ToolError(x["tool_error"])
        base = observe(rs[0], c.get("pid_in_argv", False))
        differs = False
        for e, x in zip(ENTRIES[1:], rs[1:]):
            if e in CTX and (len(c["text"]) - len(c["text"].rstrip("\\"))) % 2 == 1:
                continue        # an unescaped backslash at the end joins the next line: a different program
            rep.cov["evaluations"] += 1
            o = observe(x, c.get("pid_in_argv", False))
            if e in CTX:
                o["status"] = base["status"]
            k = diff_kind(base, o)
            if k:
                differs = True
                f = feat_of(c, e, k)
                rep.violation("%s/%s/%s" % (k, c["origin"], cluster_tag(f)),
                              "`%s` through %s differs from -c in %s" % (c["text"], e, k),
                              {"base": c, "entry": e, "c": base, "other": o}, f)
        if i in cand_kind and not differs:
            drift += 1
        if "\\" in c["text"] or "'" in c["text"] or '"' in c["text"] or any(op in c["text"] for op in (";", "&&", "||", ">", "<", "$", "{", "*")):
            distinct.add(c["text"])
        if n % 499 == 0:
            rep.sample({"line": c["text"], "origin": c["origin"], "c": {"records": base["recs"][:3], "status": base["status"]}})
    # ---- prompt
    # (a helper told to read its standard input whose input redirection is written without a blank - C04-attached-input: no
    # redirection happens - reads the terminal at the prompt and nothing under -c: not comparable)
    pool = [i for i in chosen if prompt_ok(cases[i]["text"]) and not re.search(r" r( .*)?(<<<|<)[^ <]", cases[i]["text"])]
    nprompt = min(len(pool), 100 if tier == "quick" else 1500)
    # the end of the line is where the prompt's own pre-processing (completeness test, continuation lines) matters: lines that
    # end in a backslash or in an escaped character are typed first
    edge = [i for i in pool if cases[i]["text"].rstrip(" ").endswith("\\") or re.search(r"\\.$", cases[i]["text"])]
    rnd.shuffle(edge)
    edge = edge[:nprompt // 2]
    rest_pool = [i for i in pool if i not in set(edge)]
    psel = edge + (rnd.sample(rest_pool, min(len(rest_pool), nprompt - len(edge))) if rest_pool else [])
    psel = sorted(set(psel) | {i for i in pool if cases[i]["origin"] == "C16-edge"})
    pos = {i: n for n, i in enumerate(chosen)}

    def one(i):
        c = cases[i]
        o = run_at_prompt(c)
        if "unsettled" in o:
            o = run_at_prompt(c)
        return o
    with ThreadPoolExecutor(max_workers=min(12, NCPU)) as ex:
        pres = list(ex.map(one, psel))
    unsettled = 0
    for i, o in zip(psel, pres):
        c = cases[i]
        if "unsettled" in o:
            unsettled += 1
            continue
        rep.cov["evaluations"] += 1
        n = pos[i]
        base = observe(results[n * len(ENTRIES)], c.get("pid_in_argv", False))
        k = diff_prompt(base, o)
        if k:
            f = feat_of(c, "prompt", k)
            rep.violation("%s/%s/prompt/%s" % (k, c["origin"], cluster_tag(f)),
                          "`%s` typed at the prompt differs from -c in %s" % (c["text"], k),
                          {"base": c, "entry": "prompt", "c": base, "other": o}, f)
    if psel and unsettled > max(3, len(psel) // 5):
        raise ToolError("%d of %d prompt sessions did not settle" % (unsettled, len(psel)))
    # ---- the positional-parameter pass itself (MCEntryArgs cases as scripts with arguments)
    if tier == "quick":
        by = {}
        for c in argcases:
            by.setdefault((c["ctx"], c["ref"]), []).append(c)
        pick = []
        for k in sorted(by):
            pick += rnd.sample(by[k], min(len(by[k]), 40))
        argcases = pick
    judge_args(rep, argcases)
    # conformance of the pass itself: the real expand_args must produce exactly what the model's Splice produces
    pgot = inproc_map("rerender", [{"id": i, "line": c["line"], "args": c["args"]} for i, c in enumerate(argcases)], timeout=20)
    pdrift = [c["line"] for c, g in zip(argcases, pgot) if not g or g.get("rendered") != c.get("spliced")]
    if pdrift:
        log("[C16] positional-pass drift on %d cases, e.g. %r" % (len(pdrift), pdrift[:3]))
    rep.cov["positional_pass_drift"] = len(pdrift)
    drift += len(pdrift)
    rep.cov["distinct_nontrivial"] = len(distinct)
    rep.cov["traces_validated_against_impl"] = rep.cov["evaluations"]
    rep.cov["inprocess_lines"] = len(cases)
    rep.cov["inprocess_token_mismatches"] = len(cand)
    rep.cov["passed_verbatim"] = verbatim
    rep.cov["spec_drift"] = drift
    rep.cov["prompt_sessions"] = len(psel) - unsettled
    rep.cov["prompt_unsettled"] = unsettled
    rep.cov["positional_cases"] = len(argcases)
    rep.assumptions += ["records of one pipeline may be logged in any order (compared as a multiset; markers in sequence)",
                        "at the prompt the output streams are the terminal and are not compared; status is read by a following `vpa __st $?`",
                        "lines with control characters, `!!` or a trailing backslash are not typed at the prompt",
                        "`$$` is normalised through the helper's parent pid"]
    return rep.finish(rule="the lines of the C01 / C03 / C04 / C10 / C11 / C12 generators (quick bounds of their TLC models; C01 at the tier's "
                           "bound) without positional parameters: every line through the real expand_args + tokenizer in-process; every "
                           "token-level difference cluster and a per-generator sample through -c / script / function / source (and a sample "
                           "typed at a pty prompt), compared pairwise with -c; plus the MCEntryArgs cases (positional reference x quote "
                           "context x neighbour word with escapes x argument values) run as scripts with arguments; non-trivial = the line "
                           "contains a quote, escape, operator or expansion; distinct by line")


def cluster_tag(f):
    if f.get("origin") == "C01":
        return "%s/%s" % (f.get("style"), "".join(f.get("bs_chars", []))[:4] if f.get("style") == "bs" else f.get("ctx"))
    return str(f.get("kind") or f.get("form") or f.get("n") or "")


def diff_prompt(base, o):
    if not o.get("probe_seen"):
        return "shell-dead"
    for k in ("recs", "seq", "files", "status"):
        if base[k] != o[k]:
            return {"recs": "programs-or-argv", "seq": "order"}.get(k, k)
    return None


def judge_args(rep, argcases):
    jobs = [{"entry": "script", "text": c["line"] + "\n", "args": c["args"], "script_name": "sc", "timeout": 15, "want_files": False}
            for c in argcases]
    # an escaped reference inside double quotes is no positional parameter: what -c makes of the line is the expectation
    ref_jobs = [{"entry": "c", "text": c["line"], "timeout": 15, "want_files": False} for c in argcases if c["ctx"] == "dqesc"]
    results = run_cases(jobs)
    refs = iter(run_cases(ref_jobs))
    for c, res in zip(argcases, results):
        if "tool_error" in res:
            raise ToolError(res["tool_error"])
        rep.cov["evaluations"] += 1
        pa = [r.get("argv") for r in res.get("log", []) if r.get("h") == "pa"]
        exp = c["argv"][1:]
        if c["ctx"] == "dqesc":
            rr = next(refs)
            rpa = [r.get("argv") for r in rr.get("log", []) if r.get("h") == "pa"]
            ok = pa == rpa and res.get("status") == rr.get("status")
            exp = rpa
        else:
            ok = len(pa) == 1 and matches_argv(pa[0], exp)
        if not ok:
            f = {"origin": "args", "ctx": c["ctx"], "ref": c["ref"], "entry": "script", "text": c["line"],
                 "kind": "hang" if res.get("timed_out") else "argv"}
            rep.violation("args/%s/%s" % (c["ctx"], c["ref"]),
                          "script line `%s` with arguments %s: argv %s, expected %s" % (c["line"], c["args"], pa, exp),
                          {"args_case": c, "got": pa, "stderr": res.get("stderr", "")[-300:]}, f)


def res_script_name(res):
    return "sc"


def matches_argv(got, exp):
    """$0 is the script path as given on the command line: compare it by its basename"""
    if len(got) != len(exp):
        return False
    for g, e in zip(got, exp):
        if g == e:
            continue
        if "sc" in e and isinstance(g, str) and re.sub(r"/[^ ]*/vh/sc", "sc", g) == e:
            continue
        return False
    return True


def main():
    std_main("C16", runner)
