"""C05 - no input line, script or keystroke sequence crashes or hangs the shell.
Spec: spec/Robust.tla (the submission / answer / sentinel protocol with the failure actions Crash,
Hang, DeadProbe), spec/MCRobust.tla (the input enumerator: every string over an alphabet up to a bound,
classified by the reference reader), spec/TraceRobust.tla (recorded sweeps and sessions validated
against the protocol, NeverDead evaluated in every state).
(M) TLC checks the protocol (NeverDead, Responsive under fairness) and the totality of the reference
reader on every enumerated string; (G) TLC enumerates every string up to length 4 (thorough 5; 6 for
the cheap stages) over four 14-symbol alphabets and simulates longer ones; (B) every string goes
through every pure stage of the real code in-process (each stage under catch_unwind, each case under
a watchdog), grammar- and mutation-based lines up to 200 characters run through -c / script / stdin of
the real binary, random key sequences are typed at a pseudo-terminal prompt and followed by a
sentinel command; all recorded answers are validated by TLC against the protocol.
For this property the detection power is the harness's panic / abort / time-out capture; TLC is the
enumerator and the referee of the recorded traces."""
import json
import os
import random
import signal
import time
from concurrent.futures import ThreadPoolExecutor

from common import HELPERS, NCPU, WORK, Report, ToolError, check_action_coverage, inproc_map, log, run_cases, run_tlc, std_main
import ptydrv
import tracecheck

ALPHABETS = ("Quote", "Redir", "Arith", "Multi")
MB = {"U": "\u00e9", "W": "\u4f60"}
SPECIALS = "'\"`\\$(){}|&;<>#*,.~=^!?[] \t"

SEED_LINES = [
    "vpa a b", "vpa 'a b' \"c d\" e\\ f", "vpa $A ${A} $? $$", "vpa $(vpa x) `vpa y`", "vpa {a,b}{1..3} *", "vpa a > f 2>&1 < g",
    "vpa a | vpa b | vpa c", "vpa a && vpa b || vpa c ; vpa d", "A=1 B=2 vpa x", "vpa <<< word", "1 + 2 * (3 - 4) ^ 2 / 7",
    "2 ^ 64 + 99999999999999999999", "1.5 * 2 - .3", "alias a='vpa x' ; a", "vpa ~ ~/x ~a", "vpa \"$(vpa \"a b\")\"", "vpa a &",
    "export X=`vpa`/y", "vpa 'é 你' é\\ 你", "vpa $(( 1 + 2 ))", "vpa ${A:-x} ${#A} $A[1]", "(vpa a)", "vpa a 2>>f >>g", "vpa a >&2 1>&2",
    "if vpa a ; then vpa b ; fi", "for x in a b ; do vpa $x ; done", "function f() { vpa a }", "vpa !! !$", "history | vpa", "cd - ; cd ~ ; cd ..",
    "jobs ; fg ; bg ; fg 99", "unset A ; export ; set -e", "read X <<< abc", "source /nonexistent", "exec", "ulimit -n 5 ; vpa a | vpa b",
    "vpa a;;vpa b", "vpa | | vpa", "&& vpa", "vpa > > f", "vpa 2>&", "vpa <", "vpa ${", "vpa $(", "vpa `", "vpa \"", "vpa '", "vpa \\",
    "vpa {a,{b,c}d}{", "vpa {1..99999999999999999999}", "vpa {1..5..0}", "vpa {a..z..-1}", "A='$A' vpa $A", "A='${B}' B='$A' vpa $A$B",
    # two features of one command together
    "vpa '<' < f", "vpa \"<<<\" <<< w", "vpa \\< x < f", "vpa '>' > f", "vpa \"2>&1\" 2>&1", "vpa '|' | vpa '&'", "vpa $(vpa '<' < f)",
    "vpa {a,b} {c,d} *", "vpa $A{1..2} \"$A\"{x,y}", "alias q='vpa <' ; q f", "vpa 'a' \\| b", "vpa \"a\" \\> b", "vpa '' \\# c",
    "for x in $A {1..2} ; do vpa $x ; done", "vpa a <<< 'b' < f", "vpa a > f >> g 2> h 2>&1 1>&2",
    # numeric bounds next to the limits of the machine types
    "vpa {2147483646..2147483647}", "vpa {1..2147483647..2147483647}", "vpa {-2147483647..-2147483648}", "vpa {2147483647..2147483646..2147483647}",
    "vpa {0..2147483648}x", "vpa {-2147483649..0}", "vpa {1..3..2147483648}", "(0 - 9223372036854775807 - 1) / (0 - 1)", "-9223372036854775808 / -1", "2 ^ 63 / -1", "ulimit -n 99999999999999999999", "fg 2147483648", "bg -1", "history -n 99999999999",
    "exit 99999999999999999999x", "cd -99", "vpa ${", "vpa ${A", "vpa \"a${A b\"", "vpa ${?", "vpa $A${", "vpa ${}${A}",
]


def mutate(s, rnd):
    ops = rnd.randint(1, 4)
    for _ in range(ops):
        k = rnd.random()
        pos = rnd.randint(0, len(s))
        if k < 0.35:
            s = s[:pos] + rnd.choice(SPECIALS) + s[pos:]
        elif k < 0.5 and s:
            # letters are never deleted: a damaged helper name could turn into a real (interactive) program
            if pos < len(s) and not s[pos].isalnum():
                s = s[:pos] + s[pos + 1:]
        elif k < 0.65:
            a, b = sorted((rnd.randint(0, len(s)), rnd.randint(0, len(s))))
            while 0 < a < len(s) and s[a - 1].isalnum() and s[a].isalnum():
                a -= 1
            while 0 < b < len(s) and s[b - 1].isalnum() and s[b].isalnum():
                b += 1
            s = s[:pos] + " " + s[a:b] + " " + s[pos:]
        elif k < 0.75:
            while 0 < pos < len(s) and s[pos - 1].isalnum() and s[pos].isalnum():
                pos -= 1
            s = s[:pos]
        elif k < 0.85:
            s = s[:pos] + rnd.choice(["é", "你", "​", "𝒳", "ñ", "́"]) + s[pos:]
        elif k < 0.92:
            s = s[:pos] + rnd.choice(["$(", "${", "$((", "`", "2>&1", "<<<", ">>", "&&", "||", "{1..", "\\"]) + s[pos:]
        else:
            s = s + " " + rnd.choice(SEED_LINES)
    return s[:200]


def grammar_line(rnd, depth=0):
    words = ["vpa", "a", "b", "'q r'", "\"d $A\"", "$A", "${A}", "$?", "*", "{a,b}", "{1..3}", "~", "é", "你", "a\\ b", "1", "+", "2"]

    def word():
        k = rnd.random()
        if k < 0.1 and depth < 2:
            return "$(" + grammar_line(rnd, depth + 1) + ")"
        if k < 0.15 and depth < 2:
            return "`" + grammar_line(rnd, depth + 2) + "`"
        return rnd.choice(words)

    def cmd():
        parts = [rnd.choice(["vpa", "vmk 1 0", "vio A", "alias", "export", "cd", "nosuch"])] + [word() for _ in range(rnd.randint(0, 4))]
        if rnd.random() < 0.3:
            parts.append(rnd.choice([">", ">>", "2>", "<", "<<<", "2>&1", "1>&2"]) + rnd.choice(["", " "]) + rnd.choice(["f", "/nonexistent/x", ""]))
        return " ".join(parts)
    n = rnd.randint(1, 3)
    out = cmd()
    for _ in range(n - 1):
        out += rnd.choice([" | ", " ; ", " && ", " || ", "|", ";"]) + cmd()
    if rnd.random() < 0.1:
        out += " &"
    return out[:200]


def huge_range(ln):
    """a well-formed range of more than a million elements is a resource question (bash builds it too), not a hang"""
    import re
    for m in re.finditer(r"(-?\d{1,18})\.\.(-?\d{1,18})", ln):
        try:
            if abs(int(m.group(2)) - int(m.group(1))) > 200000:
                return True
        except ValueError:
            pass
    return False


def crashed(res):
    st = res.get("status")
    err = res.get("stderr", "")
    if st is not None and st < 0 and not res.get("timed_out"):
        return "killed by signal %d" % -st
    if st == 101 or "panicked at" in err or "RUST_BACKTRACE" in err:
        return "panic"
    if st == 134:
        return "abort"
    return None


def validate_protocol(rep, events, label, expect_clean):
    """TLC referees the recorded events against spec/Robust.tla"""
    CH = 300000
    ok_all = True
    chunks = [events[i:i + CH] for i in range(0, len(events), CH)] or [[]]
    # a chunk must start at a shell boundary: cut at reset / submit records
    fixed = []
    carry = []
    for ch in chunks:
        ch = carry + ch
        carry = []
        while ch and ch[-1]["e"] not in ("return", "sentinel", "crash", "hang"):
            carry.insert(0, ch.pop())
        fixed.append(ch)
    if carry:
        fixed[-1] += carry

    def one(ch):
        if not ch:
            return True, None
        recs = [{"e": "reset"}] + ch if ch[0]["e"] != "reset" else ch
        ok, ln, text, res = tracecheck.validate("TraceRobust", "TraceRobust", recs, timeout=1800)
        return ok, (ln, text, res)
    with ThreadPoolExecutor(max_workers=4) as ex:
        outs = list(ex.map(one, fixed))
    n = 0
    for ok, info in outs:
        if info:
            rep.add_tlc(info[2])
        if ok:
            n += 1
        else:
            ok_all = False
    if expect_clean and not ok_all:
        bad = [i for ok, i in outs if not ok][0]
        raise ToolError("protocol validation of the %s trace rejected a trace the driver judged clean: %s" % (label, bad[1][:500]))
    if not expect_clean and ok_all:
        raise ToolError("protocol validation of the %s trace accepted a trace that contains a crash / hang" % label)
    return len(events)


def runner(rep, tier, seed, replay):
    rnd = random.Random(seed)
    if replay:
        with open(replay) as f:
            c = json.load(f)["case"]
        if c.get("layer") == "inproc":
            g = inproc_map("stages", [{"id": 0, "line": c["line"]}], timeout=100)[0]
            if g.get("failed") or g.get("hang") or "abort" in g:
                rep.violation("replay", "still fails: %s" % json.dumps(g)[:300], c, c.get("feat", {}))
        else:
            res = run_cases([c["proc"]])[0]
            if crashed(res) or res.get("timed_out"):
                rep.violation("replay", "still fails", c, c.get("feat", {}))
        rep.cov["evaluations"] = 1
        return rep.finish(rule="replay of one recorded case")
    # ---- (M) the protocol
    r = run_tlc("MCRobustProto", "MCRobustProto")
    if r.violation:
        raise ToolError("protocol model: " + r.violation[:1500])
    check_action_coverage(r, ["Submit", "Return", "Sentinel"])
    rep.add_tlc(r)
    # ---- (G) enumeration + (B) in-process stage sweep
    n_full = 4 if tier == "quick" else 5
    strings = []
    for a in ALPHABETS:
        r = run_tlc("MCRobust", "MCRobust_%s%d" % (a, n_full), on_replay=lambda v, a=a: strings.append(("".join(MB.get(ch, ch) for ch in v["s"]) if a == "Multi" else v["s"], v["complete"], a)),
                    keep_replays=False, timeout=3000, xmx="16g")
        if r.violation:
            raise ToolError("the reference reader is not total: " + r.violation[:1500])
        check_action_coverage(r, ["Add", "Finish"])
        rep.add_tlc(r)
    n_enum = len(strings)
    # longer strings: TLC simulation of the same writer
    rs = run_tlc("MCRobust", "MCRobust_sim", simulate=5000 if tier == "quick" else 60000, depth=12, seed=seed, workers=1, coverage=False,
                 on_replay=lambda v: strings.append(("".join(MB.get(ch, ch) for ch in v["s"]), v["complete"], "sim")), keep_replays=False, timeout=3000)
    rep.add_tlc(rs)
    strings += [(ln, True, "Arith") for ln in SEED_LINES]      # the seed lines of the process layer also go through every stage in-process
    log("[C05] %d enumerated strings (<= %d over 4 alphabets), %d simulated longer ones" % (n_enum, n_full, len(strings) - n_enum))
    wd = os.path.join(WORK, "c05-cwd-%d" % os.getpid())
    os.makedirs(wd, exist_ok=True)
    for fn in ("a", "aa", "1", ".h"):
        open(os.path.join(wd, fn), "w").close()
    events = []
    clean = True
    try:
        # a pattern that walks the whole real file system from / is slow, not a hang: such strings skip the planner stage
        deep = [("/**" in s[0]) for s in strings]
        idx_full = [i for i, d in enumerate(deep) if not d]
        idx_cheap = [i for i, d in enumerate(deep) if d]
        got = [None] * len(strings)
        t1 = time.time()
        for i, g in zip(idx_full, inproc_map("stages", [{"id": i, "line": strings[i][0]} for i in idx_full], cwd=wd, timeout=15,
                                             env={"HOME": "/verif-home", "A": "va"})):
            got[i] = g
        for i, g in zip(idx_cheap, inproc_map("cheap", [{"id": i, "line": strings[i][0]} for i in idx_cheap], cwd=wd, timeout=15)):
            got[i] = g
        log("[C05] in-process sweep of %d strings: %.0fs (%d without the planner stage)" % (len(strings), time.time() - t1, len(idx_cheap)))
        # hangs are re-run once with a 10x budget before they are called violations
        # (also an answer that is missing altogether or a worker that died: on a loaded machine a worker can simply be starved)
        slow = [i for i, g in enumerate(got) if g is None or (g and (g.get("hang") or "abort" in g))]
        if slow:
            log("[C05] %d in-process answers late or missing; asking again with a generous budget" % len(slow))
            again = inproc_map("stages", [{"id": i, "line": strings[i][0]} for i in slow[:200]], cwd=wd, timeout=150,
                               env={"HOME": "/verif-home", "A": "va"}, jobs=4)
            for i, g in zip(slow[:200], again):
                got[i] = g
        drift = 0
        for (s, complete, alpha), g in zip(strings, got):
            rep.cov["evaluations"] += 1
            events.append({"e": "submit"})
            if g and "tool_error" in g:
                raise ToolError(g["tool_error"])
            feat = {"layer": "inproc", "alphabet": alpha, "len": len(s), "chars": sorted(set(s))}
            if g is None or g.get("hang"):
                clean = False
                events.append({"e": "hang"})
                events.append({"e": "reset"})
                rep.violation("hang/inproc/" + alpha, "a pure stage does not terminate on %r" % s, {"layer": "inproc", "line": s, "feat": feat}, dict(feat, kind="hang"))
                continue
            if "abort" in g:
                clean = False
                events.append({"e": "crash"})
                events.append({"e": "reset"})
                rep.violation("abort/inproc/" + alpha, "the process aborted on %r (status %s)" % (s, g["abort"]), {"layer": "inproc", "line": s, "feat": feat}, dict(feat, kind="abort"))
                continue
            if g.get("failed"):
                clean = False
                events.append({"e": "crash"})
                events.append({"e": "reset"})
                for fl in g["failed"]:
                    rep.violation("panic/%s" % fl["stage"], "%s panics on %r: %s" % (fl["stage"], s, fl["panic"][:200]),
                                  {"layer": "inproc", "line": s, "stage": fl["stage"], "panic": fl["panic"], "feat": feat},
                                  dict(feat, kind="panic", stage=fl["stage"]))
                continue
            events.append({"e": "return", "o": "ran" if g.get("complete") else "rejected"})
            if alpha != "Arith" and "(" not in s and "`" not in s and ")" not in s and bool(g.get("complete")) != bool(complete):
                drift += 1
        rep.cov["spec_drift"] = drift
    finally:
        import shutil
        shutil.rmtree(wd, ignore_errors=True)
    n_inproc = rep.cov["evaluations"]
    # thorough: every string of length 6 over the quoting alphabet through the cheap stages
    if tier == "thorough":
        cheap = []
        r6 = run_tlc("MCRobust", "MCRobust_Quote6", on_replay=lambda v: cheap.append(v["s"]) if len(v["s"]) == 6 else None, keep_replays=False,
                     timeout=7200, xmx="24g")
        rep.add_tlc(r6)
        log("[C05] %d strings of length 6 for the cheap stages" % len(cheap))
        got6 = inproc_map("cheap", [{"id": i, "line": s} for i, s in enumerate(cheap)], timeout=15)
        sus6 = [i for i, g in enumerate(got6) if g is None or (g and (g.get("hang") or "abort" in g))]
        if sus6:
            log("[C05] %d cheap-stage answers missing; asking again with a generous budget" % len(sus6))
            again6 = inproc_map("cheap", [{"id": k, "line": cheap[i]} for k, i in enumerate(sus6[:200])], jobs=2, timeout=120)
            for i, g2 in zip(sus6[:200], again6):
                got6[i] = g2
        for s, g in zip(cheap, got6):
            rep.cov["evaluations"] += 1
            feat = {"layer": "inproc", "alphabet": "Quote", "len": 6, "chars": sorted(set(s))}
            if g is None or g.get("hang") or "abort" in g:
                rep.violation("hang-or-abort/cheap", "a tokenizer-level stage fails on %r" % s, {"layer": "inproc", "line": s, "feat": feat}, dict(feat, kind="hang"))
            elif g.get("failed"):
                for fl in g["failed"]:
                    rep.violation("panic/%s" % fl["stage"], "%s panics on %r: %s" % (fl["stage"], s, fl["panic"][:200]),
                                  {"layer": "inproc", "line": s, "stage": fl["stage"], "feat": feat}, dict(feat, kind="panic", stage=fl["stage"]))
        rep.cov["cheap_stage_strings_len6"] = len(cheap)
    # ---- process level: grammar- and mutation-based lines through -c / script / stdin
    nproc = 3000 if tier == "quick" else 40000
    lines = []
    for i in range(nproc):
        k = rnd.random()
        if k < 0.45:
            lines.append(mutate(rnd.choice(SEED_LINES), rnd))
        elif k < 0.8:
            lines.append(grammar_line(rnd))
        else:
            lines.append(mutate(grammar_line(rnd), rnd))
    lines += list(SEED_LINES)          # the seed lines themselves, unmutated
    lines = [ln.replace("\n", " ").replace("\r", " ").replace("\x00", "") for ln in lines]
    lines = [ln for ln in lines if not huge_range(ln)]
    jobs, meta = [], []
    for ln in lines:
        e = rnd.choice(["c", "script", "stdin"])
        if e == "c":
            if ln.startswith("-"):
                ln = " " + ln
            jobs.append({"entry": "c", "text": ln, "timeout": 12, "want_files": False, "env": {"A": "va", "PATH": HELPERS}})
        elif e == "script":
            jobs.append({"entry": "script", "text": ln + "\nvmk SENT 0\n", "timeout": 12, "want_files": False, "env": {"A": "va", "PATH": HELPERS}})
        else:
            jobs.append({"entry": "stdin", "text": ln + "\n", "timeout": 12, "want_files": False, "env": {"A": "va", "PATH": HELPERS}})
        meta.append((ln, e))
    t1 = time.time()
    results = run_cases(jobs)
    log("[C05] %d process-level lines: %.0fs" % (len(jobs), time.time() - t1))
    slow = [i for i, res in enumerate(results) if res.get("timed_out") and not res.get("blocked_in_wait") and not res.get("blocked_on_foreign")]
    if slow:
        log("[C05] %d process-level lines timed out; re-running with a 10x budget" % len(slow))
        again = run_cases([dict(jobs[i], timeout=120) for i in slow[:20]], jobs=4)
        for i, res in zip(slow[:20], again):
            results[i] = res
    pevents = []
    pclean = True
    for (ln, e), job, res in zip(meta, jobs, results):
        rep.cov["evaluations"] += 1
        if "tool_error" in res:
            raise ToolError(res["tool_error"])
        pevents += [{"e": "reset"}, {"e": "submit"}]
        feat = {"layer": "process", "entry": e, "len": len(ln), "chars": sorted(set(ln) & set(SPECIALS))}
        case = {"layer": "process", "line": ln, "proc": job, "status": res.get("status"), "stderr": res.get("stderr", "")[-400:], "feat": feat}
        cr = crashed(res)
        if res.get("timed_out") and (res.get("blocked_in_wait") or res.get("blocked_on_foreign")):
            # the shell waits (wait4) for a program the line started (a mutated word can name a real interactive program):
            # that is the program's doing, not a hang of the shell
            pevents.append({"e": "return", "o": "ran"})
            rep.cov["blocked_on_child"] = rep.cov.get("blocked_on_child", 0) + 1
        elif res.get("timed_out"):
            pclean = False
            pevents.append({"e": "hang"})
            rep.violation("hang/%s" % e, "`%s` through %s never finishes" % (ln, e), case, dict(feat, kind="hang"))
        elif cr:
            pclean = False
            pevents.append({"e": "crash"})
            rep.violation("%s/%s" % (cr.split()[0], e), "`%s` through %s: %s" % (ln, e, cr), case, dict(feat, kind=cr.split()[0]))
        else:
            pevents.append({"e": "return", "o": "ran" if res.get("status") == 0 else "rejected"})
            if e == "script":
                sent = any(r.get("h") == "mk" and r.get("id") == "SENT" for r in res.get("log", []))
                rejected_whole = ln.rstrip(" \t").endswith("\\") or "syntax error" in res.get("stderr", "") or "exit" in ln or "exec" in ln or "set" in ln
                if sent or rejected_whole:
                    pevents.append({"e": "sentinel", "ok": True}) if sent else None
                else:
                    pclean = False
                    pevents.append({"e": "sentinel", "ok": False})
                    rep.violation("sentinel/script", "after script line `%s` the next command did not run (status %s, stderr %s)"
                                  % (ln, res.get("status"), res.get("stderr", "")[-200:]), case, dict(feat, kind="sentinel"))
    for ln, e in meta[:4]:
        rep.sample({"entry": e, "line": ln})
    # ---- pty: random key sequences, then a sentinel command
    nses = 24 if tier == "quick" else 400
    sess = [pty_session(random.Random(seed * 1000 + i)) for i in range(0)]  # placeholder for type checkers
    with ThreadPoolExecutor(max_workers=min(8, NCPU)) as ex:
        sess = list(ex.map(lambda i: pty_session(random.Random(seed * 1000 + i)), range(nses)))
    unsettled = 0
    for sres in sess:
        if sres.get("unsettled"):
            unsettled += 1
            continue
        rep.cov["evaluations"] += 1
        pevents += [{"e": "reset"}] + sres["events"]
        feat = {"layer": "pty", "entry": "prompt", "keys": sres["keys"][:200]}
        if sres.get("bad"):
            pclean = False
            rep.violation("%s/pty" % sres["bad"], "key sequence %r at the prompt: %s" % (sres["keys"][:120], sres["bad"]),
                          {"layer": "pty", "keys": sres["keys"], "tail": sres.get("tail", "")[-400:], "feat": feat}, dict(feat, kind=sres["bad"]))
    if nses and unsettled > max(2, nses // 4):
        raise ToolError("%d of %d pty sessions did not settle" % (unsettled, nses))
    # ---- (V) TLC referees the recorded answers
    nev = validate_protocol(rep, events, "in-process", clean)
    nev += validate_protocol(rep, pevents, "process / pty", pclean)
    rep.cov["distinct_nontrivial"] = len({s[0] for s in strings if set(s[0]) & set(SPECIALS)}) + len(set(lines))
    rep.cov["traces_validated_against_impl"] = rep.cov["evaluations"]
    rep.cov["protocol_events_validated"] = nev
    rep.cov["inprocess_strings"] = n_inproc
    rep.cov["process_lines"] = len(lines)
    rep.cov["pty_sessions"] = nses - unsettled
    rep.cov["exhaustive"] = True
    rep.assumptions += ["in-process stages run with an empty PATH in a scratch directory (substituted commands are 'not found')",
                        "a time-out is re-run once with a 10x budget before it is reported as a hang",
                        "a script whose text is rejected as a whole (syntax error) need not run the sentinel line; at the prompt the sentinel must run",
                        "a shell blocked in wait4 on a child started by the typed text is not a hang of the shell: the child is killed and the session goes on"]
    return rep.finish(rule="every string up to length %d over each of four 14-symbol alphabets (quoting / substitution, redirection / brace, multi-byte, "
                           "arithmetic) enumerated by TLC from spec/MCRobust.tla, through every pure stage in-process (line_to_cmds, parse_line, "
                           "tokens_to_line, tokens_to_redirections, Command::from_tokens, CommandLine::from_line incl. all expansions, "
                           "is_arithmetic / run_calculator, script grammar, escaped_word_start, complete_path, trim_multiline_prompts, "
                           "extend_bangbang)%s; TLC-simulated strings up to length 12; seeded grammar- and mutation-based lines up to 200 "
                           "characters incl. multi-byte text through -c / script (+ sentinel) / stdin of the binary; random key sequences "
                           "(printable Unicode, TAB, Enter, Ctrl-C, arrows, Ctrl-A/E/U/W) typed at a pty prompt followed by a sentinel command; "
                           "non-trivial = contains a shell-special character; distinct by string"
                           % (n_full, "; every string of length 6 over the quoting alphabet through the tokenizer-level stages" if tier == "thorough" else ""))


KEYS_PRINT = list("aé你 'q\"$`\\(){}|&;<>*~#=!-./,1+^") + ["𝒳", "ñ", "́", "%", "[", "]", "?", "@", ":"]
KEYS_CTRL = ["\t", "\t\t", "\r", "\x03", "\x1b[A", "\x1b[B", "\x1b[C", "\x1b[D", "\x01", "\x05", "\x15", "\x17", "\x7f", "\x0c", "\x0b", "\x19", "\x14",
             "\x1bb", "\x1bf", "\x12", "\x07"]


def pty_session(rnd):
    keys = ""
    try:
        s = ptydrv.LineSession(files={"a b": "", "aa": "", "d/x": "", "q'r": ""}, env={"A": "va", "PATH": HELPERS})
    except ptydrv.Unsettled as e:
        return {"unsettled": str(e)}
    events = []
    bad = None
    tail = b""
    try:
        for burst in range(rnd.randint(2, 6)):
            chunk = ""
            for _ in range(rnd.randint(1, 25)):
                chunk += rnd.choice(KEYS_CTRL) if rnd.random() < 0.2 else rnd.choice(KEYS_PRINT)
            if rnd.random() < 0.7:
                chunk += "\r"
            keys += chunk
            events.append({"e": "submit"})
            ok, text = s.send(chunk, timeout=10)
            tail = text
            if not s.alive():
                events.append({"e": "crash"})
                bad = "crash"
                break
            if not ok:
                # not quiescent: spinning shell = hang; blocked in a child = kill the child and go on
                if s.shell_state() == "R":
                    ok2, _ = s.settle(60)
                    if not ok2 and s.shell_state() == "R":
                        events.append({"e": "hang"})
                        bad = "hang"
                        break
            if s.alive() and s.shell_syscall() == ptydrv.WAIT4:
                kill_children(s.pid)
                s.send("\x03", timeout=5)
            events.append({"e": "return", "o": "ran"})
        if not bad:
            # leave any open quote / continuation prompt, clear the line, run the sentinel
            s.send("\x03", timeout=5)
            s.send("\x15", timeout=5)
            ok, text = s.send("vmk SENT 0\r", timeout=10)
            tail = text
            sent = any(r.get("h") == "mk" and r.get("id") == "SENT" for r in s.log())
            if not s.alive():
                events.append({"e": "crash"})
                bad = "crash"
            elif not sent:
                # once more after another Ctrl-C (a multi-line prompt swallows the first attempt as continuation text)
                s.send("\x03", timeout=5)
                s.send("\x03", timeout=5)
                s.send("vmk SENT 0\r", timeout=10)
                sent = any(r.get("h") == "mk" and r.get("id") == "SENT" for r in s.log())
                events.append({"e": "sentinel", "ok": bool(sent)})
                if not sent:
                    bad = "sentinel"
            else:
                events.append({"e": "sentinel", "ok": True})
        return {"events": events, "bad": bad, "keys": keys, "tail": (s.all_text[-600:]).decode("utf-8", "replace")}
    except ptydrv.Unsettled as e:
        return {"unsettled": str(e)}
    finally:
        s.close()


def kill_children(ppid):
    for n in os.listdir("/proc"):
        if not n.isdigit():
            continue
        try:
            with open("/proc/%s/stat" % n) as f:
                st = f.read()
            rest = st[st.rindex(")") + 2:].split()
            if int(rest[1]) == ppid:
                os.kill(int(n), signal.SIGKILL)
        except (OSError, ValueError, IndexError):
            continue


def main():
    std_main("C05", runner, level="exploration")
