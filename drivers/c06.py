"""C06 - the job table tracks exactly the live jobs under every order of child events.
Spec: spec/JobControl.tla.  (M) TLC explores every interleaving of kernel events, foreground-wait
iterations, polls and fg/bg builtins for several job configurations and checks the properties
against kernel truth; (G) TLC generates behaviours (random walks at larger bounds, every behaviour
at a tiny bound) with the kernel truth and the model's table recorded at every step; (A) each
behaviour is replayed on a real Shell through the injectable wait-status source: the real
insert_job / wait_fg_job / try_wait_bg_jobs / fg / bg run on the reports the behaviour delivers,
and after every call the real table is judged against the kernel truth (violations) and compared
with the model's table (drift)."""
import json
import random

from common import (Report, ToolError, check_action_coverage, inproc_map, log, run_tlc, std_main)

KIND = {"exited": 0, "signaled": 1, "stopped": 2, "continued": 3}
SETTLED = (0, 1, 2)
ENV_ACTS = ("idle", "kstop", "kcont", "kexit", "kkill")


def exit_code(p):
    return p % 5


def event_of(state, p):
    p = str(p)
    k = state["kst"][p]
    if k == "zombieX":
        return [int(p), 0, exit_code(int(p))]
    if k == "zombieK":
        return [int(p), 1, 9]
    r = state["krep"][p]
    if r == "stopped":
        return [int(p), 2, 19]
    if r == "continued":
        return [int(p), 3, 0]
    raise ToolError("model delivered a report for a child without one: %s %s" % (p, state))


def to_calls(hist):
    """group the steps of a behaviour into calls of the real code"""
    calls = []
    opened = None
    pending = None
    for idx, st in enumerate(hist):
        a = st["act"]
        name = a["a"]
        if name in ENV_ACTS:
            continue
        pre = hist[idx - 1] if idx > 0 else None
        if name == "launch":
            c = {"op": "launch", "gid": a["pids"][0], "pids": a["pids"], "bg": a["bg"], "reports": [], "ridx": [], "end": idx,
                 "modelid": a["id"], "done": a["bg"], "echild": False}
            calls.append(c)
            opened = None if a["bg"] else c
        elif name == "fgstep":
            if opened is None:
                raise ToolError("fgstep outside a foreground wait")
            opened["reports"].append(event_of(pre, a["p"]))
            opened["ridx"].append(idx)
            opened["end"] = idx
            if a["done"]:
                opened["done"] = True
                opened = None
        elif name == "fgpoll":
            # the wait's non-blocking poll found nothing pending: the wait ends
            opened["end"] = idx
            opened["done"] = True
            opened = None
        elif name == "fgechild":
            opened["end"] = idx
            opened["done"] = True
            opened["echild"] = True
            opened = None
        elif name == "poll":
            calls.append({"op": "poll", "reports": [event_of(pre, p) for p in sorted(a["R"])], "end": idx, "done": True})
        elif name == "builtin":
            pending = {"op": a["kind"], "id": a["id"], "pre": [event_of(pre, p) for p in sorted(a["R"])], "reports": [], "ridx": [],
                       "end": idx, "done": False, "echild": False, "pids": []}
        elif name == "resume":
            c = pending
            pending = None
            c["end"] = idx
            c["gone"] = a["gone"]
            calls.append(c)
            if a["kind"] == "fg" and not a["gone"]:
                c["pids"] = a["pids"]
                opened = c
            else:
                c["done"] = True
        else:
            raise ToolError("unknown action " + name)
    return calls


def reportable(state):
    out = []
    for p, k in state["kst"].items():
        if k in ("zombieX", "zombieK") or (k in ("running", "stopped") and state["krep"][p] != "none"):
            out.append(int(p))
    return out


def judge_walk(hist, calls, res):
    """returns (violation or None, drift count, stable points judged)"""
    if "panic" in res or "abort" in res or res.get("hang"):
        return ({"kind": "crash", "desc": "job-control code crashed or hung: %s" % {k: res[k] for k in res if k != "calls"}, "call": 0}, 0, 0)
    drift = 0
    stable = 0
    prev_ids = set()
    for ci, (c, r) in enumerate(zip(calls, res.get("calls", []))):
        if "panic" in r:
            return ({"kind": "crash", "desc": "panic in %s: %s" % (c["op"], r["panic"]), "call": ci}, drift, stable)
        model = hist[c["end"]]
        jobs = r["jobs"]
        # (3) ids
        if c["op"] == "launch":
            free = 1
            while free in prev_ids:
                free += 1
            if r["newid"] != free:
                return ({"kind": "job-id", "desc": "new job got id %s, smallest unused is %s" % (r["newid"], free), "call": ci}, drift, stable)
        gids = [j["gid"] for j in jobs.values()]
        if len(gids) != len(set(gids)):
            return ({"kind": "job-id", "desc": "two table entries for one job: %s" % jobs, "call": ci}, drift, stable)
        # (1) foreground waits
        is_wait = (c["op"] == "launch" and not c["bg"]) or (c["op"] == "fg" and not c.get("gone") and c.get("pids"))
        at_prompt = True
        if is_wait:
            npre = len(c.get("pre", []))
            used = max(0, r["consumed"] - npre)
            lastrep = {}
            for rp in c["reports"][:used]:
                lastrep[rp[0]] = rp
            fgp = c["pids"]
            all_settled = all(p in lastrep and lastrep[p][1] in SETTLED for p in fgp)
            if r["blocked"]:
                at_prompt = False
                if all_settled and not c["echild"]:
                    return ({"kind": "still-waiting", "call": ci,
                             "desc": "foreground wait still waits although every process of the job has exited or is stopped "
                                     "(reports consumed: %s)" % c["reports"][:used]}, drift, stable)
                if c["echild"]:
                    at_prompt = True
            else:
                if not all_settled:
                    return ({"kind": "returned-early", "call": ci,
                             "desc": "foreground wait returned while %s had not exited or stopped (reports consumed: %s)"
                                     % ([p for p in fgp if not (p in lastrep and lastrep[p][1] in SETTLED)], c["reports"][:used])},
                            drift, stable)
                lp = fgp[-1]
                if lp in lastrep and lastrep[lp][1] in (0, 1):
                    want = lastrep[lp][2] if lastrep[lp][1] == 0 else 128 + lastrep[lp][2]
                    if r["status"] != want:
                        return ({"kind": "wrong-status", "call": ci,
                                 "desc": "foreground wait returned status %s, the last process ended with %s" % (r["status"], want)},
                                drift, stable)
                if used < len(c["reports"]):
                    # the wait returned although reports were still queued.  Judged against the kernel's truth at the
                    # moment of the last report it read: a member it last saw stopped that was running again by then
                    # (its Continued report was already pending) has neither exited nor is it stopped
                    if 0 < used <= len(c.get("ridx", [])):
                        truth = hist[c["ridx"][used - 1]]["kst"]
                        stale = [p for p in fgp if lastrep[p][1] == 2 and truth[str(p)] == "running"]
                        if stale:
                            return ({"kind": "returned-early", "call": ci,
                                     "desc": "foreground wait returned on a stale stop report: %s had been continued and was running "
                                             "again, its Continued report was pending (reports consumed: %s, still queued: %s)"
                                             % (stale, c["reports"][:used], c["reports"][used:])}, drift, stable)
                    # returned on a prefix the property allows; the rest of the walk no longer lines up
                    return (None, drift + 1, stable)
        # (2) table against kernel truth at stable points
        listed = sorted(p for j in jobs.values() for p in j["pids"])
        parked = set(r["maps"][0]) | set(r["maps"][1]) | set(r["maps"][2]) | set(r["maps"][3])
        if at_prompt and not reportable(model) and not (parked & set(listed)):
            stable += 1
            live = sorted(int(p) for p, k in model["kst"].items() if k in ("running", "stopped"))
            if listed != live:
                return ({"kind": "table-vs-live", "call": ci,
                         "desc": "job table lists processes %s, live processes are %s" % (listed, live)}, drift, stable)
            for j in jobs.values():
                lp = [p for p in j["pids"]]
                allst = all(model["kst"][str(p)] == "stopped" for p in lp)
                if (j["status"] == "Stopped") != allst:
                    return ({"kind": "job-status", "call": ci,
                             "desc": "job %s shown %s, its live processes are %s" % (j["id"], j["status"],
                                     {p: model["kst"][str(p)] for p in lp})}, drift, stable)
        # (4) drift against the model's own table
        mj = {}
        for k, j in enumerate(model["jobs"]):
            if j.get("gid"):
                mj[str(k + 1)] = {"id": k + 1, "gid": j["gid"], "pids": j["pids"], "stp": sorted(j["stp"]),
                                  "status": j["status"], "bg": j["bg"]}
        mm = [sorted(model["reapm"]), sorted(model["stopm"]), sorted(model["contm"]), sorted(model["killm"])]
        pl = set(p for j in mj.values() for p in j["pids"])
        cm = [sorted(set(x) & pl) for x in r["maps"]]
        mm = [sorted(set(x) & pl) for x in mm]
        if mj != jobs or cm != mm:
            drift += 1
        prev_ids = {int(k) for k in jobs}
    return (None, drift, stable)


SIMS = {
    "quick": [("MCJobSim_b", 2000, 26), ("MCJobSim_e", 1500, 28), ("MCJobSim_d", 1500, 36), ("MCJobSim_c", 1500, 42)],
    "thorough": [("MCJobSim_b", 20000, 26), ("MCJobSim_e", 15000, 28), ("MCJobSim_d", 20000, 36), ("MCJobSim_c", 25000, 42)],
}
MCS = {
    "quick": ["MCJobControl_a", "MCJobControl_b"],
    "thorough": ["MCJobControl_a", "MCJobControl_b", "MCJobControl_a11", "MCJobControl_d", "MCJobControl_f", "MCJobControl_c"],
}


def runner(rep, tier, seed, replay):
    if replay:
        with open(replay) as f:
            c = json.load(f)["case"]
        res = inproc_map("jobs", [{"id": 0, "calls": c["calls"]}], jobs=1, timeout=30)[0]
        v, d, s = judge_walk(c["hist"], c["calls"], res)
        rep.cov["evaluations"] = 1
        if v:
            rep.violation(v["kind"], v["desc"], c, {"kind": v["kind"]})
        return rep.finish(rule="replay of one recorded behaviour")
    # (M) exhaustive model checking of the repaired design
    rn = run_tlc("MCJobControl", "MCJobControl_nodrain", coverage=False, timeout=600)
    if not rn.violation or "ReturnedWhenDue" not in rn.violation:
        raise ToolError("the 'nodrain' legacy switch (wait_fg_job returning on a stale stop report) is no longer refuted by "
                        "ReturnedWhenDue: the model lost its teeth")
    rep.add_tlc(rn)
    for cfg in MCS[tier]:
        r = run_tlc("MCJobControl", cfg, timeout=7200, xmx="24g")
        if r.violation:
            raise ToolError("the JobControl model violates C06 at the design level (%s):\n%s" % (cfg, r.violation[:3000]))
        check_action_coverage(r, ["Launch", "KStop", "KCont", "KExit", "KKill", "FgStep", "FgPollEmpty", "Poll", "Builtin", "Resume"])
        rep.add_tlc(r)
        log("[C06] %s: %d distinct states, %d transitions, %.0fs" % (cfg, r.distinct, r.generated, r.wall))
    # (G)+(A) generated behaviours replayed through the fake kernel
    total = viol = 0
    drift = stable = 0
    actions_seen = set()
    distinct = set()
    for cfg, num, depth in SIMS[tier]:
        walks = []
        rs = run_tlc("MCJobSim", cfg, workers=1, simulate=num, depth=depth, seed=seed, coverage=False,
                     on_replay=walks.append, keep_replays=False, timeout=3000)
        if rs.violation:
            raise ToolError("model violation during generation:\n" + rs.violation[:2000])
        rep.add_tlc(rs)
        cases = []
        for i, h in enumerate(walks):
            calls = to_calls(h)
            cases.append({"id": i, "calls": calls})
        results = inproc_map("jobs", cases, timeout=30)
        for h, c, res in zip(walks, cases, results):
            total += 1
            if res is None or "tool_error" in res:
                raise ToolError("replay worker: %s" % res)
            v, d, s = judge_walk(h, c["calls"], res)
            drift += d
            stable += s
            key = tuple((st["act"]["a"], st["act"].get("p"), st["act"].get("e")) for st in h if st["act"]["a"] not in ("idle",))
            distinct.add((cfg, key))
            for st in h:
                actions_seen.add(st["act"]["a"])
            if v:
                viol += 1
                acts = [st["act"] for st in h[:c["calls"][v["call"]]["end"] + 1] if st["act"]["a"] != "idle"] if c["calls"] else []
                rep.violation(v["kind"], v["desc"] + " | behaviour: " + json.dumps(acts)[:900],
                              {"hist": h, "calls": c["calls"], "result": res, "cfg": cfg}, {"kind": v["kind"], "cfg": cfg})
            elif total % 701 == 1:
                rep.sample({"cfg": cfg, "actions": [st["act"] for st in h if st["act"]["a"] != "idle"][:14]})
        log("[C06] %s: %d behaviours replayed (violations so far %d, drift %d, stable points %d)" % (cfg, len(walks), viol, drift, stable))
    rep.cov["evaluations"] = total
    rep.cov["distinct_nontrivial"] = len(distinct)
    rep.cov["traces_validated_against_impl"] = total
    rep.cov["spec_drift"] = drift
    rep.cov["stable_points_judged"] = stable
    rep.cov["actions_replayed"] = sorted(actions_seen)
    rep.assumptions += ["wait-status reports are injected through the cfg(cicada_verif) hook in jobc::waitpidx / signals::handle_sigchld; "
                        "the real launch path (fork, setpgid, insert_job order) is covered by C07's pty sessions",
                        "the kernel model (report coalescing, SIGCONT semantics) was measured against Linux in the design phase",
                        "pids are fake (11..33), deliberately not monotonic"]
    return rep.finish(rule="behaviours generated by TLC from spec/JobControl.tla (random walks per configuration; configurations: 2 jobs 2+1, "
                           "1 job of 3, 2 jobs 2+2, 3 jobs 2+1+3; events stop/cont/exit/kill, polls, fg/bg); non-trivial = contains at "
                           "least one report consumed by the real code; distinct by action sequence")


def main():
    std_main("C06", runner)
