"""C08 - running commands never leaks file descriptors, in the shell or into children.
Spec: spec/TraceFds.tla (Kernel descriptor tables with the invariants ExecFds and ShellFdsRestored),
spec/Pipeline.tla (design-level model of run_pipeline's descriptor discipline, incl. pipe-creation
faults).  (M) TLC checks the pipeline model; (B) generated command sessions run under
`strace -ff`, every descriptor-affecting system call is replayed on the Kernel model and both
invariants are evaluated at every execve and at every marker between commands; independent
cross-check: the vfds helper reports what it really inherited.  Faults: every RLIMIT_NOFILE value
4..40 before a pipeline (fault enumeration)."""
import json
import os
import random
import shutil
import subprocess
from concurrent.futures import ThreadPoolExecutor

from common import (CICADA, HELPERS, NCPU, Report, ToolError, base_env, check_action_coverage, log, new_scratch,
                    read_log, run_tlc, std_main)
import strace2json
import tracecheck


def stage(rnd, pos, n):
    if pos == 0:
        return rnd.choice(["vst p%d mode=prod,n=%d" % (rnd.randint(0, 99), rnd.choice([0, 10, 70000])), "alias",
                           "vio i%d" % rnd.randint(0, 99), "nosuchcmd", "vout 1"])
    if pos == n - 1:
        return rnd.choice(["vst c mode=cons", "vst c mode=cons,early=1", "vfds L", "vst c mode=cons,exit=3", "vio z r"])
    return rnd.choice(["vst f mode=filt", "vfds M", "vst f mode=filt,early=5", "nosuchcmd"])


REDIRS = ["> f1", ">> f1", "2> f2", "2>> f2", "2>&1", "1>&2", "> f1 2>&1", "2>&1 > f1", "> /nonexistent/x", ">&2",
          "1> f3 2> f3",
          # the same stream redirected twice in one command (file then file, file then descriptor, descriptor then file)
          "> f1 > f3", "> f1 1>&2", ">> f1 >&2", "2> f2 2>&1", "2> f2 2> f3", "1>&2 > f1", "2>&1 2>> f2"]


def gen_command(rnd):
    k = rnd.random()
    if k < 0.30:
        n = rnd.randint(1, 6)
        parts = [stage(rnd, i, n) if n > 1 else rnd.choice(["vio s", "vfds S", "vst s mode=none"]) for i in range(n)]
        if rnd.random() < 0.4:
            i = rnd.randrange(n)
            parts[i] += " " + rnd.choice(REDIRS)
        return " | ".join(parts)
    if k < 0.45:
        return rnd.choice(["vio r", "vfds R", "alias", "alias nosuch", "jobs", "cd .", "export A=1", "history", "minfd",
                           "unset A", "alias x=y", "ulimit -n"]) + " " + rnd.choice(REDIRS)
    if k < 0.60:
        inner = rnd.choice(["vout 1", "alias", "vout 1 | vst f mode=filt", "f1", "nosuchcmd", "vfds C", "vio c", "minfd",
                            "vfds C > f3", "vfds C 2> f3", "vfds C >> f1 2>&1", "vio c | vfds C > f3", "alias > f3", "vfds C < f1"])
        return rnd.choice(["vpa $(%s)", "vpa `%s`", "B=$(%s)", "vpa x$(%s)y \"$(%s)\"".replace("%s", "%s", 1)]).replace("%s", inner)
    if k < 0.70:
        return rnd.choice(["vio h r <<< hello", "vfds H <<< x", "vio h r < f1", "vio h r < nofile", "vst c mode=cons <<< data",
                           "read V <<< word", "vio p | read V <<< foo | vst c mode=cons", "vio p | vfds H <<< x | vst c mode=cons",
                           "alias <<< x | vio q r", "vio p | vio q r <<< mid", "vst p mode=prod,n=10 | read V <<< w"])
    if k < 0.80:
        return rnd.choice(["nosuchcmd", "vmk 7 3", "nosuchcmd a | vst c mode=cons", "vio q > /nonexistent/y", "/nonexistent/prog"])
    if k < 0.88:
        return rnd.choice(["vst b mode=none &", "vst b mode=prod,n=10 | vst c mode=cons &", "vfds B &"])
    if k < 0.94:
        return rnd.choice(["f1", "f1 a b | vst c mode=cons", "vio a && vio b || vio c ; vfds D"])
    return rnd.choice(["1 + 2", "cd /tmp", "cd nosuchdir", "vpa *", "vpa {a,b}", "A=1 vfds E", "minfd", "vpa ~"])


def gen_session(rnd, ncmd):
    lines = ["function f1() {", "    vio fn", "    vfds F", "}", "vmk 0 0"]
    for i in range(ncmd):
        lines.append(gen_command(rnd))
        lines.append("vmk %d 0" % (i + 1))
    return "\n".join(lines) + "\n"


def run_traced(script, tag):
    d = new_scratch()
    try:
        sp = os.path.join(d, "vh", "s.sh")
        with open(sp, "w") as f:
            f.write(script)
        with open(os.path.join(d, "vh", "out.1"), "w") as f:
            f.write("hello\n")
        with open(os.path.join(d, "cwd", "f1"), "w") as f:
            f.write("content\n")
        env = base_env(d)
        prefix = os.path.join(d, "vh", "st")
        cmd = ["strace", "-ff", "-o", prefix, "-e", "trace=" + strace2json.TRACE_SET, "-e", "signal=none", CICADA, sp]
        try:
            p = subprocess.run(cmd, cwd=os.path.join(d, "cwd"), env=env, stdin=subprocess.DEVNULL, stdout=subprocess.PIPE,
                               stderr=subprocess.PIPE, timeout=120, start_new_session=True)
        except subprocess.TimeoutExpired:
            return {"timeout": True, "script": script}
        recs, info = strace2json.convert(prefix)
        logrecs = read_log(d)
        return {"records": recs, "info": info, "status": p.returncode, "log": logrecs, "script": script,
                "stderr": p.stderr.decode("utf-8", "replace")[-2000:]}
    finally:
        subprocess.run(["pkill", "-KILL", "-f", d + "/"], stderr=subprocess.DEVNULL)
        shutil.rmtree(d, ignore_errors=True)


def check_fds_helper(rep, run):
    """independent cross-check: what vfds / other helpers really inherited"""
    bad = 0
    for r in run["log"]:
        fds = r.get("fds")
        if fds is not None and sorted(fds) != [0, 1, 2]:
            bad += 1
            rep.violation("helper-inherited/%s" % r.get("h"), "helper %s started with descriptors %s (targets %s)"
                          % (r.get("h"), fds, r.get("targets")), {"script": run["script"], "record": r}, {"kind": "inherited"})
    return bad


def runner(rep, tier, seed, replay):
    rnd = random.Random(seed)
    if replay:
        with open(replay) as f:
            c = json.load(f)["case"]
        run = run_traced(c["script"], "replay")
        ok, ln, text, res = tracecheck.validate("TraceFds", "TraceFds", run["records"])
        rep.cov["evaluations"] = 1
        if not ok:
            rep.violation("replay", text[:300], {"script": c["script"]}, {})
        check_fds_helper(rep, run)
        return rep.finish(rule="replay of one recorded session")
    # (M) design-level model of the pipeline's descriptor discipline
    for cfg in (["MCPipeline_3", "MCPipeline_f3", "MCPipeline_here"] if tier == "quick"
                else ["MCPipeline_3", "MCPipeline_4", "MCPipeline_f3", "MCPipeline_f4", "MCPipeline_cap", "MCPipeline_capE2", "MCPipeline_here",
                      "MCPipeline_here1", "MCPipeline_hereE"]):
        r = run_tlc("MCPipeline", cfg, timeout=3000)
        if r.violation:
            raise ToolError("Pipeline model violates a descriptor invariant (%s):\n%s" % (cfg, r.violation[:2500]))
        rep.add_tlc(r)
    # a captured stage that redirects its stdout itself: with the capture pipes closed only where they are dup2()ed (core.rs as
    # pinned) the program starts with both ends of the stdout capture pipe open - negative control
    rr = run_tlc("MCPipeline", "MCPipeline_capR", timeout=3000)
    if rr.violation:
        raise ToolError("Pipeline model (redirected captured stage) violates a descriptor invariant:\n" + rr.violation[:2000])
    rep.add_tlc(rr)
    rl = run_tlc("MCPipeline", "MCPipeline_capR_legacy", coverage=False)
    rep.add_tlc(rl)
    if not rl.violation or "ExecFds" not in rl.violation:
        raise ToolError("negative control failed: closing a capture pipe only where it is dup2()ed satisfies ExecFds")
    # a pipe that cannot be made after the pipeline's own pipes exist (capture pipes, here-string pipe of a later stage): the
    # repaired code closes everything and waits for what already runs; core.rs as pinned returned with the pipes open - negative control
    for cfg in ("MCPipeline_lateH", "MCPipeline_lateH2", "MCPipeline_lateC", "MCPipeline_lateC2"):
        rt = run_tlc("MCPipeline", cfg, timeout=3000, coverage=False)
        if rt.violation:
            raise ToolError("Pipeline model (late pipe failure, %s) violates a descriptor invariant:\n%s" % (cfg, rt.violation[:2000]))
        rep.add_tlc(rt)
    for cfg in ("MCPipeline_lateH_leak", "MCPipeline_lateC_leak"):
        rk = run_tlc("MCPipeline", cfg, coverage=False)
        rep.add_tlc(rk)
        if not rk.violation or "ShellFdsRestored" not in rk.violation:
            raise ToolError("negative control failed: returning with the pipeline's pipes open (%s) satisfies ShellFdsRestored" % cfg)
    nsess = 14 if tier == "quick" else 300
    scripts = [gen_session(random.Random(rnd.randrange(1 << 30)), rnd.randint(1, 30)) for _ in range(nsess)]
    # fault enumeration: every RLIMIT_NOFILE value before a pipeline
    limits = list(range(4, 41)) if tier == "thorough" else list(range(4, 15)) + [20, 40]
    shapes = ["vst p mode=prod,n=10 | vst c mode=cons", "vst p mode=prod,n=10 | vst f mode=filt | vst f mode=filt | vst c mode=cons",
              "vpa $(vout 1)", "vio h r <<< hi", "vst p mode=prod,n=10 | vst f mode=filt | vst f mode=filt | vst f mode=filt | vst f mode=filt | vst c mode=cons",
              "vio a > f9 2>&1 | vst c mode=cons"]
    # the pipes made while the pipeline is already being started: the here-string pipe of a later stage, the capture pipes of a
    # substituted pipeline
    late = ["vio a | vio h r <<< hi", "vpa $(vout 1 | vio c r)", "vio a | vio b r | vio h r <<< hi | vio d r", "X=$(vio a | vio h r <<< hi)"]
    if tier == "quick":
        shapes = shapes[:3] + late[:2]
    else:
        shapes += late
    faults = []
    for n in limits:
        for sh in shapes:
            faults.append((n, sh, "vmk 0 0\nulimit -n %d\n%s\nS=$?\nulimit -n 256\nvmk 2 $S\nvmk 3 0\n" % (n, sh)))
    with ThreadPoolExecutor(max_workers=max(4, NCPU // 2)) as ex:
        runs = list(ex.map(lambda s: run_traced(s, "s"), scripts))
        fruns = list(ex.map(lambda f: run_traced(f[2], "f"), faults))
    execs = markers = 0
    ok_runs = []
    for run in runs + fruns:
        if run.get("timeout"):
            rep.violation("hang", "session did not finish", {"script": run["script"]}, {"kind": "hang"})
            continue
        execs += run["info"]["execs"]
        markers += run["info"]["markers"]
        ok_runs.append(run)
    # validate in batches (reset records between sessions)
    def hdr(r):
        return {"e": "reset"}

    def evs(r):
        return r["records"]

    def describe(r, pos, text):
        ev = r["records"][pos - 2] if 2 <= pos <= len(r["records"]) + 1 else None
        kind = "exec-fds" if "ExecFds" in text else ("shell-fds" if "ShellFdsRestored" in text else "unexplained")
        rep.violation(kind, "descriptor invariant %s fails at %s in session:\n%s" % (kind, ev, r["script"][:1500]),
                      {"script": r["script"], "event": ev, "tlc": text[:800]}, {"kind": kind})
    acc = 0
    B = 25
    for i in range(0, len(ok_runs), B):
        a, rej = tracecheck.validate_runs("TraceFds", "TraceFds", ok_runs[i:i + B], hdr, evs, rep, describe)
        acc += a
    helper_bad = sum(check_fds_helper(rep, r) for r in ok_runs)
    # fault outcomes: the pipeline fails cleanly or ran; the following markers ran; shell keeps working
    nf = 0
    for (n, sh, script), run in zip(faults, fruns):
        if run.get("timeout"):
            continue
        nf += 1
        mk = [r for r in run["log"] if r.get("h") == "mk"]
        ids = [r.get("id") for r in mk]
        if ids[-1:] != ["3"] or "2" not in ids:
            rep.violation("fault-shell-dead", "after `ulimit -n %d` and `%s` the shell did not run the following commands (markers %s, stderr %s)"
                          % (n, sh, ids, run["stderr"][-300:]), {"script": script}, {"kind": "fault", "limit": n})
    rep.cov["evaluations"] = len(runs) + len(fruns)
    rep.cov["distinct_nontrivial"] = len(set(scripts)) + len(faults)
    rep.cov["traces_validated_against_impl"] = acc
    rep.cov["execve_checked"] = execs
    rep.cov["markers_checked"] = markers
    rep.cov["fault_cases"] = nf
    rep.cov["rlimit_values"] = limits
    rep.cov["helper_inheritance_mismatches"] = helper_bad
    rep.sample({"session": scripts[0][:600]})
    rep.sample({"fault": faults[0][2]})
    rep.assumptions += ["strace decodes descriptor-affecting system calls correctly; an fd-producing call the converter does not know stops the check",
                        "sessions run as a script (non-interactive entry); the interactive path is covered by C07's sessions",
                        "per-process order of system calls plus the clone return value is all the descriptor replay relies on"]
    return rep.finish(rule="random command sessions (1..30 commands: pipelines of 1..6 stages, every redirection form, builtins with "
                           "redirection, substitutions, here-strings, failing / not-found commands, background jobs, functions) under "
                           "strace; plus every listed RLIMIT_NOFILE value x pipeline shapes; non-trivial = every session; distinct by text",)


def main():
    std_main("C08", runner, level="model_checking")
