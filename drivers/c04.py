"""C04 - redirections connect exactly the named descriptors to the named files.
Spec: spec/Redirect.tla (descriptor-table semantics as a left-to-right fold), spec/MCRedirect.tla
(every command with up to MaxR redirections x command kind x pipeline position, with the outcome
the reference prescribes).  (M) TLC checks theorems of the reference (conservation, no-redirection
touches nothing, left-to-right); (G) every behaviour is a replay case; (A) each case is rendered
(random spelling: attached / spaced, 1> / >, >&2 / 1>&2), run by the real binary in a scratch
directory with the vio helper (writes one line to fd 1 and one to fd 2, logs its stdin) and judged
by file contents, the captured stdout / stderr of the whole line, what the next stage read, whether
the command ran, and $? -- followed by a second command that checks nothing leaked."""
import json
import random

import structure
from common import Report, ToolError, check_action_coverage, log, run_cases, run_tlc, stable_hash, std_main

BAD = "/nonexistent-dir/x"


def spell(r, rnd):
    k = r["k"]
    sp = rnd.choice(["", " "])
    if k == "out":
        op = (">>" if r["app"] else ">")
        return rnd.choice(["", "1"]) + op + sp + (BAD if r["f"] == "bad" else r["f"])
    if k == "err":
        return "2" + (">>" if r["app"] else ">") + sp + (BAD if r["f"] == "bad" else r["f"])
    if k == "dup21":
        return "2>&1"
    if k == "dup12":
        return rnd.choice(["1>&2", ">&2"])
    if k == "in":
        return "<" + sp + r["f"]
    if k == "here":
        return "<<<" + sp + "word"
    raise ToolError("unknown redirection " + k)


def render(c, rnd):
    reads = c["stdin"] in ("HERE", "f1", "PIPE") and c["kind"] == "ext"
    if c["kind"] == "ext":
        cmd = "vio A" + (" r" if reads else "")
    elif c["kind"] == "bout":
        cmd = "alias"
    else:
        cmd = "alias nosuch"
    # several input redirections on one command: every `<` after the first names another file with other content, every `<<<`
    # another word - the last one applied is the command's stdin
    reds = []
    nin = nhere = 0
    c["_stdin_text"] = None
    for r in c["rs"]:
        if r["k"] == "in" and r.get("f") == "f1":
            nin += 1
            name = "f1" if nin % 2 == 1 else "f1b"
            reds.append("<" + rnd.choice(["", " "]) + name)
            c["_stdin_text"] = {"f1": "old\n", "f1b": "old2\n"}[name]
        elif r["k"] == "here":
            nhere += 1
            w = "word" if nhere == 1 else "word%d" % nhere
            reds.append("<<<" + rnd.choice(["", " "]) + w)
            c["_stdin_text"] = w + "\n"
        else:
            reds.append(spell(r, rnd))
    c["_attached_in"] = any(x.startswith("<") and " " not in x for x in reds)
    full = " ".join([cmd] + reds)
    # further stages in front (they neither read nor are read: `vio Q`), so that the redirected command also is the third or
    # fourth stage of its pipeline
    c["_pad"] = rnd.choice([0, 0, 1, 2]) if c["pos"] in ("middle", "last") else 0
    if c["pos"] == "first":
        full = full + " | vio N r"
    elif c["pos"] == "last":
        full = "vio Q | " * c["_pad"] + "vio P | " + full
    elif c["pos"] == "middle":
        full = "vio Q | " * c["_pad"] + "vio P | " + full + " | vio N r"
    pre = "alias zz=vq ; " if c["kind"] == "bout" else ""
    return pre + full + " ; vmk 9 0 $? ; vio Z"


def text_of(tok, c, ref):
    if tok == "old":
        return "old\n"
    if c["kind"] == "ext":
        return "o:A\n" if tok == "o" else "e:A\n"
    return ref["bout"] if tok == "o" else ref["berr"]


def judge(rep, c, line, res, ref):
    feat = {"kind": c["kind"], "pos": c["pos"], "ops": [r["k"] for r in c["rs"]], "ran": c["ran"],
            "targets": sorted({r.get("f", "") for r in c["rs"]}),
            "builtin_only": c["kind"] != "ext" and c["pos"] == "only", "attached_in": c.get("_attached_in", False),
            # an input redirection whose file is missing, followed by another input redirection on the same command
            "superseded_missing_input": any(r["k"] == "in" and r.get("f") == "nofile" and any(q["k"] in ("in", "here") for q in c["rs"][i + 1:])
                                            for i, r in enumerate(c["rs"]))}
    case = {"case": c, "text": line, "got": {k: res.get(k) for k in ("status", "stdout", "stderr", "files")},
            "log": res.get("log")}

    def bad(kind, desc):
        feat["fail"] = kind
        return rep.violation("%s/%s/%s/%s" % (kind, c["kind"], c["pos"], "ran" if c["ran"] else "open-fails"), "`%s`: %s" % (line, desc), case, feat)
    if res.get("timed_out"):
        return bad("hang", "did not finish")
    logs = res.get("log", [])
    a = [r for r in logs if r.get("h") == "io" and r.get("tag") == "A"]
    z = [r for r in logs if r.get("h") == "io" and r.get("tag") == "Z"]
    mk = [r for r in logs if r.get("h") == "mk" and r.get("id") == "9"]
    if len(z) != 1 or len(mk) != 1:
        return bad("later-commands", "the commands after it did not run exactly once (Z %d, marker %d)" % (len(z), len(mk)))
    if c["kind"] == "ext":
        if c["ran"] and len(a) != 1:
            return bad("not-run", "the command should have run once, ran %d times" % len(a))
        if not c["ran"] and a:
            return bad("ran-despite-failed-open", "a redirection target cannot be opened but the command ran")
        if c["ran"] and c["stdin"] in ("HERE", "f1", "PIPE"):
            want = {"HERE": c.get("_stdin_text") or "word\n", "f1": c.get("_stdin_text") or "old\n", "PIPE": "o:P\n"}[c["stdin"]]
            if a[0].get("stdin") != want:
                return bad("stdin", "stdin was %r, expected %r" % (a[0].get("stdin"), want))
    # status
    st = mk[0]["argv"][0] if mk[0].get("argv") else None
    if c["pos"] in ("only", "last"):
        if c["ran"]:
            want = "1" if c["kind"] == "berr" else "0"
            if st != want:
                return bad("status", "$? after it was %s, expected %s" % (st, want))
        elif st == "0":
            return bad("status", "a redirection target cannot be opened but $? is 0")
    # files
    files = res.get("files", {})
    for f in ("f1", "f2"):
        exp = c["files"][f]
        got = files.get(f)
        init = "old\n" if f == "f1" else None
        if c["ran"]:
            want = None if exp == "absent" else "".join(text_of(t, c, ref) for t in exp)
            if got != want:
                return bad("file-content", "%s contains %r, expected %r" % (f, got, want))
        else:
            ok = [init]
            if f in c["touched"]:
                ok += ["", init or ""]
            if got is not None and f in c["touched"]:
                # the shell's own diagnostic about the failed open may be written to an already redirected stderr
                got = "".join(ln for ln in got.splitlines(True) if not ln.startswith("cicada: "))
            if got not in ok:
                return bad("file-content", "%s contains %r although the command did not run (allowed %r)" % (f, got, ok))
    extra = sorted(k for k in files if k not in ("f1", "f2", "f1b"))
    if extra:
        return bad("stray-file", "unexpected files created: %s" % extra)
    # streams of the whole line (stages of one pipeline may interleave: compare as sorted lines)
    out_exp = [text_of(t, c, ref) for t in c["out"]]
    err_exp = [text_of(t, c, ref) for t in c["err"]]
    pipe_exp = "".join(text_of(t, c, ref) for t in c["pipe"])
    if c["pos"] in ("first", "middle"):
        out_exp.append("o:N\n")
        err_exp.append("e:N\n")
        n = [r for r in logs if r.get("h") == "io" and r.get("tag") == "N"]
        if len(n) != 1:
            return bad("neighbour", "the next stage ran %d times" % len(n))
        nin = n[0].get("stdin")
        if not c["ran"] and isinstance(nin, str):
            nin = "".join(ln for ln in nin.splitlines(True) if not ln.startswith("cicada: "))
        if nin != pipe_exp:
            return bad("pipe-content", "the next stage read %r, expected %r" % (n[0].get("stdin"), pipe_exp))
    if c["pos"] in ("last", "middle"):
        err_exp.append("e:P\n")
        err_exp += ["e:Q\n"] * c.get("_pad", 0)
        if not (c["kind"] == "ext" and c["ran"] and c["stdin"] == "PIPE"):
            pass  # P's stdout goes into the pipe and is not read by a builtin / redirected stdin: lost, as in any shell
    out_exp.append("o:Z\n")
    err_exp.append("e:Z\n")
    # The stages of one pipeline and the shell itself write to the same stream concurrently and not line-atomically (a diagnostic
    # of the shell can be split around a helper's line), so streams are compared as multisets of characters; where a diagnostic
    # of the shell is expected (failed open) only the helpers' own lines - each written with one write(2) - are required.
    def chars_of(parts):
        return sorted("".join(parts))
    so, se = res.get("stdout", ""), res.get("stderr", "")
    if c["ran"]:
        if chars_of([so]) != chars_of(out_exp):
            return bad("stdout", "stdout of the line was %r, expected lines %r" % (so, out_exp))
        se_clean = "".join(ln for ln in se.splitlines(True) if not ln.startswith("cicada:") or ln in err_exp)
        if chars_of([se_clean]) != chars_of(err_exp) and chars_of([se]) != chars_of(err_exp):
            return bad("stderr", "stderr of the line was %r, expected lines %r" % (se, err_exp))
    else:
        for stream, name, exp in ((so, "stdout", out_exp), (se, "stderr", err_exp)):
            mark = "o:" if name == "stdout" else "e:"
            for ln in exp:
                if stream.count(ln) < exp.count(ln):
                    return bad(name, "%s of the line was %r, expected to contain %r" % (name, stream, ln))
            helper_lines = [x for x in exp if x.startswith(mark)]
            import re as _re
            if len(_re.findall(_re.escape(mark) + r"[A-Z]\n", stream)) != len(helper_lines):
                return bad(name, "%s of the line was %r, expected exactly the helper lines %r (plus a diagnostic)" % (name, stream, helper_lines))
    return False


def reference_texts():
    rs = run_cases([{"entry": "c", "text": "alias zz=vq ; alias"}, {"entry": "c", "text": "alias nosuch"}])
    bout, berr = rs[0]["stdout"], rs[1]["stderr"]
    if not bout or not berr or rs[0]["stderr"] or rs[1]["stdout"]:
        raise ToolError("cannot establish the builtin's reference output: %r" % rs)
    return {"bout": bout, "berr": berr}


def runner(rep, tier, seed, replay):
    ref = reference_texts()
    if replay:
        with open(replay) as f:
            c = json.load(f)["case"]
        res = run_cases([{"entry": "c", "text": c["text"], "files": {"f1": "old\n", "f1b": "old2\n"}, "timeout": 20}])[0]
        judge(rep, c["case"], c["text"], res, ref)
        rep.cov["evaluations"] = 1
        return rep.finish(rule="replay of one recorded case")
    cases = []
    r = run_tlc("MCRedirect", "MCRedirect_q" if tier == "quick" else "MCRedirect_t", on_replay=cases.append,
                keep_replays=False, timeout=1800)
    if r.violation:
        raise ToolError("reference semantics of redirections violates its own theorem:\n" + r.violation[:2000])
    check_action_coverage(r, ["Add", "Finish"])
    rep.add_tlc(r)
    sim = []
    rs = run_tlc("MCRedirect", "MCRedirect_sim", simulate=150 if tier == "quick" else 5000, depth=8, seed=seed, workers=1,
                 coverage=False, on_replay=sim.append, keep_replays=False, timeout=1800)
    rep.add_tlc(rs)
    cases += [c for c in sim if len(c["rs"]) == 4]
    log("[C04] %d cases from TLC" % len(cases))
    lines = [render(c, random.Random(stable_hash(json.dumps(c, sort_keys=True)) ^ seed)) for c in cases]
    # the same lines as the head of `if` / `else if` / `while` (separate code path: scripting.rs::run_exp_test_br)
    structure.check_heads(rep, [{"entry": "c", "text": ln, "files": {"f1": "old\n", "f1b": "old2\n"}} for ln in lines], random.Random(seed), 150 if tier == "quick" else 1500, "C04")
    results = run_cases([{"entry": "c", "text": ln, "files": {"f1": "old\n", "f1b": "old2\n"}, "timeout": 20} for ln in lines])
    distinct = set()
    for c, ln, res in zip(cases, lines, results):
        if "tool_error" in res:
            raise ToolError(res["tool_error"])
        rep.cov["evaluations"] += 1
        if c["rs"]:
            distinct.add(ln)
        judge(rep, c, ln, res, ref)
        if rep.cov["evaluations"] % 397 == 1:
            rep.sample({"line": ln, "expected": {k: c[k] for k in ("ran", "out", "err", "pipe", "files")}})
    # ---- the redirection parser itself: spec/RedirParse.tla is tokens_to_redirections transcribed statement by statement; every
    # list of <= 2 (thorough 3) tokens (quoted / unquoted) with words of <= 3 characters over {a, 1, 3, >, &} must be parsed by the
    # real function exactly as by the transcription (conformance: drift is reported); TLC checks three sanity theorems on it
    from common import inproc_map
    pcases = []
    rp = run_tlc("MCRedirParse", "MCRedirParse_q" if tier == "quick" else "MCRedirParse_t", on_replay=pcases.append, keep_replays=False,
                 timeout=3000, xmx="16g")
    if rp.violation:
        raise ToolError("the transcription of tokens_to_redirections violates a sanity theorem:\n" + rp.violation[:2000])
    rep.add_tlc(rp)
    if tier == "thorough" and len(pcases) > 400000:
        pcases = random.Random(seed).sample(pcases, 400000)
    pgot = inproc_map("redirparse", [{"id": i, "tokens": c["tokens"]} for i, c in enumerate(pcases)], timeout=20)

    def same(c, g):
        if not g or bool(g.get("ok")) != bool(c["ok"]):
            return False
        if not c["ok"]:
            return g.get("err") == c["err"]
        return g.get("out") == [list(x) for x in c["out"]] and g.get("redirs") == [list(x) for x in c["redirs"]]
    pdrift = [c["tokens"] for c, g in zip(pcases, pgot) if not same(c, g)]
    if pdrift:
        log("[C04] redirection-parser transcription drift on %d token lists, e.g. %r" % (len(pdrift), pdrift[:3]))
    rep.cov["redirparse_cases"] = len(pcases)
    rep.cov["redirparse_drift"] = len(pdrift)
    rep.cov["redirparse_drift_examples"] = pdrift[:10]
    rep.cov["spec_drift"] = len(pdrift)
    rep.cov["distinct_nontrivial"] = len(distinct)
    rep.cov["traces_validated_against_impl"] = rep.cov["evaluations"]
    rep.cov["exhaustive"] = True
    rep.assumptions += ["vio writes one line to fd 1 then one to fd 2 with single write(2) calls",
                        "a file is opened at most once per generated command (two opens of one file give order-dependent contents)",
                        "the builtin's own text is taken from a reference run without redirection"]
    return rep.finish(rule="every command with <= %d redirections from {>, >>, 2>, 2>>, 2>&1, 1>&2, <, <<<} over targets f1 (present), f2 "
                           "(absent), an unopenable path, x {external, builtin writing stdout, builtin writing stderr} x {only, first, last "
                           "stage}, enumerated by TLC from spec/MCRedirect.tla (+ TLC-simulated commands with 4 redirections); "
                           "non-trivial = at least one redirection; distinct by line" % (2 if tier == "quick" else 3))


def main():
    std_main("C04", runner)
