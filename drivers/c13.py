"""C13 - results of expansions are data and are never re-read as shell syntax.
Spec: spec/MCNoRescan.tla over spec/ShellLex.tla's tagged characters (produced text is tagged
"exp"; operators are recognised only on "bare" characters).  (M) TLC checks NoRescan on the
reference composition; (G) payload x delivery ($N, ${N}, $(..), backquotes, a `*` match) x quoting x
argument position is enumerated; (A) every case runs on the real binary in a scratch directory;
oracle: the helper ran exactly once, in the foreground, with the payload as argument text (one
argument inside double quotes), no marker command ran, no file was created or read."""
import json
import random

import structure
from common import Report, ToolError, chars, check_action_coverage, log, run_cases, run_tlc, stable_hash, std_main


def render(c):
    pay = chars(c["pay"])
    d = c["del"]
    files, vh, env = {}, {}, {}
    if d in ("assignvar", "assignsub", "assignbq"):
        # the produced text is the value of an assignment word: it is assigned whole, whatever characters it holds
        if d == "assignvar":
            env, rhs = {"PV": pay}, "$PV"
        elif d == "assignsub":
            vh, rhs = {"out.1": pay + "\n"}, "k$(vout 1)"
        else:
            vh, rhs = {"out.1": pay + "\n"}, "`vout 1`"
        return "X=%s ; vpa L \"$X\" R ; vpa probe" % rhs, ["L"], ["R"], files, vh, env
    if d == "var":
        word, env = "$PV", {"PV": pay}
    elif d == "bvar":
        word, env = "${PV}", {"PV": pay}
    elif d == "nestbq":
        # one kind of substitution nested in the command of the other kind: the inner output is data of the outer command
        word, vh = "`echo $(vout 1)`", {"out.1": pay + "\n"}
    elif d == "nestds":
        word, vh = "$(echo `vout 1`)", {"out.1": pay + "\n"}
    elif d == "envsub":
        # the value reaches the word through a reference INSIDE the command of an embedded substitution: it is data of that command
        word, env = "z$(echo $PV)", {"PV": pay}
    elif d == "envbq":
        word, env = "z`echo ${PV}`", {"PV": pay}
    elif d == "dsub":
        word, vh = "$(vout 1)", {"out.1": pay + "\n"}
    elif d == "bqsub":
        word, vh = "`vout 1`", {"out.1": pay + "\n"}
    elif d == "var2":
        word, env = "$PV$PQ", {"PV": pay, "PQ": "z"}
    elif d == "var2r":
        word, env = "${PQ}$PV", {"PV": pay, "PQ": "z"}
    elif d == "dsub2":
        word, vh, env = "$(vout 1)$PQ", {"out.1": pay + "\n"}, {"PQ": "z"}
    elif d == "glob2":
        word, files = "*", {"!a": "", pay: "", "~z": ""}     # sorted: !a < payload < ~z for every payload of the model
    else:
        word, files = "*", {pay: ""}
    word = c.get("pre", "") + word      # literal text in front, in the same word (`k=$PV` is an argument, not an assignment)
    if c["q"] == "dq":
        word = '"%s"' % word
    if c["pos"] == "first":
        line, b, a = "vpa %s R" % word, [], ["R"]
    elif c["pos"] == "middle":
        line, b, a = "vpa L %s R" % word, ["L"], ["R"]
    else:
        line, b, a = "vpa L %s" % word, ["L"], []
    if c.get("pair") is not None:
        # second payload through a substitution, in its own double-quoted word right after the first
        line = line.replace(" R", ' "$(vout 1)" R', 1) if " R" in line else line + ' "$(vout 1)"'
        vh = dict(vh, **{"out.1": chars(c["pair"]) + "\n"})
        a = [chars(c["pair"])] + a
    if c.get("kv"):
        # assignment-shaped words as later arguments of the same command (they are arguments, and the produced word is still protected)
        line += " k=1 j=2"
        a = a + ["k=1", "j=2"]
    if c.get("realin"):
        # the command also has a real input redirection typed by the user: the produced text must still be an argument
        files = dict(files, fin="input\n")
        line += " < fin" if c["realin"] == "lt" else " <<< word"
    return line + " ; vpa probe", b, a, files, vh, env


def judge(rep, c, line, b, a, files, res):
    pay = chars(c["pay"])
    raw = pay
    if c["del"] in ("var2", "dsub2"):
        pay = pay + "z"
    elif c["del"] in ("var2r", "envsub", "envbq"):
        pay = "z" + pay
    elif c["del"] == "assignsub":
        pay = "k" + pay
    pay = c.get("pre", "") + pay
    feat = {"pre": c.get("pre", ""), "del": c["del"], "q": c["q"], "pos": c["pos"], "pay": raw, "pay_is_amp": raw == "&", "chars": sorted(set(pay) & set("|&;<>#"))}
    rec = {"case": c, "line": line, "status": res.get("status"), "stderr": res.get("stderr", "")[-300:], "log": res.get("log"),
           "files": sorted(res.get("files", {}))}

    def bad(kind, desc):
        return rep.violation("%s/%s/%s" % (kind, c["del"], c["q"]), "`%s` (payload %r via %s): %s" % (line, pay, c["del"], desc), rec, dict(feat, fail=kind))
    if res.get("timed_out"):
        return bad("hang", "never finishes")
    logs = res.get("log", [])
    if any(r.get("h") == "mk" for r in logs):
        return bad("extra-command", "a command hidden in the payload was run")
    pa = [r for r in logs if r.get("h") == "pa" and r.get("argv") != ["probe"]]
    probe = [r for r in logs if r.get("h") == "pa" and r.get("argv") == ["probe"]]
    if len(pa) != 1:
        return bad("program-count", "the program ran %d times" % len(pa))
    at_exit = [r for r in res.get("log_at_exit", []) if r.get("h") == "pa"]
    if len(probe) != 1 or len(at_exit) != 2:
        return bad("not-foreground", "the program was not waited for / the next command did not run")
    alts = [b + [pay] + a]
    if c["del"] == "glob2":
        alts = [b + ["!a", pay, "~z"] + a]
    if c["q"] == "unq" and c["del"] not in ("glob", "glob2"):
        alts.append(b + pay.split() + a)
    if pa[0].get("argv") not in alts:
        return bad("argv", "argv %s, expected %s" % (pa[0].get("argv"), alts[0]))
    extra = sorted(set(res.get("files", {})) - set(files))
    if extra:
        return bad("file-created", "files created: %s" % extra)
    return False


def runner(rep, tier, seed, replay):
    if replay:
        with open(replay) as f:
            c = json.load(f)["case"]
        line, b, a, files, vh, env = render(c["case"])
        res = run_cases([{"entry": "c", "text": line, "files": files, "vhfiles": vh, "env": env, "timeout": 30, "snapshot_log_at_exit": True}])[0]
        judge(rep, c["case"], line, b, a, files, res)
        rep.cov["evaluations"] = 1
        return rep.finish(rule="replay of one recorded case")
    cases = []
    r = run_tlc("MCNoRescan", "MCNoRescan", on_replay=cases.append, keep_replays=False)
    if r.violation:
        raise ToolError("reference composition re-reads produced text:\n" + r.violation[:1500])
    check_action_coverage(r, ["Finish"])
    rep.add_tlc(r)
    # the expansion as a sequence of passes over the same tokens (spec/Passes.tla): with produced text masked for the later passes no
    # hidden command runs and every word count is the reference's; "rescan" (the code as pinned) is the negative control
    rm = run_tlc("Passes", "Passes_masked", coverage=False)
    if rm.violation:
        raise ToolError("the masked pass pipeline violates NoHiddenCommand / Exact:\n" + rm.violation[:1500])
    rep.add_tlc(rm)
    rr = run_tlc("Passes", "Passes_rescan", coverage=False)
    rep.add_tlc(rr)
    if not rr.violation or "NoHiddenCommand" not in rr.violation:
        raise ToolError("negative control failed: passes that re-read produced text never run a hidden command")
    extra = []
    for c in cases:
        if c["del"] in ("var", "bvar", "dsub", "bqsub") and c["pos"] != "last" and chars(c["pay"]) in ("<", "<<<", "<f", "a>b", "|", ">"):
            extra.append(dict(c, realin="lt"))
            extra.append(dict(c, realin="here"))
    cases += extra
    # pairs: two payloads delivered in two different ways into one command (each must arrive as its own argument)
    base = [c for c in cases if not c.get("realin") and c["del"] in ("var", "dsub") and c["q"] == "dq" and c["pos"] == "middle"]
    vs = [c for c in base if c["del"] == "var"]
    ds = [c for c in base if c["del"] == "dsub"]
    for k in range(min(len(vs), len(ds), 40 if tier == "quick" else 400)):
        cases.append(dict(vs[k], pair=ds[-1 - k]["pay"]))
    cases += [dict(c, **{"del": ("envsub" if k % 2 == 0 else "envbq")}) for k, c in enumerate(cases)
              if c["del"] == "var" and not c.get("realin") and c.get("pair") is None and chars(c["pay"]).strip() == chars(c["pay"]) and chars(c["pay"]) != ""]
    cases += [dict(c, kv=True) for c in cases if c["del"] in ("var", "bvar", "dsub", "bqsub") and not c.get("realin") and c.get("pair") is None
              and c["pos"] in ("first", "middle")]
    cases += [dict(c, **{"del": ("nestbq" if k % 2 == 0 else "nestds")}) for k, c in enumerate(cases)
              if c["del"] == "dsub" and not c.get("realin") and c.get("pair") is None and chars(c["pay"]).strip() == chars(c["pay"]) and chars(c["pay"]) != ""]
    cases += [dict(c, **{"del": ("assignvar", "assignsub", "assignbq")[k % 3], "q": "dq", "pos": "middle"}) for k, c in enumerate(cases)
              if c["del"] == "var" and c["q"] == "dq" and c["pos"] == "middle" and not c.get("realin") and c.get("pair") is None and chars(c["pay"]) != ""]
    log("[C13] %d cases" % len(cases))
    jobs, meta = [], []
    for c in cases:
        if c["del"] in ("assignvar", "assignsub", "assignbq"):
            c["pre"] = ""
        elif c["del"] not in ("glob", "glob2"):
            c["pre"] = ["", "", "", "k=", "--o=", "x."][stable_hash(json.dumps(c, sort_keys=True)) % 6]
        line, b, a, files, vh, env = render(c)
        jobs.append({"entry": "c", "text": line, "files": files, "vhfiles": vh, "env": dict(env, VH_DELAY_IF_LAST_AMP="200"), "timeout": 8,
                     "snapshot_log_at_exit": True, "linger": 1.0 if chars(c["pay"]) == "&" else None})
        meta.append((c, line, b, a, files))
    # the same lines as the head of `if` / `else if` / `while` (separate code path: scripting.rs::run_exp_test_br)
    structure.check_heads(rep, jobs, random.Random(seed), 150 if tier == "quick" else 1500, "C13")
    # the value is an alternative of a typed brace list: the word the list produces is an argument like any other
    bl = [{"entry": "c", "text": "vpa L {x,$PV} R ; vpa probe", "env": {"PV": pv}, "timeout": 8, "want_files": True} for pv in
          ("|", "&", "<", ">", "<<<", ";x", "a>b", "|vmk 9 0", "2>&1", ">f9")]
    for j, res in zip(bl, run_cases(bl)):
        rep.cov["evaluations"] += 1
        pv = j["env"]["PV"]
        pa = [r.get("argv") for r in res.get("log", []) if r.get("h") == "pa"]
        mk = [r for r in res.get("log", []) if r.get("h") == "mk"]
        extra = sorted(res.get("files", {}))
        # (the list may also be left unexpanded when the value holds a `>`: the word is tagged as quoted first - still argument text)
        if res.get("timed_out") or mk or extra or pa not in ([["L", "x", pv, "R"], ["probe"]], [["L", "{x,%s}" % pv, "R"], ["probe"]]):
            rep.violation("argv/bracevar/unq", "`%s` with PV=%r: programs %s, hidden commands %d, files %s" % (j["text"], pv, pa, len(mk), extra),
                          {"case": {"pay": list(pv), "del": "bracevar", "q": "unq", "pos": "middle"}, "line": j["text"], "env": j["env"]},
                          {"del": "bracevar", "q": "unq", "pos": "middle", "pay": pv, "fail": "argv"})
    results = run_cases(jobs)
    distinct = set()
    for (c, line, b, a, files), res in zip(meta, results):
        if "tool_error" in res:
            raise ToolError(res["tool_error"])
        rep.cov["evaluations"] += 1
        distinct.add(line + chars(c["pay"]))
        judge(rep, c, line, b, a, files, res)
        if rep.cov["evaluations"] % 97 == 1:
            rep.sample({"line": line, "payload": chars(c["pay"]), "delivery": c["del"]})
    rep.cov["distinct_nontrivial"] = len(distinct)
    rep.cov["traces_validated_against_impl"] = rep.cov["evaluations"]
    rep.cov["exhaustive"] = True
    rep.assumptions += ["unquoted produced text with blanks may arrive split at the blanks", "file names cannot contain `/`"]
    return rep.finish(rule="17 payloads (each operator character alone and embedded, hidden commands, hidden redirections) x delivery {$N, ${N}, "
                           "$(..), backquotes, `*` match} x {unquoted, double-quoted} x {first, middle, last argument}, enumerated by TLC from "
                           "spec/MCNoRescan.tla; non-trivial = every case; distinct by (line, payload)")


def main():
    std_main("C13", runner)
