"""C11 - command substitution splices the command's output in literally, exactly once.
Spec: spec/MCSubst.tla (reference value of a word with substitutions: TrimNL of the output spliced
literally; run counts).  (M) TLC checks the trimming theorems; (G) every combination of spelling x
position x context x inner-command kind x output text is a replay case; (A) each is rendered with
the vout helper as inner command (prints a programmed byte string, logs each run) and run by the
real binary under a watchdog; oracle: argv of the outer helper (or stdin for here-strings), run
counters, that a diagnostic appears for an inner command that cannot run, the state probe after."""
import json
import random

import structure
from common import Report, ToolError, chars, check_action_coverage, log, run_cases, run_tlc, std_main

MAP = {"N": "\n"}
# multi-byte text longer than one pipe buffer, placed so that characters straddle every power-of-two read size
MB_OUT = "x" + "\u20ac" * 30000 + "\u00e9" * 5 + "\n"


def inner(kind):
    if kind == "simple" or kind == "failing":
        return "vout 1"
    if kind == "pipeline":
        return "vout 1 | vst f mode=filt"
    if kind == "builtin":
        return "alias zz"
    if kind == "notfound":
        return "nosuchcmd-xyz"
    if kind == "invalid":
        return "vout 1 >"
    raise ToolError(kind)


def render(c):
    k = c["kind"]
    sub1 = ("$(%s)" if c["sp"] == "dollar" else "`%s`") % inner(k)
    word = chars(c["pre"]) + sub1
    if c["two"]:
        second = ("$(%s)" if c["sp"] == "dollar" else "`%s`") % "vout 2"
        if c.get("sepwords"):
            word += ('" "' if c["ctx"] == "dq" else " ") + second
        else:
            word += "+" + second
    word += chars(c["post"])
    pre = "alias zz=vq ; " if k == "builtin" else ""
    ctx = c["ctx"]
    if ctx == "unq":
        line = pre + "vpa L %s R ; vpa probe" % word
    elif ctx == "dq":
        line = pre + 'vpa L "%s" R ; vpa probe' % word
    elif ctx == "assign":
        line = pre + 'X=%s ; vpa L "$X" R ; vpa probe' % word
    else:
        line = pre + "vio H r <<< %s ; vpa probe" % word
    return line


def outputs(c):
    o1 = chars(c["o1"], MAP)
    if c.get("volume") in ("bigout", "both"):
        o1 = "y" * 100000 + "\n"
    if c.get("volume") == "bigout-mb":
        o1 = MB_OUT
    if c["kind"] == "builtin":
        o1 = "alias zz='vq'\n"
    return o1, chars(c["o2"], MAP)


def expected_value(c):
    o1, o2 = outputs(c)
    if c["kind"] in ("notfound", "invalid"):
        o1 = ""
    v = chars(c["pre"]) + o1.rstrip("\n")
    if c["two"]:
        v += "+" + o2.rstrip("\n")
    return v + chars(c["post"])


def judge(rep, c, line, res):
    o1, o2 = outputs(c)
    val = expected_value(c)
    feat = {"sp": c["sp"], "shape": c["shape"], "ctx": c["ctx"], "kind": c["kind"], "two": c["two"],
            "out_has_dollar": "$" in o1 or "$" in o2, "out_has_backslash": "\\" in o1, "out_lead_blank": o1.startswith(" "),
            "out_trail_blank": o1.rstrip("\n").endswith(" "), "out_inner_newline": "\n" in o1.rstrip("\n"),
            "out_blank": " " in o1.strip(), "out": o1, "out2": o2,
            "out_quoted": len(o1.rstrip("\n")) >= 2 and o1.rstrip("\n")[0] in "'\"" and o1.rstrip("\n")[-1] == o1.rstrip("\n")[0],
            "bq_leading_more": c["sp"] == "bq" and c["ctx"] in ("unq", "here") and
            ((not chars(c["pre"]) and (bool(chars(c["post"])) or c["two"])) or (bool(c.get("sepwords")) and bool(chars(c["post"]))))}
    case = {"case": c, "text": line, "vh": {"out.1": o1, "out.2": o2}, "status": res.get("status"), "stderr": res.get("stderr", "")[-300:],
            "log": res.get("log")}

    def bad(kind, desc):
        return rep.violation("%s/%s/%s/%s" % (kind, c["ctx"], c["sp"], c["kind"]), "`%s` (inner output %r): %s" % (line, o1, desc), case, dict(feat, fail=kind))
    if res.get("timed_out"):
        return bad("hang", "never finishes")
    logs = res.get("log", [])
    probe = [r for r in logs if r.get("h") == "pa" and r.get("argv") == ["probe"]]
    if len(probe) != 1:
        return bad("shell-dead", "the command after it did not run (stderr %s)" % res.get("stderr", "")[-200:])
    # run counters
    if c["kind"] in ("simple", "failing", "pipeline"):
        n1 = len([r for r in logs if r.get("h") == "out" and r.get("id") == "1"])
        if n1 != 1:
            return bad("run-count", "the inner command ran %d times" % n1)
    if c["two"]:
        n2 = len([r for r in logs if r.get("h") == "out" and r.get("id") == "2"])
        if n2 != 1:
            return bad("run-count", "the second inner command ran %d times" % n2)
    if c["kind"] in ("notfound", "invalid") and not res.get("stderr", "").strip():
        return bad("no-diagnostic", "an inner command that cannot run gave no diagnostic")
    # spliced value
    if c["ctx"] == "here":
        io = [r for r in logs if r.get("h") == "io" and r.get("tag") == "H"]
        if len(io) != 1:
            return bad("not-run", "the outer command ran %d times" % len(io))
        got = io[0].get("stdin")
        ok = [val + "\n"]
        if " " in val or val != val.strip():
            ok.append(" ".join(val.split()) + "\n")
        if got not in ok:
            return bad("value", "stdin was %r, expected %r" % (got, ok[0]))
        return False
    pa = [r for r in logs if r.get("h") == "pa" and r.get("argv") != ["probe"]]
    if len(pa) != 1:
        return bad("not-run", "the outer command ran %d times" % len(pa))
    argv = pa[0].get("argv")
    if c.get("sepwords"):
        # two words: pre+out1 and out2+post (an empty unquoted word vanishes; blanks may split an unquoted word)
        o1t, o2t = o1.rstrip("\n"), o2.rstrip("\n")
        w1, w2 = chars(c["pre"]) + o1t, o2t + chars(c["post"])
        if c["ctx"] == "dq":
            alts = [["L", w1, w2, "R"]]
        else:
            alts = [["L"] + [w for w in (w1, w2) if w != ""] + ["R"], ["L", w1, w2, "R"], ["L"] + w1.split() + w2.split() + ["R"]]
    elif c["ctx"] in ("dq", "assign"):
        alts = [["L", val, "R"]]
    else:
        alts = [["L", val, "R"] if val != "" else ["L", "R"]]
        if val == "":
            alts.append(["L", "", "R"])
        if " " in val or "\n" in val or val != val.strip():
            alts.append(["L"] + val.split() + ["R"])          # field splitting
            alts.append(["L", val.strip(), "R"])             # blanks at the ends are not significant unquoted
    if argv not in alts:
        return bad("value", "argv %r, expected %r" % (argv, alts[0]))
    return False


def runner(rep, tier, seed, replay):
    rnd = random.Random(seed)
    if replay:
        with open(replay) as f:
            c = json.load(f)["case"]
        res = run_cases([{"entry": "c", "text": c["text"], "vhfiles": c["vh"], "timeout": 40}])[0]
        judge(rep, c["case"], c["text"], res)
        rep.cov["evaluations"] = 1
        return rep.finish(rule="replay of one recorded case")
    cases = []
    for cfg in (["MCSubst_q", "MCSubst_q2"] if tier == "quick" else ["MCSubst_t", "MCSubst_t2"]):
        r = run_tlc("MCSubst", cfg, on_replay=cases.append, keep_replays=False)
        if r.violation:
            raise ToolError("reference of command substitution violates its own theorem:\n" + r.violation[:1500])
        check_action_coverage(r, ["Finish"])
        rep.add_tlc(r)
    if tier == "quick":
        cases = [c for c in cases if not (c["kind"] in ("builtin", "notfound", "invalid", "failing") and chars(c["o1"]) not in ("x", "a$1b"))]
    # volume variants (spec/Pipeline.tla, capture branch: the inner command fills the stdout or the stderr capture pipe
    # beyond one pipe buffer while the shell reads): derived from the simple whole-word cases
    vol = []
    for c in cases:
        if c["kind"] == "simple" and not c["two"] and c["shape"] == "whole" and chars(c["o1"]) == "x":
            vol.append(dict(c, kind="simple", volume="bigout"))
            vol.append(dict(c, kind="simple", volume="bigerr"))
            vol.append(dict(c, kind="simple", volume="both"))
            vol.append(dict(c, kind="simple", volume="bigout-mb"))
    cases += vol
    # multi-byte text in the same word, before and after the substitution (offsets into the word are counted in bytes or in
    # characters somewhere: they must agree)
    mb = [dict(c, pre=["U"] + list(c["pre"]), post=list(c["post"]) + ["W"]) for c in cases
          if not c.get("volume") and c["kind"] in ("simple", "pipeline") and chars(c["o1"]) in ("x", "a b")]
    cases += mb
    # two substitutions as two separate words of one command (each spliced into its own word, each inner command run once)
    tw = [dict(c, sepwords=True) for c in cases if c["two"] and c["ctx"] in ("unq", "dq") and c["kind"] == "simple" and c["shape"] == "whole"]
    cases += tw
    log("[C11] %d cases" % len(cases))
    jobs = []
    for c in cases:
        o1, o2 = outputs(c)
        vh = {"out.1": chars(c["o1"], MAP), "out.2": o2}
        if c.get("volume") in ("bigout", "both"):
            vh["out.1"] = "y" * 100000 + "\n"
        if c.get("volume") in ("bigerr", "both"):
            vh["err.1"] = "E" * 200000 + "\n"
        if c.get("volume") == "bigout-mb":
            vh["out.1"] = MB_OUT
        if c["kind"] == "failing":
            vh["st.1"] = "3"
        jobs.append({"entry": "c", "text": render(c), "vhfiles": vh, "timeout": 5, "want_files": False})
    # the same lines as the head of `if` / `else if` / `while` (separate code path: scripting.rs::run_exp_test_br)
    structure.check_heads(rep, jobs, random.Random(seed), 100 if tier == "quick" else 1000, "C11")
    # ---- builtins as inner commands: they run inside the shell and hand their text back without the capture pipes; the value
    # is what the builtin prints when run on its own (its standard output), without the trailing newlines
    binner = ["ulimit -n", "ulimit -c", "ulimit -a", "ulimit -H -n", "cinfo", "alias", "alias zz"]
    bjobs = []
    for b in binner:
        bjobs.append({"entry": "c", "text": "alias zz=vq ; alias yy='vpa 1' ; %s" % b, "timeout": 10, "want_files": False})
        for form in ('vpa L "[$(%s)]" R', 'vpa L "[`%s`]" R', 'X=$(%s) ; vpa L "[$X]" R', 'vio H r <<< "[$(%s)]"'):
            bjobs.append({"entry": "c", "text": "alias zz=vq ; alias yy='vpa 1' ; " + form % b, "timeout": 10, "want_files": False})
    bres = run_cases(bjobs)
    for bi, b in enumerate(binner):
        plain = bres[bi * 5]
        import re as _re
        sre = _re.compile(r"/(?:dev/shm|[^ ]*/\.work)/vf-\d+/c\d+")

        def canon(t):
            # listings of a hash table come in no particular order, and some lines name the per-run scratch directory
            return sorted(sre.sub("<S>", t).split("\n")) if isinstance(t, str) else t
        want = "[" + plain.get("stdout", "").rstrip("\n") + "]"
        for k in range(1, 5):
            rep.cov["evaluations"] += 1
            j, res = bjobs[bi * 5 + k], bres[bi * 5 + k]
            if k < 4:
                got = [r.get("argv") for r in res.get("log", []) if r.get("h") == "pa"]
                ok = len(got) == 1 and len(got[0]) == 3 and got[0][0] == "L" and got[0][2] == "R" and got[0][1][:1] == "[" and got[0][1][-1:] == "]" and canon(got[0][1][1:-1]) == canon(want[1:-1])
            else:
                got = [r.get("stdin") for r in res.get("log", []) if r.get("h") == "io"]
                ok = len(got) == 1 and isinstance(got[0], str) and got[0][:1] == "[" and got[0][-2:] == "]\n" and canon(got[0][1:-2]) == canon(want[1:-1])
            if not ok or not plain.get("stdout"):
                rep.violation("builtin-output/%s" % b.split()[0], "`%s`: the builtin `%s` prints %r on its own, the substitution gave %s (stderr %s)"
                              % (j["text"], b, plain.get("stdout"), got, res.get("stderr", "")[-200:]),
                              {"kind": "builtin-output", "text": j["text"], "inner": b, "got": got}, {"kind": "builtin-output", "inner": b, "form": k})
    results = run_cases(jobs)
    slow = [i for i, res in enumerate(results) if res.get("timed_out")]
    if slow:
        log("[C11] %d cases timed out; re-running with a 10x budget" % len(slow))
        again = run_cases([dict(jobs[i], timeout=50) for i in slow[:30]])
        for i, res in zip(slow[:30], again):
            results[i] = res
    distinct = set()
    for c, j, res in zip(cases, jobs, results):
        if "tool_error" in res:
            raise ToolError(res["tool_error"])
        rep.cov["evaluations"] += 1
        distinct.add(j["text"] + "|" + j["vhfiles"]["out.1"] + "|" + j["vhfiles"]["out.2"])
        judge(rep, c, j["text"], res)
        if rep.cov["evaluations"] % 577 == 1:
            rep.sample({"line": j["text"], "inner_output": j["vhfiles"]["out.1"], "expected_value": expected_value(c)})
    rep.cov["distinct_nontrivial"] = len(distinct)
    rep.cov["traces_validated_against_impl"] = rep.cov["evaluations"]
    rep.cov["exhaustive"] = True
    rep.assumptions += ["the inner command is the vout helper: prints the programmed bytes, logs every run",
                        "unquoted results with blanks may arrive split or unsplit and with or without the blanks at their ends"]
    return rep.finish(rule="spelling {$(), ``} x position {whole, start, mid, end} x context {unquoted, double-quoted, assignment, here-string} "
                           "x inner kind {simple, pipeline, failing, not found, invalid, builtin} x output text (incl. $1, ${x}, $name, a\\b, "
                           "*, {a,b}, blanks, newlines), plus two substitutions in one word, enumerated by TLC from spec/MCSubst.tla; "
                           "non-trivial = every case; distinct by (line, outputs)")


def main():
    std_main("C11", runner)
