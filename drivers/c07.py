"""C07 - the terminal belongs to the foreground job while it runs, else to the shell; own process
groups; Ctrl-Z / fg / bg act on the whole pipeline; jobs lists the truth; finished jobs reported once.
Spec: spec/JobControl.tla + spec/TraceSession.tla.  (M) the terminal invariants TtyAtPrompt / TtyInFg
are checked by TLC on the JobControl model; (B) random interactive sessions of the real binary on a
pseudo-terminal are recorded with state-based observations and validated by TLC: each logged action
is a JobControl action, the shell's unseen steps are silent steps, and the statements of C07 are
evaluated on every observation."""
import json
import os
import random
import re
from concurrent.futures import ProcessPoolExecutor, ThreadPoolExecutor

from common import Report, ToolError, check_action_coverage, cleanup_scratch, log, run_tlc, std_main
import tracecheck


def gen_jobdefs(rnd):
    n = rnd.choice([2, 3, 3])
    defs = []
    for k in range(1, n + 1):
        stages = rnd.choice([1, 1, 2, 2, 3])
        defs.append({"pids": [10 * k + s for s in range(1, stages + 1)], "bg": rnd.random() < 0.45})
    if all(d["bg"] for d in defs):
        defs[0]["bg"] = False
    return defs


# directed sessions: the shapes of the counterexamples TLC found in the job-control model while the code still had the
# corresponding defects (a member stopped and continued while its sibling runs, then the sibling ends; a background member
# changing state during a foreground wait; Ctrl-Z after one member has gone) - always part of the run, with varying delay profiles
DIRECTED = [
    ([{"pids": [11, 12], "bg": False}],
     [("launch", {"d": 1}), ("extstop", {"p": 11}), ("extcont", {"p": 11}), ("extexit", {"p": 12}), ("extkill", {"p": 11}), ("jobs", {})]),
    ([{"pids": [11, 12], "bg": False}],
     [("launch", {"d": 1}), ("extstop", {"p": 12}), ("extcont", {"p": 12}), ("extkill", {"p": 11}), ("ctrlz", {}), ("jobs", {}), ("fg", {"id": 1}),
      ("ctrlc", {}), ("jobs", {})]),
    ([{"pids": [11, 12, 13], "bg": False}],
     [("launch", {"d": 1}), ("extstop", {"p": 12}), ("extcont", {"p": 12}), ("extexit", {"p": 11}), ("extexit", {"p": 13}), ("extstop", {"p": 12}),
      ("jobs", {}), ("bg", {"id": 1}), ("jobs", {}), ("extkill", {"p": 12}), ("enter", {})]),
    ([{"pids": [21], "bg": True}, {"pids": [11, 12], "bg": False}],
     [("launch", {"d": 1}), ("launch", {"d": 2}), ("extstop", {"p": 21}), ("extcont", {"p": 21}), ("extstop", {"p": 21}), ("extexit", {"p": 11}),
      ("extexit", {"p": 12}), ("jobs", {}), ("jobs", {}), ("extcont", {"p": 21}), ("jobs", {}), ("extkill", {"p": 21}), ("enter", {})]),
    # `bg` / `fg` resume the WHOLE pipeline, also one that is only partly stopped (its status is Running)
    ([{"pids": [11, 12], "bg": True}],
     [("launch", {"d": 1}), ("extstop", {"p": 12}), ("jobs", {}), ("bg", {"id": 1}), ("jobs", {}), ("extstop", {"p": 11}), ("jobs", {}), ("fg", {"id": 1}),
      ("ctrlc", {}), ("jobs", {})]),
    ([{"pids": [11, 12, 13], "bg": False}],
     [("launch", {"d": 1}), ("ctrlz", {}), ("jobs", {}), ("extcont", {"p": 11}), ("jobs", {}), ("bg", {"id": 1}), ("jobs", {}), ("extkill", {"p": 12}),
      ("jobs", {}), ("fg", {"id": 1}), ("ctrlc", {}), ("jobs", {})]),
    # a member that was stopped (and seen stopped) dies while its sibling runs on: the job is Running, with one process
    ([{"pids": [11, 12], "bg": True}],
     [("launch", {"d": 1}), ("extstop", {"p": 11}), ("jobs", {}), ("extkill", {"p": 11}), ("jobs", {}), ("jobs", {}), ("extstop", {"p": 12}), ("jobs", {}),
      ("extkill", {"p": 12}), ("jobs", {}), ("jobs", {})]),
    ([{"pids": [11, 12, 13], "bg": False}],
     [("launch", {"d": 1}), ("extstop", {"p": 12}), ("extexit", {"p": 11}), ("extkill", {"p": 12}), ("ctrlz", {}), ("jobs", {}), ("fg", {"id": 1}), ("ctrlc", {}),
      ("jobs", {})]),
    # an older job ends while a younger one lives on, then a new job starts: it takes the free slot and the living job stays listed
    ([{"pids": [11], "bg": True}, {"pids": [21, 22], "bg": True}, {"pids": [31], "bg": True}],
     [("launch", {"d": 1}), ("launch", {"d": 2}), ("extexit", {"p": 11}), ("jobs", {}), ("jobs", {}), ("launch", {"d": 3}), ("jobs", {}),
      ("extstop", {"p": 21}), ("extstop", {"p": 22}), ("jobs", {}), ("extkill", {"p": 31}), ("jobs", {}), ("jobs", {})]),
    ([{"pids": [11], "bg": True}, {"pids": [21], "bg": True}, {"pids": [31, 32], "bg": False}],
     [("launch", {"d": 1}), ("launch", {"d": 2}), ("extkill", {"p": 11}), ("enter", {}), ("jobs", {}), ("launch", {"d": 3}), ("ctrlz", {}), ("jobs", {}),
      ("bg", {"id": 1}), ("jobs", {}), ("extkill", {"p": 21}), ("jobs", {}), ("jobs", {})]),
]


def _children(pid):
    out = []
    for p in os.listdir("/proc"):
        if p.isdigit():
            try:
                with open("/proc/%s/stat" % p) as f:
                    st = f.read()
                rp = st.rindex(")")
                fl = st[rp + 2:].split()
                if int(fl[1]) == pid:
                    out.append({"pid": int(p), "comm": st[st.index("(") + 1:rp], "state": fl[0], "pgrp": int(fl[2]), "tpgid": int(fl[5])})
            except (OSError, ValueError):
                pass
    return out


def tty_reader_one(args):
    """a foreground job whose program reads the terminal at once, under a widened fork window: it must own the terminal from
    the moment its program runs (it is never stopped by SIGTTIN), gets the typed input, and the prompt returns with status 0"""
    delay, line = args
    import time
    import ptydrv
    try:
        s = ptydrv.LineSession(env={"CICADA_VERIF_DELAY": delay} if delay else None)
    except ptydrv.Unsettled as e:
        return {"unsettled": str(e)}
    try:
        os.write(s.fd, (line + "\r").encode())
        seen = []
        reader = None
        t0 = time.time()
        while time.time() - t0 < 6.0:
            s.read_some(0.05)
            ch = [c for c in _children(s.pid) if c["comm"] == "vio"]
            if ch:
                seen.append((ch[0]["state"], ch[0]["pgrp"], ch[0]["tpgid"]))
                if ch[0]["state"] == "T":
                    reader = ch[0]
                    break
                if ch[0]["state"] == "S" and ch[0]["tpgid"] == ch[0]["pgrp"] and len(seen) > 6:
                    reader = ch[0]
                    break
        if reader is None:
            return {"unsettled": "the reader never appeared (%s)" % seen[-3:]}
        stopped = reader["state"] == "T"
        os.write(s.fd, b"in1\r")
        s.read_some(0.3)
        os.write(s.fd, b"\x04")
        ok, _ = s.settle(8.0)
        ok2, _ = s.send("vpa __st $?\r", timeout=8)
        st = []
        t1 = time.time()
        while time.time() - t1 < 8.0:
            # (the probe's own child is subject to the widened window too: wait for its record, then for the prompt)
            recs = s.log()
            st = [r["argv"][1] for r in recs if r.get("h") == "pa" and r.get("argv") and r["argv"][0] == "__st" and len(r["argv"]) > 1]
            if st and s.at_prompt():
                break
            s.read_some(0.1)
        s.settle(4.0)
        if not st or not s.at_prompt():
            return {"unsettled": "the status probe after the job did not finish in time (status %s)" % st}
        io = [r.get("stdin") for r in recs if r.get("h") == "io"]
        sh = [c for c in _children(os.getpid()) if c["pid"] == s.pid]
        return {"delay": delay, "line": line, "stopped": stopped, "reader": reader, "status": st[0] if st else None, "stdin": io,
                "shell_owns_tty_at_prompt": bool(sh) and sh[0]["tpgid"] == sh[0]["pgrp"]}
    finally:
        s.close()


def tty_readers(rep, tier):
    profiles = ["", "parent_after_fork0=150", "child0_pre_setpgid=150", "parent_after_fork0=60,child0_pre_setpgid=20"]
    lines = ["vio T r", "vio T r | vio U r"]
    plans = [(d, ln) for d in profiles for ln in lines] * (1 if tier == "quick" else 4)
    with ProcessPoolExecutor(max_workers=4) as ex:
        outs = list(ex.map(tty_reader_one, plans))
    for (d, ln), o in zip(plans, outs):
        if "unsettled" in o:
            log("[C07] tty reader session not judged (%s): %s" % (d, o["unsettled"]))
            continue
        rep.cov["evaluations"] += 1
        want_in = ["in1\n"] if "|" not in ln else None
        bad = None
        if o["stopped"]:
            bad = "the foreground job was stopped when it read the terminal (state T, group %s, terminal's group %s)" % (o["reader"]["pgrp"], o["reader"]["tpgid"])
        elif o["status"] != "0":
            bad = "status after the job is %s (expected 0)" % o["status"]
        elif want_in is not None and o["stdin"] != want_in:
            bad = "the job read %s from the terminal, typed was %s" % (o["stdin"], want_in)
        elif not o["shell_owns_tty_at_prompt"]:
            bad = "the terminal is not the shell's at the prompt afterwards"
        if bad:
            rep.violation("c07/tty-reader", "`%s` typed at the prompt with schedule %r: %s" % (ln, d or "default", bad), {"tty_reader": o},
                          {"ev": "tty-reader", "delay": d})


def run_session(args):
    """runs in a worker process: one random (or directed) session; returns (records, error or None, plan)"""
    seed, nact = args
    import ptydrv
    rnd = random.Random(seed)
    if nact < 0:
        return run_directed(rnd, DIRECTED[-nact - 1])
    defs = gen_jobdefs(rnd)
    s = None
    # schedule exploration: widen one of the fork / setpgid race windows of run_pipeline (hook schedule points)
    delay = rnd.choice(["", "", "child0_pre_setpgid=40", "child1_pre_setpgid=40", "parent_after_fork0=40", "parent_after_fork1=40",
                        "child0_pre_setpgid=25,parent_after_fork1=25", "child2_pre_setpgid=40"])
    try:
        s = ptydrv.Session(defs, extra_env={"CICADA_VERIF_DELAY": delay} if delay else None)
        s.records[0]["delay"] = delay
        launched = set()
        for _ in range(nact):
            last = s.records[-1].get("obs") if len(s.records) > 1 else {"prompt": True, "st": {}}
            live = [int(p) for p, st in last["st"].items() if st != "X"]
            stopped = [int(p) for p, st in last["st"].items() if st == "T"]
            running = [int(p) for p, st in last["st"].items() if st == "R"]
            choices = []
            if last["prompt"]:
                for d in range(1, len(defs) + 1):
                    if d not in launched:
                        choices += [("launch", {"d": d})] * 3
                choices += [("enter", {}), ("jobs", {}), ("jobs", {})]
                for jid in s.idmap:
                    choices += [("fg", {"id": jid}), ("bg", {"id": jid})]
            else:
                choices += [("ctrlz", {})] * 3 + [("ctrlc", {})] * 2
            for p in running:
                choices += [("extstop", {"p": p}), ("extkill", {"p": p}), ("extexit", {"p": p})]
            for p in stopped:
                choices += [("extcont", {"p": p}), ("extkill", {"p": p})]
            if not choices:
                break
            ev, kw = rnd.choice(choices)
            if ev in ("fg", "bg"):
                # act on fresh knowledge: list first
                s.act("jobs")
                if kw["id"] not in s.idmap:
                    continue
            if ev == "launch":
                launched.add(kw["d"])
            s.act(ev, **kw)
            if rnd.random() < 0.15:
                import time
                time.sleep(rnd.random() * 0.05)
        return (s.records, None, defs)
    except ptydrv.Unsettled as e:
        return (s.records if s else [], "unsettled: %s" % e, defs)
    except Exception as e:  # noqa
        return (s.records if s else [], "driver error: %r" % e, defs)
    finally:
        if s:
            s.close()
        cleanup_scratch()


def run_directed(rnd, plan):
    import ptydrv
    defs, script = plan
    delay = rnd.choice(["", "child0_pre_setpgid=40", "child1_pre_setpgid=40", "parent_after_fork0=40", "parent_after_fork1=40"])
    s = None
    try:
        # the shell reaps children in two ways: by polling at the prompt (default) or in a SIGCHLD handler
        # (CICADA_ENABLE_SIG_HANDLER=1); C07 holds in both
        xenv = {"CICADA_VERIF_DELAY": delay} if delay else {}
        handler = os.environ.get("C07_HANDLER", "") == "1" or rnd.random() < 0.5
        if handler:
            xenv["CICADA_ENABLE_SIG_HANDLER"] = "1"
        s = ptydrv.Session(defs, extra_env=xenv or None)
        s.records[0]["delay"] = delay
        s.records[0]["directed"] = True
        s.records[0]["sig_handler"] = handler
        for ev, kw in script:
            if ev in ("fg", "bg"):
                s.act("jobs")
                if kw["id"] not in s.idmap:
                    continue
            s.act(ev, **kw)
        return (s.records, None, defs)
    except ptydrv.Unsettled as e:
        return (s.records if s else [], "unsettled: %s" % e, defs)
    except Exception as e:  # noqa
        return (s.records if s else [], "driver error: %r" % e, defs)
    finally:
        if s:
            s.close()
        cleanup_scratch()


def validate_one(recs):
    ok, ln, text, res = tracecheck.validate("TraceSession", "TraceSession", recs, timeout=300)
    pf = [int(x) for x in re.findall(r'<<"PROPFAIL", (\d+)>>', res.all_out)]
    return ok, ln, sorted(set(pf)), res


def runner(rep, tier, seed, replay):
    if replay:
        with open(replay) as f:
            c = json.load(f)["case"]
        ok, ln, pf, res = validate_one(c["records"])
        rep.cov["evaluations"] = 1
        if pf:
            rep.violation("recorded", "recorded session violates C07 at trace line %s" % pf[0], c, {})
        return rep.finish(rule="re-validation of one recorded session")
    # (M) terminal invariants on the model
    for cfg in (["MCJobControl_b"] if tier == "quick" else ["MCJobControl_b", "MCJobControl_d", "MCJobControl_f"]):
        r = run_tlc("MCJobControl", cfg, timeout=3000, xmx="24g")
        if r.violation:
            raise ToolError("JobControl model violates an invariant (%s):\n%s" % (cfg, r.violation[:2000]))
        check_action_coverage(r, ["Launch", "FgStep", "Poll", "Builtin", "Resume"])
        rep.add_tlc(r)
    # (M) how a pipeline gets its process group and the terminal (spec/Launch.tla): every interleaving of the shell's fork /
    # setpgid / tcsetpgrp calls with the children's own setpgid; "child-only" (core.rs as pinned) is the negative control
    rl = run_tlc("Launch", "Launch_both")
    if rl.violation:
        raise ToolError("Launch model (parent and child call setpgid) violates C07:\n" + rl.violation[:1500])
    check_action_coverage(rl, ["Fork", "ParentSetpgid", "GiveTerminal", "ChildSetpgid", "ChildExec"])
    rep.add_tlc(rl)
    rc = run_tlc("Launch", "Launch_child", coverage=False)
    rep.add_tlc(rc)
    if not rc.violation:
        raise ToolError("negative control failed: with only the children calling setpgid the Launch model satisfies C07")
    rt = run_tlc("Launch", "Launch_ttyparent", coverage=False)
    rep.add_tlc(rt)
    if "RunsOwningTerminal" not in (rt.violation or ""):
        raise ToolError("negative control failed: with only the shell calling tcsetpgrp the Launch model lets no program run without the terminal")
    tty_readers(rep, tier)
    nsess = 16 if tier == "quick" else 150
    rnd = random.Random(seed)
    plans = [(rnd.randrange(1 << 30), rnd.randint(5, 25)) for _ in range(nsess)]
    plans += [(rnd.randrange(1 << 30), -(k + 1)) for k in range(len(DIRECTED))]
    with ProcessPoolExecutor(max_workers=8) as ex:
        sessions = list(ex.map(run_session, plans))
    unsettled = [e for (_, e, _) in sessions if e]
    good = [(recs, defs) for (recs, e, defs) in sessions if not e and len(recs) > 1]
    log("[C07] %d sessions recorded, %d unsettled/driver errors" % (len(good), len(unsettled)))
    for e in unsettled[:5]:
        log("   " + e)
    if len(unsettled) > max(2, nsess // 3):
        raise ToolError("too many sessions did not settle: %s" % unsettled[:3])
    with ThreadPoolExecutor(max_workers=5) as ex:
        verdicts = list(ex.map(lambda g: validate_one(g[0]), good))
    accepted = unexplained = 0
    nact = 0
    kinds = set()
    for (recs, defs), (ok, ln, pf, res) in zip(good, verdicts):
        rep.add_tlc(res)
        rep.cov["evaluations"] += 1
        nact += len(recs) - 1
        for r in recs[1:]:
            kinds.add(r["ev"])
        if pf:
            bad = recs[pf[0] - 1]
            rep.violation("c07/" + bad["ev"], "observation after `%s` violates C07: %s" % (bad["ev"], json.dumps(bad)[:600]),
                          {"records": recs, "line": pf[0]}, {"ev": bad["ev"]})
        elif ok:
            accepted += 1
            if accepted <= 3:
                rep.sample({"jobs": defs, "actions": [dict((k, v) for k, v in r.items() if k != "obs") for r in recs[1:]][:12]})
        else:
            unexplained += 1
            if os.environ.get("C07_DUMP"):
                with open(os.environ["C07_DUMP"], "a") as f:
                    f.write(json.dumps({"line": ln, "records": recs}) + "\n")
            log("[C07] session not explained by the model at trace line %s (no property failed): %s" % (ln, json.dumps(recs[ln - 1] if ln and ln <= len(recs) else None)[:400]))
    rep.cov["traces_validated_against_impl"] = accepted
    rep.cov["distinct_nontrivial"] = len(good)
    rep.cov["actions_observed"] = nact
    rep.cov["action_kinds"] = sorted(kinds)
    rep.cov["sessions_unsettled"] = len(unsettled)
    rep.cov["spec_drift"] = unexplained
    rep.assumptions += ["observations are taken only when the shell is seen blocked in wait4 or in the line editor for several "
                        "consecutive looks (/proc/<pid>/syscall, /proc/<pid>/stat); a session that does not settle is dropped, not judged",
                        "helpers (vjob) only sleep; SIGUSR1 makes them exit 3",
                        "a session the model cannot explain although no statement of C07 fails on its observations is counted as spec_drift"]
    return rep.finish(rule="random interactive sessions (5..25 actions from launch fg/bg pipelines of 1..3 stages, Ctrl-Z, Ctrl-C, fg/bg id, "
                           "external stop/cont/kill/exit of a member, jobs, empty line) on a pty; non-trivial = every recorded session; "
                           "distinct by seed")


def main():
    std_main("C07", runner)
