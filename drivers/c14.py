"""C14 - scripts execute exactly the command sequence their block structure prescribes.
Spec: spec/Script.tla (writer of well-formed line sequences, Parse, structured big-step semantics,
transcription of scripting.rs's recursive run functions with their (continue, break) flags).
(M) TLC checks that the transcription produces exactly the big-step event sequence for every script
up to the bound and every answer assignment; (G) every (script, answers) is a replay case with the
expected event sequence; (A) each is rendered in both spellings with marker / condition helpers and
run by the real binary; oracle: the helper log = the expected event sequence (commands with the
value of the loop variable they saw, condition evaluations).  Negatives: scripts whose block keywords
do not balance must be diagnosed instead of being silently truncated."""
import json
import random

from common import Report, ToolError, check_action_coverage, log, run_cases, run_tlc, stable_hash, std_main


def cond(i, rnd):
    """the condition of line i: `vcond i`, alone or as the deciding (last executed) command of a list whose other command is
    scaffolding (markers Z..): the status of a list is that of its last executed command, so the branch taken is the same"""
    c = "vcond %d" % i
    return rnd.choice([c, c, c, "vmk Z%d 3 || %s" % (i, c), "vmk Z%d 0 && %s" % (i, c), "vmk Z%d 3 ; %s" % (i, c), "vmk Z%d 0 | %s" % (i, c)])


def render(lines, spelling, rnd):
    out = []
    depth = 0
    base = rnd.choice(["", "", "  ", "\t"]) if spelling == "nl" else rnd.choice(["", "    "])   # the whole script may be indented
    for i, l in enumerate(lines, 1):
        k = l["k"]
        if k in ("ei", "el", "fi", "dn"):
            depth -= 1
        ind = " " * (rnd.choice([0, 2, 4]) * max(depth, 0)) if spelling == "nl" else "    " * max(depth, 0)
        if k == "c":
            t = "vmk %d 0 $v" % i
        elif k == "br":
            t = "break"
        elif k == "co":
            t = "continue"
        elif k == "if":
            t = "if " + cond(i, rnd) + ("; then" if spelling == "semi" else "")
        elif k == "ei":
            t = "else if " + cond(i, rnd) + ("; then" if spelling == "semi" else "")
        elif k == "el":
            t = "else"
        elif k == "fi":
            t = "fi"
        elif k == "wh":
            t = "while " + cond(i, rnd) + ("; do" if spelling == "semi" else "")
        elif k == "fo":
            words = " ".join("w%d" % j for j in range(1, l["n"] + 1))
            # an empty word list is written with and without a blank after `in`
            t = ("for v in " + words if (words or rnd.random() < 0.5) else "for v in") + ("; do" if spelling == "semi" else "")
        elif k == "dn":
            t = "done"
        out.append(base + ind + t)
        if spelling == "nl" and rnd.random() < 0.15:
            out.append("")
        if k in ("if", "ei", "el", "wh", "fo"):
            depth += 1
    return "\n".join(out) + "\n"


def expected_events(case):
    ev = []
    for e in case["out"]:
        if e[0] == "cmd":
            ev.append(("mk", str(e[1]), "w%d" % e[2] if e[2] else ""))
        else:
            ev.append(("cond", str(e[1]), ""))
    return ev


def got_events(res):
    ev = []
    for r in res.get("log", []):
        if r.get("h") == "mk":
            if str(r.get("id", "")).startswith("Z"):
                continue        # scaffolding of a list condition
            a = r.get("argv") or []
            ev.append(("mk", r.get("id"), a[0] if a else ""))
        elif r.get("h") == "cond":
            ev.append(("cond", r.get("id"), ""))
    return ev


def vhfiles(case):
    f = {}
    for i, a in enumerate(case["ans"], 1):
        if case["lines"][i - 1]["k"] in ("if", "ei", "wh"):
            f["cond.%d" % i] = " ".join(str(x) for x in list(a) + [1])
    return f


def feat_of(case, spelling):
    ks = [l["k"] for l in case["lines"]]
    return {"spelling": spelling, "kinds": sorted(set(ks)), "nlines": len(ks), "has_for0": any(l["k"] == "fo" and l["n"] == 0 for l in case["lines"]),
            "has_break": "br" in ks, "has_continue": "co" in ks, "has_elseif": "ei" in ks, "has_else": "el" in ks}


def judge(rep, case, spelling, text, res):
    feat = feat_of(case, spelling)
    rec = {"case": case, "spelling": spelling, "text": text, "status": res.get("status"), "stderr": res.get("stderr", "")[-300:]}
    exp, got = expected_events(case), got_events(res)
    rec["expected"], rec["got"] = exp, got
    if res.get("timed_out"):
        return rep.violation("hang/" + spelling, "script never finishes:\n" + text, rec, feat)
    if got != exp:
        n = 0
        while n < min(len(got), len(exp)) and got[n] == exp[n]:
            n += 1
        kind = "events"
        if len(got) < len(exp) and got == exp[:len(got)]:
            kind = "stopped-early"
        elif len(got) > len(exp) and got[:len(exp)] == exp:
            kind = "ran-too-much"
        return rep.violation("%s/%s/%s" % (kind, spelling, "+".join(feat["kinds"])),
                             "script:\n%s--- events diverge at #%d: expected %s, got %s" % (text, n, exp[n:n + 3], got[n:n + 3]), rec, dict(feat, fail=kind))
    return False


def unbalance(lines, rnd):
    """truncated / unbalanced variants of a well-formed script"""
    ks = [l["k"] for l in lines]
    closers = [i for i, k in enumerate(ks) if k in ("fi", "dn")]
    out = []
    if closers:
        i = rnd.choice(closers)
        out.append(("missing-closer", lines[:i] + lines[i + 1:]))
    out.append(("extra-fi", lines + [{"k": "fi", "n": 0}]))
    out.append(("extra-done", lines + [{"k": "dn", "n": 0}]))
    return out


def runner(rep, tier, seed, replay):
    rnd = random.Random(seed)
    if replay:
        with open(replay) as f:
            c = json.load(f)["case"]
        res = run_cases([{"entry": "script", "text": c["text"], "vhfiles": vhfiles(c["case"]), "timeout": 40}])[0]
        if c.get("negative"):
            if not res.get("stderr", "").strip():
                rep.violation("unbalanced-silent", "still silent", c, {})
        else:
            judge(rep, c["case"], c["spelling"], c["text"], res)
        rep.cov["evaluations"] = 1
        return rep.finish(rule="replay of one recorded case")
    cases = []
    r = run_tlc("MCScript", "MCScript_q" if tier == "quick" else "MCScript_t", on_replay=cases.append, keep_replays=False, timeout=3000)
    if r.violation:
        raise ToolError("transcription of scripting.rs and the structured semantics disagree:\n" + r.violation[:2500])
    check_action_coverage(r, ["Add"])
    rep.add_tlc(r)
    total = len(cases)
    if tier == "thorough" and len(cases) > 12000:
        cases = rnd.sample(cases, 12000)
    # larger scripts: the same writer at a higher bound (7..8 lines, one answer per condition), sampled
    big = []
    if tier == "thorough":
        rb = run_tlc("MCScript", "MCScript_big", on_replay=big.append, keep_replays=False, timeout=3000, xmx="16g")
        if rb.violation:
            raise ToolError("transcription and semantics disagree on a larger script:\n" + rb.violation[:2500])
        rep.add_tlc(rb)
        total += len(big)
        cases += rnd.sample(big, min(len(big), 6000))
    # 7-line scripts (exhaustive from the same writer, one answer per condition): the smallest size at which a break / continue
    # sits in an if arm that is followed by another arm inside a loop; sampled with preference for exactly those shapes
    mid = []
    rm = run_tlc("MCScript", "MCScript_mid", on_replay=mid.append, keep_replays=False, timeout=3000)
    if rm.violation:
        raise ToolError("transcription and semantics disagree on a 7-line script:\n" + rm.violation[:2500])
    rep.add_tlc(rm)
    total += len(mid)
    hot = [c for c in mid if any(l["k"] in ("br", "co") for l in c["lines"]) and any(l["k"] in ("el", "ei") for l in c["lines"])]
    cold = [c for c in mid if c not in hot] if len(mid) < 2000 else mid
    cases += rnd.sample(hot, min(len(hot), 400 if tier == "quick" else len(hot)))
    cases += rnd.sample(cold, min(len(cold), 300 if tier == "quick" else 3000))
    sim = big
    log("[C14] %d (script, answers) cases enumerated, %d replayed incl. %d large simulated" % (total, len(cases), len([c for c in sim if len(c['lines']) >= 7])))
    jobs, meta = [], []
    for c in cases:
        for sp in ("nl", "semi"):
            t = render(c["lines"], sp, random.Random(stable_hash(json.dumps(c["lines"])) ^ seed))
            jobs.append({"entry": "script", "text": t, "vhfiles": vhfiles(c), "timeout": 15, "want_files": False})
            meta.append((c, sp, t))
    results = run_cases(jobs)
    distinct = set()
    for (c, sp, t), res in zip(meta, results):
        if "tool_error" in res:
            raise ToolError(res["tool_error"])
        rep.cov["evaluations"] += 1
        distinct.add(t + json.dumps(c["ans"]))
        judge(rep, c, sp, t, res)
        if rep.cov["evaluations"] % 607 == 1:
            rep.sample({"script": t, "answers": vhfiles(c), "expected_events": expected_events(c)[:12]})
    # negatives
    scripts = {}
    for c in cases:
        scripts[json.dumps(c["lines"])] = c
    base = [c for c in scripts.values() if any(l["k"] in ("if", "wh", "fo") for l in c["lines"])]
    base = rnd.sample(base, min(len(base), 120 if tier == "quick" else 1500))
    njobs, nmeta = [], []
    for c in base:
        for kind, ls in unbalance(c["lines"], rnd):
            t = render(ls, "nl", random.Random(1))
            njobs.append({"entry": "script", "text": t, "vhfiles": vhfiles(c), "timeout": 15, "want_files": False})
            nmeta.append((kind, t, c))
    nres = run_cases(njobs)
    for (kind, t, c), res in zip(nmeta, nres):
        rep.cov["evaluations"] += 1
        if not res.get("timed_out") and not res.get("stderr", "").strip():
            rep.violation("unbalanced-silent/" + kind, "unbalanced script (%s) ran without any diagnostic (status %s):\n%s" % (kind, res.get("status"), t),
                          {"negative": True, "text": t, "case": c, "kind": kind}, {"kind": kind, "negative": True})
    rep.cov["negatives"] = len(njobs)
    rep.cov["distinct_nontrivial"] = len(distinct)
    rep.cov["traces_validated_against_impl"] = rep.cov["evaluations"]
    rep.cov["scripts_enumerated"] = total
    rep.assumptions += ["conditions are answered by the vcond helper from a programmed status sequence that ends in failure",
                        "commands are markers that log the value of the loop variable v they saw"]
    return rep.finish(rule="every well-formed script of <= %d lines over {command, break, continue, if, else if, else, fi, while, for with 0..2 "
                           "words, done} x every answer assignment (<= %d answers per condition), enumerated by TLC from spec/Script.tla, in "
                           "both spellings; larger scripts (7..14 lines) by TLC simulation; unbalanced variants as negatives; distinct by "
                           "(text, answers)" % ((5, 1) if tier == "quick" else (6, 2)))


def main():
    std_main("C14", runner)
