"""C03 - command lists: left to right, short-circuit, $?, exit status.
Spec: spec/CmdList.tla.  (M) TLC checks the loop of run_command_line against the rule of the
property for every program; (G) every program is emitted with its prescribed run sequence;
(A) each program is rendered with marker helpers and run by the real binary through -c and
as a script; (B) the loop's hook events of the same runs are validated by TraceCmdList."""
import json
import os
import random

import structure
from common import (Report, ToolError, check_action_coverage, log, run_cases, run_tlc, stable_hash, std_main)
import tracecheck

NZ = [1, 3, 255]
DECOYS_ANY = ["';'", '"&&"', "'||'", '"; vmk 99 0"', "'&& vmk 98 0'", '"|| x"',
              '"it\'s"', "'a\"b'", '"x\' ; vmk 97 0"', "'y\" && vmk 96 0'", '"`"', "'`;'",
              "é", "中文", "'€ ; 中'", '"ü&&ö"']
DECOY_TEXT = {"';'": ";", '"&&"': "&&", "'||'": "||", '"; vmk 99 0"': "; vmk 99 0", "'&& vmk 98 0'": "&& vmk 98 0",
              '"|| x"': "|| x", '"it\'s"': "it's", "'a\"b'": 'a"b', '"x\' ; vmk 97 0"': "x' ; vmk 97 0",
              "'y\" && vmk 96 0'": 'y" && vmk 96 0', '"`"': "`", "'`;'": "`;", "\\;": ";", "\\&\\&": "&&", "\\|\\|x": "||x",
              "é": "é", "中文": "中文", "'€ ; 中'": "€ ; 中", '"ü&&ö"': "ü&&ö"}
DECOYS_C_ONLY = ["\\;", "\\&\\&"]


def render(prog, entry, rnd):
    """program -> (line, expected marker records, expected exit status)"""
    sts, ops = prog["sts"], prog["ops"]
    n = len(sts)
    conc = [0 if s == "z" else rnd.choice(NZ) for s in sts]
    parts = []
    decoys = []
    for j in range(n):
        ds = []
        if rnd.random() < 0.5:
            pool = DECOYS_ANY + (DECOYS_C_ONLY if entry == "c" else [])
            ds = [rnd.choice(pool) for _ in range(rnd.randint(1, 2))]
        decoys.append(ds)
        parts.append("vmk %d %d %s $?" % (j + 1, conc[j], " ".join(ds)) if ds else "vmk %d %d $?" % (j + 1, conc[j]))
        if j < n - 1:
            sp = rnd.choice([" ", "  "])
            parts.append(sp + ops[j] + sp)
    line = "".join(parts)
    exp = []
    for r in prog["ran"]:
        j = r["idx"]
        prev = r["prev"]
        seen = 0 if prev == 0 else conc[prev - 1]
        exp.append({"id": str(j), "argv": [DECOY_TEXT[d] for d in decoys[j - 1]] + [str(seen)]})
    last = prog["ran"][-1]["idx"] if prog["ran"] else 0
    status = conc[last - 1] if last else 0
    return line, exp, status, conc


def judge(rep, prog, entry, line, exp, status, res):
    got = [{"id": r.get("id"), "argv": r.get("argv")} for r in res.get("log", []) if r.get("h") == "mk"]
    feat = {"entry": entry, "n": len(prog["sts"]),
            "has_skip_then_more": has_skip_then_more(prog), "timed_out": res.get("timed_out", False)}
    case = {"entry": entry, "text": line, "program": prog, "expected_markers": exp, "expected_status": status,
            "got_markers": got, "got_status": res.get("status"), "stderr": res.get("stderr", "")[-500:]}
    if res.get("timed_out"):
        return rep.violation("hang", "command list did not finish", case, feat)
    if got != exp:
        ran_ids = [g["id"] for g in got]
        exp_ids = [e["id"] for e in exp]
        if ran_ids != exp_ids:
            kind = "wrong-pipelines-ran"
            if len(ran_ids) < len(exp_ids) and ran_ids == exp_ids[:len(ran_ids)]:
                kind = "stopped-early"
            elif len(ran_ids) > len(exp_ids):
                kind = "ran-too-many"
        else:
            kind = "wrong-$?-or-args"
        feat["kind"] = kind
        return rep.violation(kind + "/" + entry, "markers differ: expected %s got %s for `%s`" % (exp_ids, ran_ids, line),
                             case, feat)
    if res.get("status") != status:
        feat["kind"] = "exit-status"
        return rep.violation("exit-status/" + entry, "exit status %s, expected %s for `%s`" % (res.get("status"), status, line),
                             case, feat)
    return False


def has_skip_then_more(prog):
    ran = {r["idx"] for r in prog["ran"]}
    n = len(prog["sts"])
    for j in range(1, n + 1):
        if j not in ran and any(i in ran for i in range(j + 1, n + 1)):
            return True
    return False


def runner(rep, tier, seed, replay):
    rnd = random.Random(seed)
    if replay:
        with open(replay) as f:
            c = json.load(f)["case"]
        res = run_cases([{"entry": c["entry"], "text": c["text"] + ("\n" if c["entry"] == "script" else "")}])[0]
        bad = judge(rep, c["program"], c["entry"], c["text"], c["expected_markers"], c["expected_status"], res)
        return rep.finish(rule="replay of one recorded case")
    cfg = "MCCmdList_4" if tier == "quick" else "MCCmdList_6"
    r = run_tlc("MCCmdList", cfg)
    if r.violation:
        raise ToolError("design-level model violates C03 (model and reference disagree):\n" + r.violation[:2000])
    check_action_coverage(r, ["AddPipe", "Start", "TakeOp", "Skip", "Run"])
    rep.add_tlc(r)
    progs = list(r.replays)
    nsim = 150 if tier == "quick" else 5000
    rs = run_tlc("MCCmdList", "MCCmdList_sim", simulate=nsim, depth=200, seed=seed, workers=1, coverage=False)
    if rs.violation:
        raise ToolError("model violation in simulation:\n" + rs.violation[:2000])
    rep.add_tlc(rs)
    progs += rs.replays
    log("[C03] %d programs from TLC (%d exhaustive, %d simulated)" % (len(progs), len(r.replays), len(rs.replays)))
    cases, meta = [], []
    for prog in progs:
        for entry in ("c", "script"):
            line, exp, status, conc = render(prog, entry, random.Random(stable_hash(json.dumps(prog) + entry) ^ seed))
            c = {"entry": entry, "text": line + ("\n" if entry == "script" else ""), "want_files": False, "timeout": 20,
                 "env": {"CICADA_VERIF_TRACE": "@SCRATCH@/vh/trace.ndjson"}}
            cases.append(c)
            meta.append((prog, entry, line, exp, status, conc))
    # the same lines as the head of `if` / `else if` / `while` (separate code path: scripting.rs::run_exp_test_br)
    structure.check_heads(rep, [{"entry": "c", "text": m[2]} for m in meta if m[1] == "c"], random.Random(seed), 150 if tier == "quick" else 1500, "C03")
    results = tracecheck.run_cases_with_trace(cases)
    distinct = set()
    ntraces = 0
    trace_batch = []
    for (prog, entry, line, exp, status, conc), res in zip(meta, results):
        rep.cov["evaluations"] += 1
        if "tool_error" in res:
            raise ToolError(res["tool_error"])
        if len(prog["sts"]) >= 2:
            distinct.add((tuple(prog["sts"]), tuple(prog["ops"]), entry))
        judge(rep, prog, entry, line, exp, status, res)
        if rep.cov["evaluations"] % 997 == 1:
            rep.sample({"entry": entry, "line": line, "expected_markers": exp, "expected_status": status})
        tr = res.get("trace")
        if tr is not None:
            trace_batch.append({"prog": prog, "conc": conc, "events": tr, "line": line, "entry": entry})
    # (B) validate the recorded loop events against the specification
    ok, bad = tracecheck.validate_cmdlist(trace_batch, rep)
    ntraces += ok
    # ---- members of a list that start no program still have a status: an assignment-only command succeeds, a command the shell
    # rejects (redirection without a command) fails; `$?`, the operators and the exit status follow them
    dl = [("vmk 1 3 ; A=1 ; vmk 2 0 $?", [("1", []), ("2", ["0"])], 0), ("vmk 1 3 ; A=1", [("1", [])], 0), ("vmk 1 0 ; > ; vmk 2 0 $?", [("1", []), ("2", ["1"])], 0),
          ("vmk 1 0 ; >", [("1", [])], 1), ("vmk 1 3 || A=1 && vmk 2 0 $?", [("1", []), ("2", ["0"])], 0), ("A=1 && vmk 2 0 $?", [("2", ["0"])], 0),
          ("> || vmk 2 0 $?", [("2", ["1"])], 0), ("vmk 1 0 && > ; vmk 2 0 $?", [("1", []), ("2", ["1"])], 0), ("vmk 1 3 ; A=1 B=2 ; vmk 2 0 $? $A$B", [("1", []), ("2", ["0", "12"])], 0)]
    dres = run_cases([{"entry": e, "text": ln + ("\n" if e == "script" else ""), "want_files": False, "timeout": 20} for ln, _, _ in dl for e in ("c", "script")])
    k = 0
    for ln, want, wst in dl:
        for ent in ("c", "script"):
            res = dres[k]
            k += 1
            rep.cov["evaluations"] += 1
            mk = [(r.get("id"), r.get("argv")) for r in res.get("log", []) if r.get("h") == "mk"]
            if res.get("timed_out") or mk != want or res.get("status") != wst:
                rep.violation("no-program-member/%s" % ent, "`%s` (%s): markers %s exit status %s, expected %s and %s (stderr %s)"
                              % (ln, ent, mk, res.get("status"), want, wst, res.get("stderr", "")[-150:]),
                              {"entry": ent, "text": ln}, {"kind": "no-program-member", "entry": ent})
    # ---- a pipeline that cannot start one of its stages (descriptor limit: the shell prints a `pipeline` diagnostic) has failed:
    # `&&` does not go on, `||` does
    fl = [{"entry": "c", "text": "ulimit -n %d ; vmk 1 0 | vio h r <<< hi && vmk 2 0 ; ulimit -n 256 ; vmk 3 0" % n, "timeout": 20, "want_files": False}
          for n in range(4, 12)]
    fl += [{"entry": "c", "text": "ulimit -n %d ; vmk 1 0 | vio h r <<< hi || vmk 2 0 ; ulimit -n 256 ; vmk 3 0" % n, "timeout": 20, "want_files": False}
           for n in range(4, 12)]
    for j, res in zip(fl, run_cases(fl)):
        rep.cov["evaluations"] += 1
        ids = [r.get("id") for r in res.get("log", []) if r.get("h") == "mk"]
        failed = "cicada: pipeline" in res.get("stderr", "")
        is_and = "&&" in j["text"]
        if res.get("timed_out") or "3" not in ids or (failed and (("2" in ids) == is_and)):
            rep.violation("failed-start/%s" % ("and" if is_and else "or"), "`%s`: markers %s although the pipeline %s (stderr %s)"
                          % (j["text"], ids, "could not start a stage" if failed else "ran", res.get("stderr", "")[-160:]),
                          {"entry": "c", "text": j["text"]}, {"kind": "failed-start", "entry": "c"})
    # ---- a background child that ends while a later foreground pipeline of the list is still running must not disturb the
    # list: the pipeline's own status decides && / ||, $? and the exit status (the wait must not be cut short by foreign children)
    bgp = []
    for stq, op, want_ids, want_status in ((5, "&&", ["3"], 0), (0, "&&", ["2", "3"], 0), (5, "||", ["2", "3"], 0), (0, "||", ["3"], 0)):
        line = "vst bg mode=none,linger=120 & ; vst s1 mode=none,linger=450,exit=%d %s vmk 2 0 $? ; vmk 3 0 $?" % (stq, op)
        for ent in ("c", "script"):
            bgp.append((line, ent, want_ids, stq))
    bres = run_cases([{"entry": e, "text": ln + ("\n" if e == "script" else ""), "want_files": False, "timeout": 20, "linger": 1.0} for ln, e, _, _ in bgp])
    for (ln, e, want_ids, stq), res in zip(bgp, bres):
        rep.cov["evaluations"] += 1
        mk = [(r.get("id"), r.get("argv")) for r in res.get("log", []) if r.get("h") == "mk"]
        seen = [m[1][-1] if m[1] else None for m in mk]
        okids = [m[0] for m in mk] == want_ids
        first_seen = seen[0] if seen else None
        if not okids or (first_seen is not None and first_seen != (str(stq) if mk[0][0] == "2" or len(want_ids) == 1 else first_seen)):
            rep.violation("background-child/" + e, "`%s`: markers %s, expected ids %s (the foreground stage exits %d after a background child has ended)"
                          % (ln, mk, want_ids, stq), {"entry": e, "text": ln, "program": {"sts": [], "ops": []}, "expected_markers": want_ids,
                                                     "expected_status": 0, "got_markers": mk, "got_status": res.get("status")},
                          {"entry": e, "kind": "background-child", "n": 3})
    # ---- the splitter itself: spec/Splitter.tla is line_to_cmds (and trim_cmd) transcribed statement by statement; every string
    # over an 11-symbol alphabet up to length 4 (thorough 5) must be split by the real code exactly as by the transcription
    # (conformance: drift is reported, not alarmed); TLC checks that on plain lines (balanced quotes, no backslash / comment /
    # backquote) the transcription finds exactly the reference reader's operators (PlainAgrees)
    from common import chars, inproc_map
    scases = []
    rs2 = run_tlc("MCSplitter", "MCSplitter_4" if tier == "quick" else "MCSplitter_5", on_replay=scases.append, keep_replays=False, timeout=3000)
    if rs2.violation:
        raise ToolError("the transcription of line_to_cmds disagrees with the reference reader on a plain line:\n" + rs2.violation[:2000])
    rep.add_tlc(rs2)
    sgot = inproc_map("cmds", [{"id": i, "line": chars(list(c["s"]))} for i, c in enumerate(scases)], timeout=20)
    sdrift = [c["s"] for c, g in zip(scases, sgot) if not g or g.get("cmds") != [chars(list(x)) for x in c["cmds"]]]
    if sdrift:
        log("[C03] splitter transcription drift on %d strings, e.g. %r" % (len(sdrift), sdrift[:5]))
    rep.cov["splitter_strings"] = len(scases)
    rep.cov["splitter_drift"] = len(sdrift)
    rep.cov["splitter_drift_examples"] = sdrift[:10]
    rep.cov["splitter_vs_reader_disagreements"] = sum(1 for c in scases if not c["agrees"])
    rep.cov["spec_drift"] = len(sdrift)
    rep.cov["traces_validated_against_impl"] = rep.cov["evaluations"] + ntraces
    rep.cov["hook_traces_accepted"] = ntraces
    rep.cov["distinct_nontrivial"] = len(distinct)
    rep.cov["exhaustive"] = True
    rep.assumptions += ["helper vmk exits with the programmed status and logs atomically",
                        "non-zero statuses drawn from {1,3,255}",
                        "exhaustive up to MaxN pipelines (quick 4, thorough 6); longer programs simulated by TLC"]
    return rep.finish(rule="every program of <= MaxN pipelines x {;,&&,||} x {zero,non-zero} enumerated by TLC from "
                           "spec/CmdList.tla plus TLC-simulated programs of 7..12 pipelines; each run through -c and "
                           "as a script; non-trivial = at least two pipelines; distinct by (statuses, operators, entry)")


def main():
    std_main("C03", runner)
