"""C19 - arithmetic lines evaluate with standard precedence and never crash the shell.
Spec: spec/Calc.tla (recursive-descent reference: ^ right-associative and tightest, then * /, then
+ -, integer division truncating toward zero, exactness window +-2^30 because TLC's integers are
32-bit), spec/MCCalc.tla (every expression of up to 2 (thorough 3) operators over {0,1,2,3,7} with an
optional parenthesised sub-range), spec/MCCalcStr.tla (every short string over the arithmetic
alphabet with the classification facts).  (M) TLC checks precedence theorems of the reference;
(G) every expression is a replay case with its value; (A) in-process run_calculator for all of them
(random spacing, redundant parentheses, float-mode variants), `cicada -c` and `$( )` for a sample;
boundary expressions (2^31, 2^63-1, exponents up to 70, division by zero, huge literals) and all short
strings: a value or a diagnostic, never a crash."""
import json
import random

from common import Report, ToolError, chars, check_action_coverage, inproc_map, log, run_cases, run_tlc, stable_hash, std_main


def render(toks, rnd, floaty=False):
    out = []
    done_float = False
    for t in toks:
        if floaty and not done_float and t.isdigit():
            t = t + ".0"
            done_float = True
        out.append(t)
    s = ""
    for t in out:
        s += t + (" " * rnd.choice([0, 1, 1, 2]))
    s = s.strip()
    if rnd.random() < 0.2:
        s = "(" + s + ")"
    return s


def norm(x):
    return "0" if x == "-0" else x       # IEEE negative zero


BOUNDARY = ["2 ^ 64", "2 ^ 63", "2 ^ 62 * 2", "9223372036854775807 + 1", "9223372036854775808 + 1", "9999999999999999999 + 1", "99999999999999999999999 * 2",
            "1 / 0", "0 / 0", "7 / (3 - 3)", "2 ^ 70", "3 ^ 70", "10 ^ 19", "2147483648 * 2147483648", "2147483648 * 4294967296", "0 - 9223372036854775807 - 2",
            "2 ^ (0 - 1)", "0 ^ 0", "0 ^ (0 - 2)", "(0 - 9223372036854775807 - 1) / (0 - 1)", "1.5 / 0", "2.0 ^ 2000", "1 / 3.0", "0.1 + 0.2", "5 / 2.", ".5 + 1",
            "((((((((((1 + 1))))))))))", "1 + + 1", "2 ^ 3 ^ 4", "7 - - 7", "1 +", "* 3", "()", "( 1 + 2", "1 + 2 )", "1 . 2 + 3", "1..2 + 1", "1 2 + 3",
            "2 ^ 4294967296", "2 ^ 9223372036854775807", "1 - 1e5", "0.0 / 0.0", "9 ^ 9 ^ 9"]


def runner(rep, tier, seed, replay):
    rnd = random.Random(seed)
    if replay:
        with open(replay) as f:
            c = json.load(f)["case"]
        g = inproc_map("calc", [{"id": 0, "line": c["line"]}], jobs=1)[0]
        rep.cov["evaluations"] = 1
        if "panic" in g or "abort" in g or g.get("hang"):
            rep.violation("crash", "still crashes: %s" % g, c, {})
        elif c.get("expected") is not None and (g.get("result") or {}).get("ok") != c["expected"]:
            rep.violation("value", "still wrong: %s" % g, c, {})
        return rep.finish(rule="replay of one recorded expression")
    exprs = []
    r = run_tlc("MCCalc", "MCCalc_q" if tier == "quick" else "MCCalc_t", on_replay=exprs.append, keep_replays=False, timeout=3000)
    if r.violation:
        raise ToolError("arithmetic reference violates a precedence theorem:\n" + r.violation[:1500])
    check_action_coverage(r, ["Add", "Finish"])
    rep.add_tlc(r)
    total = len(exprs)
    if len(exprs) > 60000:
        exprs = rnd.sample(exprs, 60000)
    cases = []
    for e in exprs:
        rr = random.Random(stable_hash("".join(e["toks"])) ^ seed)
        line = render(e["toks"], rr)
        cases.append({"line": line, "expected": str(e["v"]) if e["exact"] else None, "toks": e["toks"], "mode": "int"})
        if e["exact"] and "/" not in e["toks"] and rr.random() < 0.3:
            cases.append({"line": render(e["toks"], rr, floaty=True), "expected": str(e["v"]), "toks": e["toks"], "mode": "float"})
    # float-mode selection probes: with a `.` anywhere on the line - also when every decimal literal sits inside parentheses -
    # the arithmetic is IEEE double; (a / b) * b with b a power of two is exact in binary floating point and equals a, while
    # integer arithmetic would truncate the quotient first (the expected value needs no real arithmetic in the reference)
    for a in (1, 3, 7, 9):
        for b in (2, 4, 8):
            for shape in ("%d / %d.0 * %d", "(%d / %d.0) * %d", "(%d / (%d.0)) * %d", "%d / (%d.0) * %d", "(%d) / ((%d.0)) * (%d)"):
                cases.append({"line": shape % (a, b, b), "expected": str(a), "toks": (shape % (a, b, b)).split(), "mode": "float"})
            cases.append({"line": "(%d.0) / %d * %d" % (a, b, b), "expected": str(a), "toks": [], "mode": "float"})
            cases.append({"line": "(%d.5 + %d.5) * %d" % (a, b, b), "expected": str((a + b + 1) * b), "toks": [], "mode": "float"})
    # float mode, powers of a negative base with a whole exponent beyond the 32-bit range: the sign is decided by the parity of
    # the exponent (IEEE pow; every whole double >= 2^53 is even), the magnitude by the base
    for ln, want in (("(0 - 1.0) ^ 2147483648", "1"), ("(0 - 1.0) ^ 2147483649", "-1"), ("(0 - 1.0) ^ 4294967296", "1"), ("(0 - 1.0) ^ 4294967297", "-1"),
                     ("(0 - 1.5) ^ 2147483648", "inf"), ("(0 - 1.5) ^ 2147483649", "-inf"), ("(0 - 0.5) ^ 2147483648", "0"), ("(0 - 2.0) ^ 31", "-2147483648"),
                     ("(0 - 2.0) ^ 32", "4294967296"), ("(0 - 1.0) ^ 9007199254740992", "1"), ("1.0 * (0 - 1) ^ 2147483650", "1"), ("(0 - 1.0) ^ (0 - 2147483649)", "-1")):
        cases.append({"line": ln, "expected": want, "toks": ln.split(), "mode": "float"})
    # integer mode beyond 2^53: every literal and every intermediate value fits in 64 bits, so the result is the exact integer
    # (an evaluator that routes literals through a double loses the low bits)
    for ln, want in (("9007199254740993 + 0", "9007199254740993"), ("(9223372036854775806 - 9223372036854775805) * 7", "7"),
                     ("0 - 9223372036854775807", "-9223372036854775807"), ("9007199254740993 - 9007199254740992", "1"),
                     ("4611686018427387905 * 2 - 4611686018427387904 * 2", "2"), ("9223372036854775807 / 9223372036854775807", "1"),
                     ("(4611686018427387904 + 4611686018427387903) - 9223372036854775806", "1")):
        cases.append({"line": ln, "expected": want, "toks": ln.split(), "mode": "int"})
    for b in BOUNDARY:
        cases.append({"line": b, "expected": None, "toks": b.split(), "mode": "boundary"})
    strs = []
    rs = run_tlc("MCCalcStr", "MCCalcStr_4" if tier == "quick" else "MCCalcStr_5", on_replay=strs.append, keep_replays=False, timeout=3000)
    rep.add_tlc(rs)
    for s in strs:
        cases.append({"line": chars(s["t"], {}), "expected": None, "mustnot": s["mustnot"], "mode": "string"})
    log("[C19] %d expressions of %d enumerated, %d boundary, %d strings" % (len(exprs), total, len(BOUNDARY), len(strs)))
    got = inproc_map("calc", [{"id": i, "line": c["line"]} for i, c in enumerate(cases)], timeout=20)
    distinct = set()
    for c, g in zip(cases, got):
        rep.cov["evaluations"] += 1
        feat = {"mode": c["mode"], "ops": sorted(set(c.get("toks", [])) & set("+-*/^"))}
        if g is None or "tool_error" in (g or {}):
            raise ToolError("calc worker: %s" % g)
        if "panic" in g or "abort" in g or g.get("hang"):
            rep.violation("crash/" + c["mode"], "`%s` crashes the evaluator: %s" % (c["line"], {k: g[k] for k in g if k != "id"}), c, dict(feat, fail="crash"))
            continue
        if c["mode"] == "string":
            if c["mustnot"] and g.get("is_arith"):
                rep.violation("classification", "`%s` is treated as arithmetic" % c["line"], c, feat)
            continue
        if c["expected"] is not None:
            distinct.add(c["line"])
            if not g.get("is_arith"):
                rep.violation("classification", "`%s` is not recognised as arithmetic" % c["line"], c, feat)
            elif norm((g.get("result") or {}).get("ok")) != c["expected"]:
                rep.violation("value/%s/%s" % (c["mode"], "".join(feat["ops"])), "`%s` = %s, expected %s" % (c["line"], g.get("result"), c["expected"]), c, feat)
    # process level: a sample through -c and through $( )
    ok_cases = [c for c in cases if c["expected"] is not None]
    sample = rnd.sample(ok_cases, min(len(ok_cases), 150 if tier == "quick" else 1500)) + [c for c in cases if c["mode"] == "boundary"]
    jobs = []
    for c in sample:
        jobs.append({"entry": "c", "text": c["line"], "timeout": 15, "want_files": False})
        # (an expression that starts with a parenthesis would spell `$((`, which is C11's business, not C19's)
        # (parentheses inside `$( )` are the tokenizer's business -- C11 --, not C19's: they are dropped for this entry)
        inner = c["line"] if "(" not in c["line"] else "1 + 1"
        jobs.append({"entry": "c", "text": "vpa $(%s) ; vpa probe" % inner, "timeout": 15, "want_files": False})
    res = run_cases(jobs)
    for k, c in enumerate(sample):
        r1, r2 = res[2 * k], res[2 * k + 1]
        rep.cov["evaluations"] += 2
        feat = {"mode": c["mode"], "level": "process"}
        for rr_, how in ((r1, "-c"), (r2, "$( )")):
            st = rr_.get("status")
            if rr_.get("timed_out") or st is None or st < 0 or st == 101 or "panicked" in rr_.get("stderr", ""):
                rep.violation("crash/process", "`%s` via %s kills the shell (status %s, stderr %s)" % (c["line"], how, st, rr_.get("stderr", "")[-200:]), c, dict(feat, fail="crash"))
        if c["expected"] is not None:
            if norm(r1.get("stdout", "").strip()) != c["expected"]:
                rep.violation("value/process", "`cicada -c '%s'` printed %r, expected %s" % (c["line"], r1.get("stdout"), c["expected"]), c, feat)
            pa = [x.get("argv") for x in r2.get("log", []) if x.get("h") == "pa"]
            if [[norm(x) for x in a] for a in pa] != [[c["expected"] if "(" not in c["line"] else "2"], ["probe"]]:
                rep.violation("value/substitution", "`vpa $(%s)` gave %s, expected [[%s], [probe]]" % (c["line"], pa, c["expected"]), c, feat)
        elif c["mode"] == "boundary":
            probe = [x for x in r2.get("log", []) if x.get("h") == "pa" and x.get("argv") == ["probe"]]
            if len(probe) != 1:
                rep.violation("shell-dead", "after `vpa $(%s)` the next command did not run" % c["line"], c, dict(feat, fail="dead"))
    rep.cov["distinct_nontrivial"] = len(distinct)
    rep.cov["traces_validated_against_impl"] = rep.cov["evaluations"]
    rep.cov["expressions_enumerated"] = total
    rep.cov["strings_enumerated"] = len(strs)
    for c in rnd.sample(ok_cases, min(4, len(ok_cases))):
        rep.sample({"line": c["line"], "expected": c["expected"]})
    rep.assumptions += ["exactness window +-2^30 (TLC integers are 32-bit): outside it, for division by zero, negative exponents and huge literals "
                        "only 'a value or a diagnostic, never a crash' is decided; IEEE accuracy and exact wrap-around values are not",
                        "float mode is checked on expressions without division whose result is integral",
                        "the harness and the binary are built with overflow checks on (like `cargo build` / `cargo test`)"]
    return rep.finish(rule="every expression of <= %d operators over operands {0,1,2,3,7} and + - * / ^ with an optional parenthesised sub-range "
                           "(spec/MCCalc.tla), rendered with random spacing and redundant parentheses, a float-mode variant for 30 %% of the "
                           "division-free ones; %d boundary expressions; every string up to length %d over the 14-symbol arithmetic alphabet; "
                           "non-trivial = expression inside the exactness window; distinct by text" % ((2, len(BOUNDARY), 4) if tier == "quick" else (3, len(BOUNDARY), 5)))


def main():
    std_main("C19", runner)
