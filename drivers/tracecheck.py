"""Trace validation (binding direction B): recorded hook events -> ndjson -> TLC trace spec."""
import json
import os
import re
import threading

from common import WORK, ToolError, log, run_cases, run_tlc

_n = [0]
_lock = threading.Lock()


def run_cases_with_trace(cases):
    return run_cases(cases)


def validate(module, cfg, records, timeout=600, env=None):
    """Validate one ndjson trace (list of dicts) with spec/<module>.tla.
    Returns (accepted, reject_line_no or None, reject_text, TlcResult)."""
    os.makedirs(WORK, exist_ok=True)
    with _lock:
        _n[0] += 1
        path = os.path.join(WORK, "trace-%d-%d.ndjson" % (os.getpid(), _n[0]))
    with open(path, "w") as f:
        for r in records:
            f.write(json.dumps(r) + "\n")
    e = {"TRACE": path}
    if env:
        e.update(env)
    try:
        res = run_tlc(module, cfg, workers=1, env=e, dfs=True, coverage=False, timeout=timeout, xmx="4g")
    finally:
        try:
            os.unlink(path)
        except OSError:
            pass
    # progress lines <<"L", n>> are printed (by the worker itself) each time a new record index is reached
    ls = [int(x) for x in re.findall(r'<<"L", (\d+)>>', res.all_out)]
    reached = max(ls) if ls else 1
    accepted = reached == len(records) + 1
    if res.violation and not res.violation.startswith("Error: Postcondition"):
        # an invariant failed in some state of the trace: the state's l is the record after the offending one
        lv = re.findall(r"/\\ l = (\d+)", res.violation)
        ln = int(lv[-1]) - 1 if lv else reached
        return False, ln, res.violation[:1500], res
    if accepted:
        return True, None, "", res
    return False, reached, "trace not explained by the specification at record %d" % reached, res


def validate_runs(module, cfg, runs, header_of, events_of, rep, describe, max_rounds=25, env=None):
    """runs: list of recorded runs.  Concatenates header_of(run) + events_of(run) for all runs,
    validates, and on rejection reports the run that contains the rejected record and goes on
    with the remaining runs.  Returns (#accepted runs, #rejected runs)."""
    runs = [r for r in runs if r is not None]
    rejected = 0
    rounds = 0
    while runs and rounds < max_rounds:
        rounds += 1
        recs, owner = [], []
        for i, r in enumerate(runs):
            part = [header_of(r)] + list(events_of(r))
            recs += part
            owner += [i] * len(part)
        ok, ln, text, res = validate(module, cfg, recs, env=env)
        rep.add_tlc(res)
        if ok:
            return len(runs), rejected
        if ln is None or ln < 1:
            raise ToolError("trace validation failed without a position:\n" + text)
        idx = owner[min(ln, len(owner)) - 1]
        bad = runs[idx]
        rejected += 1
        describe(bad, ln - owner.index(idx), text)
        # the runs before the rejected one were consumed completely -> accepted
        runs = runs[:idx] + runs[idx + 1:]
    if runs and rounds >= max_rounds:
        log("trace validation: gave up after %d rejected runs" % rejected)
        return 0, rejected
    return 0, rejected


def validate_cmdlist(batch, rep):
    def header(r):
        return {"e": "reset", "sts": r["prog"]["sts"], "ops": r["prog"]["ops"], "conc": r["conc"]}

    def events(r):
        return [ev for ev in r["events"] if ev.get("d") == 1 and ev.get("e", "").startswith("list_")]

    def describe(r, pos, text):
        rep.violation("trace-rejected/" + r["entry"],
                      "hook trace of `%s` is not a behaviour of CmdList (event %d): %s" % (r["line"], pos, text[:300]),
                      {"entry": r["entry"], "text": r["line"], "program": r["prog"], "events": r["events"],
                       "expected_markers": [], "expected_status": None},
                      {"entry": r["entry"], "kind": "trace-rejected", "n": len(r["prog"]["sts"])})
    return validate_runs("TraceCmdList", "TraceCmdList", batch, header, events, rep, describe)
