"""Interactive sessions of the real binary on a pseudo-terminal (binding direction B for C07/C06).
Observations are state based: /proc/<shell>/syscall tells whether the shell blocks in wait4 (a
foreground wait) or in the line editor; /proc/<pid>/stat gives every helper's state and process
group; tcgetpgrp(master) the terminal's foreground group.  Timing is never part of an oracle: a
time-out without positive evidence of quiescence raises Unsettled (a tool-level event)."""
import json
import os
import pty
import re
import select
import shutil
import signal
import time

from common import CICADA, HELPERS, new_scratch

PS = "@@PS@@"
WAIT4 = 61
EDITOR_SYSCALLS = (270, 7, 271, 23, 0, 232, 281)   # pselect6, poll, ppoll, select, read, epoll_wait, epoll_pwait


class Unsettled(Exception):
    pass


class Session:
    def __init__(self, jobdefs, extra_env=None):
        """jobdefs: list of {"pids": [labels], "bg": bool}"""
        self.jobdefs = jobdefs
        self.d = new_scratch()
        self.log_path = os.path.join(self.d, "vh", "log.ndjson")
        env = {"PATH": HELPERS + ":/usr/bin:/bin", "HOME": os.path.join(self.d, "home"), "PROMPT": PS + " ",
               "TERM": "xterm", "VH_LOG": self.log_path, "VH_DIR": os.path.join(self.d, "vh"),
               "HISTORY_FILE": os.path.join(self.d, "home", "hist.sqlite"), "LANG": "C.UTF-8", "NO_EXIT_ON_CTRL_D": "1"}
        if extra_env:
            env.update(extra_env)
        self.pid, self.fd = pty.fork()
        if self.pid == 0:
            os.chdir(os.path.join(self.d, "cwd"))
            os.execve(CICADA, ["cicada"], env)
        self.real = {}       # label -> real pid
        self.all_text = b""
        self.records = [{"ev": "header", "jobs": jobdefs}]
        self.notes_seen = []
        self.cur_fg = 0          # gid label of the job the driver last put in the foreground
        self.cur_run = 0         # ... and that has not yet given the prompt back (0: none)
        self.idmap = {}          # job id -> gid label, from the last jobs listing
        ok, _ = self.settle(10.0)
        if not ok:
            raise Unsettled("shell did not reach its first prompt")

    # ---- low level ----
    def read_some(self, t):
        got = b""
        end = time.time() + t
        while True:
            left = end - time.time()
            r, _, _ = select.select([self.fd], [], [], max(0, min(left, 0.02)))
            if r:
                try:
                    dta = os.read(self.fd, 65536)
                except OSError:
                    break
                if not dta:
                    break
                got += dta
            elif left <= 0:
                break
        self.all_text += got
        return got

    def shell_syscall(self):
        try:
            with open("/proc/%d/syscall" % self.pid) as f:
                t = f.read().split()
            return int(t[0]) if t and t[0].lstrip("-").isdigit() else -1
        except (OSError, ValueError):
            return -2

    def shell_state(self):
        try:
            with open("/proc/%d/stat" % self.pid) as f:
                s = f.read()
            return s[s.rindex(")") + 2]
        except OSError:
            return "X"

    def settle(self, timeout=8.0):
        """wait until the shell is blocked (sleeping) in wait4 or in the line editor for several consecutive looks and
        no more output arrives; returns (True, text) or (False, text)"""
        end = time.time() + timeout
        text = b""
        stable = 0
        lastnr = None
        while time.time() < end:
            got = self.read_some(0.03)
            text += got
            nr = self.shell_syscall()
            st = self.shell_state()
            blocked = st == "S" and (nr == WAIT4 or nr in EDITOR_SYSCALLS)
            if blocked and not got and nr == lastnr:
                stable += 1
                if stable >= 4:
                    if nr != WAIT4 and PS.encode() not in self.all_text.split(b"\n")[-1] and PS.encode() not in text:
                        # at the editor but no prompt drawn yet
                        if stable < 12:
                            continue
                    return True, text
            else:
                stable = 0
            lastnr = nr
        return False, text

    def helpers(self):
        out = {}
        if os.path.exists(self.log_path):
            with open(self.log_path) as f:
                for ln in f:
                    try:
                        r = json.loads(ln)
                    except ValueError:
                        continue
                    if r.get("h") == "job":
                        out[int(r["id"])] = r["pid"]
        return out

    def pstat(self, rp):
        try:
            with open("/proc/%d/stat" % rp) as f:
                s = f.read()
            rest = s[s.rindex(")") + 2:].split()
            st, ppid, pgrp = rest[0], int(rest[1]), int(rest[2])
            if ppid != self.pid or st in "ZX":
                return "X", 0
            return ("T" if st in "Tt" else "R"), pgrp
        except (OSError, ValueError, IndexError):
            return "X", 0

    def label_of_pgrp(self, pg):
        if pg == self.pid:
            return 1
        for lab, rp in self.real.items():
            if rp == pg:
                return lab
        return -1

    def observe(self, text, want_jobs):
        try:
            tg = os.tcgetpgrp(self.fd)
        except OSError:
            tg = -1
        nr = self.shell_syscall()
        o = {"prompt": nr != WAIT4, "tty": self.label_of_pgrp(tg), "st": {}, "pg": {}}
        for lab, rp in sorted(self.real.items()):
            st, pg = self.pstat(rp)
            o["st"][str(lab)] = st
            o["pg"][str(lab)] = self.label_of_pgrp(pg) if st != "X" else 0
        txt = text.decode("utf-8", "replace")
        o["jobs"] = []
        if want_jobs:
            for m in re.finditer(r"\[(\d+)\] (\d+)\s+(Running|Stopped)", txt):
                o["jobs"].append([int(m.group(1)), self.label_of_pgrp(int(m.group(2))), m.group(3)])
        notes = []
        for m in re.finditer(r"\[(\d+)\] (\d+)\s+(Done|Killed|Quit|Interrupt|Terminated)", txt):
            notes.append(self.label_of_pgrp(int(m.group(2))))
        self.notes_seen += notes
        o["notes"] = list(self.notes_seen)
        return o

    # ---- actions ----
    def act(self, ev, **kw):
        rec = dict(ev=ev, **kw)
        rec["tgt"] = 0
        want_jobs = False
        if ev == "launch":
            jd = self.jobdefs[kw["d"] - 1]
            if not jd["bg"]:
                self.cur_fg = jd["pids"][0]
                self.cur_run = jd["pids"][0]
            line = " | ".join("vjob %d" % p for p in jd["pids"]) + (" &" if jd["bg"] else "")
            os.write(self.fd, line.encode() + b"\r")
            end = time.time() + 10
            while time.time() < end:
                self.real.update({k: v for k, v in self.helpers().items()})
                if all(p in self.real for p in jd["pids"]):
                    break
                self.read_some(0.02)
            else:
                raise Unsettled("helpers of job %s did not start" % kw["d"])
        elif ev == "ctrlz":
            rec["tgt"] = self.cur_fg
            os.write(self.fd, b"\x1a")
        elif ev == "ctrlc":
            os.write(self.fd, b"\x03")
        elif ev in ("extstop", "extcont", "extkill", "extexit"):
            sig = {"extstop": signal.SIGSTOP, "extcont": signal.SIGCONT, "extkill": signal.SIGKILL,
                   "extexit": signal.SIGUSR1}[ev]
            rp = self.real[kw["p"]]
            os.kill(rp, sig)
            want = {"extstop": "T", "extcont": "R"}.get(ev)
            end = time.time() + 5
            while time.time() < end:
                st, _ = self.pstat(rp)
                if (want and st == want) or (not want and st == "X") or (ev == "extcont" and st == "X"):    # a pending SIGINT ends it
                    break
                time.sleep(0.005)
            else:
                raise Unsettled("signal %s to helper %s had no visible effect" % (ev, kw["p"]))
        elif ev == "enter":
            os.write(self.fd, b"\r")
        elif ev == "jobs":
            os.write(self.fd, b"jobs\r")
            want_jobs = True
        elif ev in ("fg", "bg"):
            rec["tgt"] = self.idmap.get(kw["id"], 0)
            if ev == "fg" and rec["tgt"]:
                self.cur_fg = rec["tgt"]
                self.cur_run = rec["tgt"]
            os.write(self.fd, ("%s %d\r" % (ev, kw["id"])).encode())
        ok, text = self.settle()
        if not ok:
            raise Unsettled("shell did not settle after %s (syscall %s state %s)" % (rec, self.shell_syscall(), self.shell_state()))
        rec["obs"] = self.observe(text, want_jobs)
        rec["fgexp"] = self.cur_fg
        # the job whose foreground wait is (or was until this very action) in progress: judged at the observation where the
        # prompt is first seen again, then forgotten
        rec["fgrun"] = self.cur_run
        if rec["obs"]["prompt"]:
            self.cur_run = 0
        if want_jobs:
            self.idmap = {j[0]: j[1] for j in rec["obs"]["jobs"]}
        self.records.append(rec)
        return rec

    def close(self):
        for rp in list(self.real.values()) + [self.pid]:
            try:
                os.kill(rp, signal.SIGKILL)
            except OSError:
                pass
        try:
            os.close(self.fd)
        except OSError:
            pass
        try:
            os.waitpid(self.pid, 0)
        except OSError:
            pass
        shutil.rmtree(self.d, ignore_errors=True)


class LineSession:
    """A plain interactive session for checks that type lines / keys at the prompt (C16, C20, C05).
    cwd is <scratch>/cwd; helpers log to <scratch>/vh/log.ndjson."""

    def __init__(self, files=None, dirs=None, env=None, vhfiles=None, rows=24, cols=200):
        self.d = new_scratch()
        self.cwd = os.path.join(self.d, "cwd")
        for rel in (dirs or []):
            os.makedirs(os.path.join(self.cwd, rel), exist_ok=True)
        for rel, content in (files or {}).items():
            p = os.path.join(self.cwd, rel)
            os.makedirs(os.path.dirname(p), exist_ok=True)
            with open(p, "w", encoding="utf-8", newline="") as f:
                f.write(content)
        for name, content in (vhfiles or {}).items():
            with open(os.path.join(self.d, "vh", name), "w", encoding="utf-8", newline="") as f:
                f.write(content)
        self.log_path = os.path.join(self.d, "vh", "log.ndjson")
        e = {"PATH": HELPERS + ":/usr/bin:/bin", "HOME": os.path.join(self.d, "home"), "PROMPT": PS + " ",
             "TERM": "xterm", "VH_LOG": self.log_path, "VH_DIR": os.path.join(self.d, "vh"), "VH_ENVNAMES": "",
             "HISTORY_FILE": os.path.join(self.d, "home", "hist.sqlite"), "LANG": "C.UTF-8", "LC_ALL": "C.UTF-8",
             "NO_EXIT_ON_CTRL_D": "1", "XDG_DATA_HOME": os.path.join(self.d, "home", ".local", "share")}
        if env:
            for k, v in env.items():
                e[k] = v.replace("@SCRATCH@", self.d) if isinstance(v, str) else v
        self.pid, self.fd = pty.fork()
        if self.pid == 0:
            os.chdir(self.cwd)
            os.execve(CICADA, ["cicada"], e)
        try:
            import fcntl
            import struct
            import termios
            fcntl.ioctl(self.fd, termios.TIOCSWINSZ, struct.pack("HHHH", rows, cols, 0, 0))
        except Exception:  # noqa
            pass
        self.all_text = b""
        ok, _ = self.settle(15.0)
        if not ok:
            self.close()
            raise Unsettled("shell did not reach its first prompt")

    read_some = Session.read_some
    shell_syscall = Session.shell_syscall
    shell_state = Session.shell_state
    settle = Session.settle

    def alive(self):
        return self.shell_state() not in ("X", "Z")

    def send(self, data, timeout=8.0):
        """write bytes, wait for quiescence; returns (settled, text)"""
        if isinstance(data, str):
            data = data.encode("utf-8")
        # large writes in pieces so the pty input queue never overflows
        for i in range(0, len(data), 256):
            os.write(self.fd, data[i:i + 256])
            if len(data) > 256:
                self.read_some(0.01)
        return self.settle(timeout)

    def at_prompt(self):
        return self.alive() and self.shell_syscall() != WAIT4

    def log(self):
        recs = []
        if os.path.exists(self.log_path):
            with open(self.log_path, "rb") as f:
                for ln in f:
                    try:
                        recs.append(json.loads(ln))
                    except ValueError:
                        recs.append({"h": "garbled"})
        return recs

    def close(self):
        try:
            os.kill(self.pid, signal.SIGKILL)
        except OSError:
            pass
        try:
            os.close(self.fd)
        except OSError:
            pass
        try:
            _, st = os.waitpid(self.pid, 0)
            self.exit_status = st
        except OSError:
            self.exit_status = None
        shutil.rmtree(self.d, ignore_errors=True)
