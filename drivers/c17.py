"""C17 - aliases replace exactly the command word, once, and can be listed and removed.
Spec: spec/Alias.tla (table; define / redefine / unalias / list / show / use at five positions; which
value the reference substitutes).  (M) TLC checks the reference theorems on every history of 4
operations; (G) TLC simulation produces histories of 20 operations; (A) each history is rendered to
a script; oracle: the helper records of every use (argv, which program ran), and every listing /
single show is fed to a fresh shell which must behave as the table says."""
import json
import random

from common import HELPERS, Report, ToolError, check_action_coverage, log, run_cases, run_tlc, std_main

NONE = "<none>"
NAMES = ["n1", "a.b", "x-y", "_u", "vpa", "vmk", "7z", "4.2"]      # 4.2: a name of digits and dots only
DEF = {"v1": "'vpa -x'", "v2": "'vpa \"o q\"'", "v3": "\"vpa 'o q'\"", "v4": "'vpa P1 | vio F r'", "v5": "'vmk 5 0'", "v6": "'vpa -s6'", "v7": "'vpa a=b'",
       "v8": "'\"vpa\" -q8'",        # a value that begins with a quoted command word
       "v9": "'vpa P9 | vmk 9 0'"}     # a pipeline whose second stage is a word that may itself be an alias name (vmk): not replaced again
# what a value means: list of (program, fixed args); extra words of the use are appended to the last one
MEAN = {"v1": [("pa", ["-x"])], "v2": [("pa", ["o q"])], "v3": [("pa", ["o q"])], "v4": [("pa", ["P1"]), ("io", ["F", "r"])],
        "v5": [("mk", ["5", "0"])], "v6": [("pa", ["-s6"])], "v7": [("pa", ["a=b"])], "v8": [("pa", ["-q8"])],
        "v9": [("pa", ["P9"]), ("mk", ["9", "0"])]}
REAL = {"vpa": "pa", "vmk": "mk"}


def render(hist):
    lines = []
    for i, o in enumerate(hist, 1):
        k = o["op"]
        if k == "define":
            lines.append("alias %s=%s" % (o["n"], DEF[o["v"]]))
        elif k == "unalias":
            lines.append("unalias %s" % o["n"])
        elif k == "list":
            lines.append("alias > L%d.txt" % i)
        elif k == "show":
            lines.append("alias %s > S%d.txt" % (o["n"], i))
        elif k == "use":
            n, p = o["n"], o["pos"]
            use = "%s k%d" % (n, i)
            if p == "head":
                lines.append(use)
            elif p == "afterpipe":
                lines.append("vio X%d | %s" % (i, use))
            elif p == "aftersemi":
                lines.append("vio X%d ; %s" % (i, use))
            elif p == "afterand":
                lines.append("vio X%d && %s" % (i, use))
            else:
                # a non-first word - also right after a quoted operator character, which is an argument, not a new command
                dec = NF_DECOYS[i % len(NF_DECOYS)]
                # (the probe is called by its path: `vpa` itself may be an alias at this point - of a pipeline whose last stage
                # does not record its arguments - and a command word with a slash is never an alias)
                lines.append("%s/vpa NF%d %s%s" % (HELPERS, i, dec[0], n))
    return "\n".join(lines) + "\n"


NF_DECOYS = [("", []), ("'|' ", ["|"]), ('"|" ', ["|"]), ("';' ", [";"]), ('"&&" ', ["&&"]), ("", [])]


def expected_use(name, v, key):
    """records (helper kind, argv/tag) the use with extra word `key` must produce"""
    if v == NONE:
        if name in REAL:
            return [(REAL[name], [key])]
        return []
    cmds = [(p, list(a)) for p, a in MEAN[v]]
    cmds[-1][1].append(key)
    return cmds


def records_with(logs, key):
    out = []
    for r in logs:
        if r.get("h") == "pa" and key in (r.get("argv") or []):
            out.append(("pa", r["argv"]))
        elif r.get("h") == "mk" and (r.get("id") == key or key in (r.get("argv") or []) or str(r.get("st")) == key):
            out.append(("mk", [r.get("id"), str(r.get("st"))] + (r.get("argv") or [])))
        elif r.get("h") == "io" and r.get("tag") == "F":
            pass
    return out


def norm(recs):
    return [(k, [x for x in a]) for k, a in recs]


def check_use(logs, name, v, key):
    exp = expected_use(name, v, key)
    got = records_with(logs, key)
    # the pipe value: the key goes to `vio F r <key>` which logs only its tag; accept by counting F records
    want = []
    for p, a in exp:
        if p == "pa":
            want.append(("pa", a))
        elif p == "mk":
            want.append(("mk", a if len(a) > 1 else [a[0], "0"]))
    if v == "v4":
        want = []          # key is swallowed by vio; judged separately
    if v == "v9":
        # the extra word goes to the second stage (the real vmk, whatever `vmk` is an alias of); the first stage ran as written
        want = [w for w in want if w[0] == "mk"]
        if not any(x.get("h") == "pa" and x.get("argv") == ["P9"] for x in logs):
            return False, want + [("pa", ["P9"])], got
    got = [g for g in got if not (g[0] == "mk" and v not in ("v5", "v9") and name not in REAL)]
    return norm(got) == norm(want), want, got


def judge(rep, hist, text, res, second):
    feat0 = {"values": sorted({o.get("v") for o in hist if o["op"] == "define"}), "names": sorted({o.get("n") for o in hist if "n" in o})}
    rec = {"hist": hist, "text": text, "stderr": res.get("stderr", "")[-300:]}
    if res.get("timed_out"):
        return rep.violation("hang", "alias history never finishes (a loop?)\n" + text, rec, feat0)
    logs = res.get("log", [])
    files = res.get("files", {})
    for i, o in enumerate(hist, 1):
        k = o["op"]
        feat = dict(feat0, op=k, pos=o.get("pos", ""), value=o.get("v", ""), name=o.get("n", ""))

        def bad(kind, desc):
            return rep.violation("%s/%s" % (kind, o.get("pos", k)), "operation %d %s of\n%s--- %s" % (i, json.dumps(o), text, desc), dict(rec, step=i), dict(feat, fail=kind))
        if k == "use":
            if o["pos"] == "nonfirst":
                r = [x for x in logs if x.get("h") in ("pa", "mk") and "NF%d" % i in (x.get("argv") or [])]
                # (vpa itself may be an alias at this point - of another vpa call or of the marker helper vmk: only the words
                # from the marker on are compared, whichever helper received them)
                if len(r) != 1 or r[0]["argv"][r[0]["argv"].index("NF%d" % i):] != ["NF%d" % i] + NF_DECOYS[i % len(NF_DECOYS)][1] + [o["n"]]:
                    return bad("nonfirst-replaced", "a non-first word was touched: argv %s" % [x.get("argv") for x in r])
                continue
            ok, want, got = check_use(logs, o["n"], o["v"], "k%d" % i)
            if o["v"] == "v4":
                pa = [x for x in logs if x.get("h") == "pa" and x.get("argv") == ["P1"]]
                ok = len(pa) >= 1
            if not ok:
                return bad("use", "expected records %s, got %s" % (want, got))
            if o["pos"] != "head":
                x = [r for r in logs if r.get("h") == "io" and r.get("tag") == "X%d" % i]
                if len(x) != 1:
                    return bad("neighbour", "the command before it ran %d times" % len(x))
        elif k in ("list", "show"):
            fn = ("L%d.txt" if k == "list" else "S%d.txt") % i
            content = files.get(fn)
            table = o["table"] if k == "list" else {o["n"]: o["v"]}
            defined = {n: v for n, v in table.items() if v != NONE}
            if content is None:
                return bad("listing-missing", "%s was not written" % fn)
            nlines = [ln for ln in content.splitlines() if ln.strip()]
            if len(nlines) != len(defined):
                return bad("listing-size", "listing has %d lines for %d definitions: %r" % (len(nlines), len(defined), content))
            second.append((i, o, content, defined))
    return False


def runner(rep, tier, seed, replay):
    if replay:
        with open(replay) as f:
            c = json.load(f)["case"]
        text = render(c["hist"])
        res = run_cases([{"entry": "script", "text": text, "timeout": 30}])[0]
        judge(rep, c["hist"], text, res, [])
        rep.cov["evaluations"] = 1
        return rep.finish(rule="replay of one recorded history")
    r = run_tlc("Alias", "Alias_mc", timeout=1800)
    if r.violation:
        raise ToolError("alias reference violates its own theorem:\n" + r.violation[:1500])
    rep.add_tlc(r)
    hists = []
    n = 200 if tier == "quick" else 5000
    rs = run_tlc("Alias", "Alias_sim", simulate=max(5, n // 80), depth=25, seed=seed, workers=1, coverage=False,
                 on_replay=lambda v: hists.append(v) if len(hists) < n else None, keep_replays=False, timeout=1800)
    rep.add_tlc(rs)
    # every value under three kinds of name: define, `alias NAME`, full listing, use (the random walks show a defined name rarely)
    for v in sorted(DEF):
        for n in ("n1", "a.b", "7z"):
            hists.append([{"op": "define", "n": n, "v": v}, {"op": "show", "n": n, "v": v}, {"op": "list", "table": {n: v}},
                          {"op": "use", "n": n, "v": v, "pos": "head"}])
    # the words an alias value brings in are not alias-replaced again: a pipeline value whose stages name helpers that are aliases
    # themselves at that moment (vmk -> 'vpa -x', vpa -> 'vmk 5 0')
    hists.append([{"op": "define", "n": "vmk", "v": "v1"}, {"op": "define", "n": "n1", "v": "v9"}, {"op": "use", "n": "n1", "v": "v9", "pos": "head"},
                  {"op": "use", "n": "n1", "v": "v9", "pos": "aftersemi"}, {"op": "define", "n": "vpa", "v": "v5"}, {"op": "use", "n": "n1", "v": "v9", "pos": "head"},
                  {"op": "use", "n": "n1", "v": "v9", "pos": "afterpipe"}])
    log("[C17] %d histories" % len(hists))
    jobs = [{"entry": "script", "text": render(h), "timeout": 20} for h in hists]
    results = run_cases(jobs)
    second = []
    for h, j, res in zip(hists, jobs, results):
        if "tool_error" in res:
            raise ToolError(res["tool_error"])
        rep.cov["evaluations"] += 1
        sec = []
        if not judge(rep, h, j["text"], res, sec):
            second += [(h, s) for s in sec]
        if rep.cov["evaluations"] % 67 == 1:
            rep.sample({"script": j["text"][:600]})
    # round trip: feed each listing to a fresh shell and probe every name
    random.Random(seed).shuffle(second)
    # listings that hold a value with quote characters go first (both the full listing and `alias NAME`), the rest is sampled
    quoted = lambda e: any(v in ("v2", "v3", "v8") for v in e[1][3].values())
    second.sort(key=lambda e: (0 if (e[1][1]["op"] == "show" and quoted(e)) else 1 if quoted(e) else 2))
    nq = sum(1 for e in second if e[1][1]["op"] == "show" and quoted(e))
    second = second[:max(300 if tier == "quick" else 3000, min(nq, 150) + 200)]
    log("[C17] round trips: %d listings (%d of them `alias NAME` of a value with quotes)" % (len(second), min(nq, len(second))))
    jobs2 = []
    for h, (i, o, content, defined) in second:
        probes = "".join("%s probe-%s\n" % (n, n) for n in NAMES)
        jobs2.append({"entry": "script", "text": content + "\n" + probes, "timeout": 20})
    res2 = run_cases(jobs2)
    for (h, (i, o, content, defined)), res in zip(second, res2):
        rep.cov["evaluations"] += 1
        logs = res.get("log", [])
        for n in NAMES:
            v = defined.get(n, NONE)
            ok, want, got = check_use(logs, n, v, "probe-%s" % n)
            if v == "v4":
                ok = any(x.get("h") == "pa" and x.get("argv") == ["P1"] for x in logs)
            if not ok:
                rep.violation("round-trip/%s" % v, "listing %r fed to a fresh shell: `%s` behaves as %s, the table says %s (%s)" % (content, n, got, v, want),
                              {"hist": h, "listing": content, "name": n}, {"op": "roundtrip", "value": v, "name": n, "value_has_squote": v == "v3"})
                break
    # bare uses: the alias name is the whole command (no further word), or is followed only by a number - at line start, after a
    # pipe, after `;` and after `&&`; the alias is redefined before each use so that every use is told apart by its tag
    bare_names = [n for n in NAMES if n not in REAL] + ["42", "0.5", "v_1", "-n" if False else "n-"]
    bjobs = []
    for n in bare_names:
        uses = [("head", "%s"), ("afterpipe", "vio X | %s"), ("aftersemi", "vmk Z1 0 ; %s"), ("afterand", "vmk Z2 0 && %s"), ("numarg", "%s 7"),
                ("numarg-afterand", "vmk Z3 0 && %s 1.5")]
        text = "".join("alias %s='vpa B%d'\n%s\n" % (n, i, u % n) for i, (_, u) in enumerate(uses))
        bjobs.append((n, uses, {"entry": "script", "text": text, "timeout": 20}))
    for (n, uses, j), res in zip(bjobs, run_cases([b[2] for b in bjobs])):
        rep.cov["evaluations"] += 1
        got = [r.get("argv") for r in res.get("log", []) if r.get("h") == "pa"]
        want = [["B%d" % i] + (["7"] if k == "numarg" else ["1.5"] if k == "numarg-afterand" else []) for i, (k, _) in enumerate(uses)]
        if got != want:
            wrong = [uses[i][0] for i in range(len(uses)) if want[i] not in got]
            rep.violation("bare-use/%s" % (wrong[0] if wrong else "extra"), "alias %s used as a whole command: the value ran as %s, expected %s (stdout %r stderr %r)\n%s"
                          % (n, got, want, res.get("stdout", "")[-120:], res.get("stderr", "")[-200:], j["text"]),
                          {"bare": n, "text": j["text"], "got": got}, {"op": "bare-use", "name": n, "digits_only": not any(c.isalpha() or c in "_-" for c in n)})
    rep.cov["distinct_nontrivial"] = len({j["text"] for j in jobs})
    rep.cov["traces_validated_against_impl"] = rep.cov["evaluations"]
    rep.cov["round_trips"] = len(jobs2)
    rep.assumptions += ["alias values are a fixed set of seven (options, quotes of the other kind, a pipe, another helper name, key=value)",
                        "names vpa and vmk are real helper programs too, which makes self-mention and mention of another alias observable"]
    return rep.finish(rule="TLC-simulated histories of 20 operations (define / redefine / unalias / list / show / use at line start, after |, "
                           "after ;, after &&, as a non-first word) over names {n1, a.b, x-y, _u, vpa, vmk} and 7 values; every listing "
                           "fed to a fresh shell and probed; non-trivial = every history; distinct by script text")


def main():
    std_main("C17", runner)
